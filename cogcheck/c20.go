package main

// C20 — configuration decoding. Engines E8 "cfgschema" + E5 (union exhaustiveness).

import (
	"encoding/json"
	"fmt"
	"go/ast"
	"go/token"
	"go/types"
	"os"
	"path/filepath"
	"reflect"
	"sort"
	"strings"

	"golang.org/x/tools/go/packages"
)

func init() { register("C20", checkC20) }

const yamlPkgPath = "gopkg.in/yaml.v3"

func checkC20(ctx *Ctx, r *Report) {
	r.Explanation = "Decided from source: (1) strict-decoder typestate — every yaml.NewDecoder result in cog has KnownFields(true) called unconditionally, in the block that creates it, before any Decode; no configuration is decoded through yaml.Unmarshal / Node.Decode and no configuration type has a custom UnmarshalYAML (which would drop strictness for its subtree); (2) union exhaustiveness — every 'exactly-one-of' dispatch (if-chain or switch over `x.Member != nil` with returning branches) tests every pointer member of the union struct that has a yaml key, and its fall-through returns a non-nil error; every decoded union value reaches its dispatch; (3) loader/schema agreement — the yaml key tree computed from the Go structs reachable from codegen.Pipeline, yaml.Compiler and yaml.Veneers with yaml.v3's naming rules equals, definition by definition, the `properties` of schemas/*.json, every struct definition is closed (additionalProperties:false, matching the strict decoder) and each leaf has the same JSON type class."
	r.NotCovered = "semantic validation inside the converters (reference string formats), `required` lists (not emitted by the reflector), mutual exclusion of two union members set at once, yaml.v3's own behaviour."
	r.Exhaustive = true
	r.Trusted = []string{"yaml.v3 key naming rules as transcribed in yamlKeys()", "encoding/json for reading schemas/*.json"}

	c20Typestate(ctx, r)
	c20Unions(ctx, r)
	c20SchemaAgreement(ctx, r)
	c20ErrorDiscipline(ctx, r)
	c20DispatchReached(ctx, r)
	cfgNilEntries(ctx, r)
	c20UnionsNonEmptyInSchemas(ctx, r)
	c20ThirdHunt(ctx, r)
	c20FourthHunt(ctx, r)
	c20FifthHunt(ctx, r)
	c20UnionSingleMember(ctx, r)
}

// ---------------------------------------------------------------------------
// (1) typestate

func c20Typestate(ctx *Ctx, r *Report) {
	for _, p := range ctx.Pkgs {
		info := p.TypesInfo
		for _, f := range p.Syntax {
			for _, d := range f.Decls {
				fd, ok := d.(*ast.FuncDecl)
				if !ok || fd.Body == nil {
					continue
				}
				fobj, _ := info.Defs[fd.Name].(*types.Func)
				name := ctx.FuncName(fobj)
				parents := parentMap(fd)
				ast.Inspect(fd.Body, func(n ast.Node) bool {
					call, ok := n.(*ast.CallExpr)
					if !ok {
						return true
					}
					fn := callee(info, call)
					if fn == nil || fn.Pkg() == nil || fn.Pkg().Path() != yamlPkgPath {
						return true
					}
					switch {
					case funcIs(fn, yamlPkgPath, "Unmarshal"):
						r.Bad("cfgschema/strict", name+" yaml.Unmarshal", call.Pos(), "yaml.Unmarshal decodes non-strictly: unknown keys are silently ignored")
					case funcIs(fn, yamlPkgPath, "Node.Decode"):
						r.Bad("cfgschema/strict", name+" Node.Decode", call.Pos(), "yaml.Node.Decode decodes non-strictly: unknown keys are silently ignored")
					case funcIs(fn, yamlPkgPath, "NewDecoder"):
						r.Count("yaml decoders", 1)
						as, ok := parents[call].(*ast.AssignStmt)
						if !ok || len(as.Lhs) != 1 {
							r.Bad("cfgschema/strict", name+" decoder", call.Pos(), "yaml decoder is not bound to a local: strictness cannot be established")
							return true
						}
						id, _ := as.Lhs[0].(*ast.Ident)
						dec := objOf(info, id)
						block := parents[as]
						var known *ast.CallExpr
						var decodes []*ast.CallExpr
						escapes := false
						ast.Inspect(fd.Body, func(m ast.Node) bool {
							switch x := m.(type) {
							case *ast.CallExpr:
								if sel, ok := x.Fun.(*ast.SelectorExpr); ok && isIdentOf(info, sel.X, dec) {
									c := callee(info, x)
									if funcIs(c, yamlPkgPath, "Decoder.KnownFields") && len(x.Args) == 1 {
										if tv := info.Types[x.Args[0]]; tv.Value != nil && tv.Value.String() == "true" {
											if es, ok := parents[x].(*ast.ExprStmt); ok && parents[es] == block && known == nil {
												known = x
											}
										} else {
											escapes = true // KnownFields(false) or dynamic
										}
									}
									if funcIs(c, yamlPkgPath, "Decoder.Decode") {
										decodes = append(decodes, x)
									}
									return true
								}
								for _, a := range x.Args {
									if isIdentOf(info, a, dec) {
										escapes = true
									}
								}
							case *ast.ReturnStmt:
								for _, res := range x.Results {
									if isIdentOf(info, res, dec) {
										escapes = true
									}
								}
							}
							return true
						})
						// a decoder that only ever fills a yaml.Node reads the shape of the document: no configuration
						// struct is decoded by it, so there is no key to be strict about
						onlyNodes := len(decodes) > 0 && !escapes
						for _, dcall := range decodes {
							if len(dcall.Args) != 1 {
								onlyNodes = false
								continue
							}
							if n := namedOf(info.TypeOf(dcall.Args[0])); n == nil || n.Obj().Name() != "Node" || n.Obj().Pkg() == nil || n.Obj().Pkg().Path() != yamlPkgPath {
								onlyNodes = false
							}
						}
						if onlyNodes {
							r.OK("cfgschema/strict", name+" yaml.NewDecoder (shape)", call.Pos(), "this decoder only decodes into yaml.Node values: it reads the shape of the input, no configuration struct is filled by it")
							return true
						}
						ok2 := known != nil && !escapes && len(decodes) > 0
						for _, dcall := range decodes {
							if known == nil || dcall.Pos() < known.End() {
								ok2 = false
							}
						}
						r.Check(ok2, "cfgschema/strict", name+" yaml.NewDecoder", call.Pos(),
							"KnownFields(true) is called unconditionally in the creating block before every Decode: unknown keys are errors at any depth",
							"this decoder can reach Decode without KnownFields(true) (missing, conditional, set to false, after Decode, or the decoder escapes): unknown configuration keys are silently ignored")
					}
					return true
				})
			}
		}
	}
	r.Floor("yaml decoders", 2)
	c20StrictHelper(ctx, r)
}

// c20StrictHelper: the three loaders go through yaml.DecodeStrict, which closes what KnownFields(true) cannot see —
// yaml.v3 skips a null key, a null entry of a list of structs and every document after the first before any check.
func c20StrictHelper(ctx *Ctx, r *Report) {
	helper := ctx.LookupFunc("internal/yaml", "DecodeStrict")
	hfd, hp := ctx.DeclOf(helper)
	if hfd == nil || hfd.Body == nil {
		r.Bad("cfgschema/strict-helper", "internal/yaml.DecodeStrict", token.NoPos, "the loaders have no shared strict decoding function: null keys, null list entries and additional documents are skipped by yaml.v3 before KnownFields can object")
		return
	}
	hinfo := hp.TypesInfo
	// (a) a second Decode whose result is compared with io.EOF, and a call to the shape check
	eof, shape := false, (*types.Func)(nil)
	ast.Inspect(hfd.Body, func(n ast.Node) bool {
		c, ok := n.(*ast.CallExpr)
		if !ok {
			return true
		}
		fn := callee(hinfo, c)
		if fn == nil {
			return true
		}
		if fn.Name() == "Is" && fn.Pkg() != nil && fn.Pkg().Path() == "errors" && len(c.Args) == 2 && exprString(c.Args[1]) == "io.EOF" {
			eof = true
		}
		if fn.Pkg() == hp.Types && fn != helper {
			// the shape check: (node[, target type[, what was already checked]]) error
			if sig, _ := fn.Type().(*types.Signature); sig != nil && sig.Params().Len() >= 1 && sig.Params().Len() <= 3 && sig.Results().Len() == 1 && strings.HasSuffix(sig.Params().At(0).Type().String(), "yaml.v3.Node") {
				shape = fn
			}
		}
		return true
	})
	r.Check(eof, "cfgschema/strict-helper", "DecodeStrict rejects additional documents", hfd.Pos(), "the input is read until io.EOF after the first document",
		"DecodeStrict does not check that the input ends after the first document: everything after a `---` separator is never decoded, unknown keys and empty rules included")
	if shape == nil {
		r.Bad("cfgschema/strict-helper", "DecodeStrict checks the shape of the document", hfd.Pos(), "no shape check is called: null keys and null list entries are skipped by the decoder")
	} else {
		sfd, _ := ctx.DeclOf(shape)
		want := map[string]string{"DocumentNode": "a null document", "MappingNode": "null or non-scalar keys", "SequenceNode": "null list entries"}
		got := map[string]bool{}
		recurses := false
		errT := types.Universe.Lookup("error").Type()
		if sfd != nil && sfd.Body != nil {
			ast.Inspect(sfd.Body, func(n ast.Node) bool {
				switch x := n.(type) {
				case *ast.CaseClause:
					for _, e := range x.List {
						for k := range want {
							if strings.HasSuffix(exprString(e), k) {
								rejects := false
								ast.Inspect(x, func(m ast.Node) bool {
									// a test of the node itself, not the propagation of an error met deeper (`if err := f(child); err != nil`)
									// … and a test of its nullness: the case has other error exits (a key the target does not declare)
									if is, ok := m.(*ast.IfStmt); ok && is.Init == nil && blockReturnsError(hinfo, is.Body, errT) && strings.Contains(exprString(is.Cond), "isNullNode(") {
										rejects = true
									}
									return true
								})
								if rejects {
									got[k] = true
								}
							}
						}
					}
				case *ast.CallExpr:
					if callee(hinfo, x) == shape {
						recurses = true
					}
				}
				return true
			})
		}
		for _, k := range []string{"DocumentNode", "MappingNode", "SequenceNode"} {
			r.Check(got[k], "cfgschema/strict-helper", shape.Name()+" rejects "+want[k], shape.Pos(), "the case for yaml."+k+" returns an error",
				"the shape check has no rejecting case for yaml."+k+": "+want[k]+" are skipped by yaml.v3 without an error (a `~: x` pair, a `- ~` rule, a `~` file)")
		}
		r.Check(recurses, "cfgschema/strict-helper", shape.Name()+" descends into every node", shape.Pos(), "the check calls itself on the content of the node", "the shape check does not recurse: only the top level of the document is checked")
		// the checks belong to the configuration language, not to the free-form values it carries (`any`: defaults,
		// constants, hints — `true` in the published schemas): the walk follows the target type and stops at interfaces
		stops := false
		if sfd != nil && sfd.Body != nil {
			// a statement of the function itself (what a case of the switch does for the items of a list is another clause)
			for _, top := range sfd.Body.List {
				is, ok := top.(*ast.IfStmt)
				if !ok {
					continue
				}
				if strings.Contains(exprString(is.Cond), "reflect.Interface") {
					for _, st := range is.Body.List {
						if rs, ok := st.(*ast.ReturnStmt); ok && len(rs.Results) == 1 && exprString(rs.Results[0]) == "nil" {
							stops = true
						}
					}
				}
			}
		}
		// a key left without a value (`builders: ~`, an empty `passes:`): yaml.v3 gives the zero value, so the loader
		// accepts it; the published schemas type those keys array / object / string. Either the shape check refuses a
		// null value where the target is not free-form, or the schemas have to admit null.
		rejectsNullValue := false
		if sfd != nil && sfd.Body != nil {
			ast.Inspect(sfd.Body, func(n ast.Node) bool {
				c, ok := n.(*ast.CallExpr)
				if !ok || len(c.Args) != 1 {
					return true
				}
				if fn := callee(hinfo, c); fn == nil || fn.Name() != "isNullNode" {
					return true
				}
				// the value of a mapping pair: node.Content[i+1]
				if ix, ok := ast.Unparen(c.Args[0]).(*ast.IndexExpr); ok {
					if be, ok := ast.Unparen(ix.Index).(*ast.BinaryExpr); ok && be.Op == token.ADD {
						rejectsNullValue = true
					}
				}
				return true
			})
		}
		if r.Property == "C20" { // an editor / loader disagreement: nothing C04 (no panic, termination) depends on
			r.Check(rejectsNullValue, "cfgschema/null-values", shape.Name()+" and the published schemas agree on keys without value", shape.Pos(), "a null value is refused where the schema demands a list, an object or a string",
				"a key left without a value loads (yaml.v3 decodes null into the zero value) while the published schemas type every such key array / object / string and refuse null: a file that loads does not validate in an editor")
		}
		r.Check(stops, "cfgschema/strict-shape-type-directed", shape.Name()+" stops at free-form values", shape.Pos(), "the walk returns when the target type is an interface",
			"the shape check walks the whole document whatever it is decoded into: a default, a constant or a hint (type any, `true` in the published schemas) holding `[~, 80]` is refused with `empty list entry` — a file that validates in an editor does not load")
	}
	// (b) who decodes configuration: every yaml decoder of cog is built inside the helper, and the loaders pass it a
	// pointer to a struct (a pointer to a pointer is reset to nil by a null document)
	calls := 0
	ctx.AllFuncDecls(func(p *packages.Package, fd *ast.FuncDecl, obj *types.Func) {
		if fd.Body == nil {
			return
		}
		info := p.TypesInfo
		ast.Inspect(fd.Body, func(n ast.Node) bool {
			c, ok := n.(*ast.CallExpr)
			if !ok {
				return true
			}
			fn := callee(info, c)
			if fn == nil {
				return true
			}
			if funcIs(fn, yamlPkgPath, "NewDecoder") && obj != helper {
				r.Bad("cfgschema/strict-helper", ctx.FuncName(obj)+" builds its own yaml decoder", c.Pos(), "a configuration loader decodes with its own yaml.Decoder instead of DecodeStrict: KnownFields(true) alone lets null keys, null list entries and additional documents through")
			}
			if fn == helper && len(c.Args) == 2 {
				calls++
				t := hinfo.TypeOf(c.Args[1])
				if t == nil {
					t = info.TypeOf(c.Args[1])
				}
				single := false
				if pt, ok := types.Unalias(t).(*types.Pointer); ok {
					if _, again := types.Unalias(pt.Elem()).(*types.Pointer); !again {
						single = true
					}
				}
				r.Check(single, "cfgschema/strict-helper", ctx.FuncName(obj)+" decodes into a pointer to a struct", c.Pos(), "the target is a pointer to the configuration struct",
					"the target given to DecodeStrict is not a plain pointer to a struct ("+exprString(c.Args[1])+"): through a pointer to a pointer a null document resets the pointer to nil and the loader dereferences it")
			}
			return true
		})
	})
	r.Count("loaders decoding through DecodeStrict", calls)
	r.Floor("loaders decoding through DecodeStrict", 3)
}

// ---------------------------------------------------------------------------
// yaml key model

type yamlKey struct {
	name   string
	field  *types.Var
	inline bool
}

// yamlKeys lists the keys yaml.v3 accepts for struct st (inline flattened).
func yamlKeys(st *types.Struct) (keys []yamlKey, inlineMaps bool) {
	for i := 0; i < st.NumFields(); i++ {
		f := st.Field(i)
		if !f.Exported() {
			continue
		}
		tag := reflect.StructTag(st.Tag(i)).Get("yaml")
		if tag == "" && !strings.Contains(st.Tag(i), ":") {
			tag = st.Tag(i)
		}
		if tag == "-" {
			continue
		}
		parts := strings.Split(tag, ",")
		name := parts[0]
		inline := false
		for _, fl := range parts[1:] {
			if fl == "inline" {
				inline = true
			}
		}
		if inline {
			t := f.Type()
			if pt, ok := t.Underlying().(*types.Pointer); ok {
				t = pt.Elem()
			}
			switch u := t.Underlying().(type) {
			case *types.Struct:
				sub, im := yamlKeys(u)
				keys = append(keys, sub...)
				inlineMaps = inlineMaps || im
			case *types.Map:
				inlineMaps = true
			}
			continue
		}
		if name == "" {
			name = strings.ToLower(f.Name())
		}
		keys = append(keys, yamlKey{name: name, field: f})
	}
	return keys, inlineMaps
}

func normName(s string) string {
	var b strings.Builder
	for _, c := range strings.ToLower(s) {
		if (c >= 'a' && c <= 'z') || (c >= '0' && c <= '9') {
			b.WriteRune(c)
		}
	}
	return b.String()
}

func defNameOf(nt *types.Named) string {
	path := nt.Obj().Pkg().Path()
	parts := strings.Split(path, "/")
	return normName(parts[len(parts)-1] + nt.Obj().Name())
}

// ---------------------------------------------------------------------------
// (2) unions

func c20Unions(ctx *Ctx, r *Report) {
	cfgPkgs := map[string]bool{modulePath + "/internal/yaml": true, modulePath + "/internal/codegen": true}
	dispatched := map[*types.Named]bool{}
	for _, p := range ctx.Pkgs {
		if !cfgPkgs[p.PkgPath] {
			continue
		}
		info := p.TypesInfo
		for _, f := range p.Syntax {
			for _, d := range f.Decls {
				fd, ok := d.(*ast.FuncDecl)
				if !ok || fd.Body == nil {
					continue
				}
				fobj, _ := info.Defs[fd.Name].(*types.Func)
				name := ctx.FuncName(fobj)
				// gather returning non-nil tests: base object -> fields
				type test struct {
					field *types.Var
					pos   token.Pos
				}
				tests := map[types.Object][]test{}
				baseType := map[types.Object]*types.Named{}
				switchForm := map[types.Object]*ast.SwitchStmt{}
				record := func(cond ast.Expr, sw *ast.SwitchStmt) {
					be, ok := ast.Unparen(cond).(*ast.BinaryExpr)
					if !ok || be.Op != token.NEQ || !isNilIdent(info, be.Y) {
						return
					}
					fv := fieldOf(info, be.X)
					if fv == nil {
						return
					}
					sel := ast.Unparen(be.X).(*ast.SelectorExpr)
					id, ok := ast.Unparen(sel.X).(*ast.Ident)
					if !ok {
						return
					}
					base := objOf(info, id)
					nt := namedOf(info.TypeOf(sel.X))
					if base == nil || nt == nil {
						return
					}
					if _, isStruct := nt.Underlying().(*types.Struct); !isStruct {
						return
					}
					if _, isPtr := fv.Type().Underlying().(*types.Pointer); !isPtr {
						return
					}
					tests[base] = append(tests[base], test{fv, cond.Pos()})
					baseType[base] = nt
					if sw != nil {
						switchForm[base] = sw
					}
				}
				ast.Inspect(fd.Body, func(n ast.Node) bool {
					switch x := n.(type) {
					case *ast.IfStmt:
						if x.Init == nil && len(x.Body.List) > 0 {
							if _, isRet := x.Body.List[len(x.Body.List)-1].(*ast.ReturnStmt); isRet {
								record(x.Cond, nil)
							}
						}
					case *ast.SwitchStmt:
						if x.Tag == nil {
							for _, cc := range x.Body.List {
								for _, e := range cc.(*ast.CaseClause).List {
									record(e, x)
								}
							}
						}
					}
					return true
				})
				for base, ts := range tests {
					if len(ts) < 2 {
						continue
					}
					nt := baseType[base]
					st := nt.Underlying().(*types.Struct)
					r.Count("union dispatches", 1)
					dispatched[nt.Origin()] = true
					tested := map[*types.Var]bool{}
					for _, t := range ts {
						tested[t.field] = true
					}
					keys, _ := yamlKeys(st)
					members := 0
					for _, k := range keys {
						if _, isPtr := k.field.Type().Underlying().(*types.Pointer); !isPtr {
							continue
						}
						members++
						cons := fmt.Sprintf("%s member %s.%s", name, nt.Obj().Name(), k.field.Name())
						r.Check(tested[k.field], "cfgschema/union-member", cons, fd.Pos(),
							"member is dispatched", fmt.Sprintf("union member %s (yaml key %q) is accepted by the decoder but never tested by %s: a rule using it is silently ignored or rejected as empty", k.field.Name(), k.name, name))
					}
					r.Count("union members", members)
					// fall-through
					okFall, why := false, ""
					if sw := switchForm[base]; sw != nil {
						for _, cc := range sw.Body.List {
							cl := cc.(*ast.CaseClause)
							if cl.List == nil && len(cl.Body) > 0 {
								if rs, ok := cl.Body[len(cl.Body)-1].(*ast.ReturnStmt); ok {
									okFall, why = returnsNonNilError(info, rs)
								}
							}
						}
						if !okFall && why == "" {
							// fall back to the function's final return
							okFall, why = finalReturnIsError(info, fd)
						}
					} else {
						okFall, why = finalReturnIsError(info, fd)
					}
					r.Check(okFall, "cfgschema/union-empty", name+" fall-through", fd.Pos(),
						"an entry with no recognised member reaches a non-nil error", "the fall-through of the dispatch does not return a non-nil error ("+why+"): an empty/unrecognised entry is accepted silently")
				}
			}
		}
	}
	r.Floor("union dispatches", 6)
	r.Floor("union members", 50)
}

func returnsNonNilError(info *types.Info, rs *ast.ReturnStmt) (bool, string) {
	if len(rs.Results) == 0 {
		return false, "bare return"
	}
	last := rs.Results[len(rs.Results)-1]
	t := info.TypeOf(last)
	if isNilIdent(info, last) {
		return false, "returns a nil error"
	}
	errT := types.Universe.Lookup("error").Type()
	if t == nil || !types.AssignableTo(t, errT) {
		return false, "last result is not an error"
	}
	if call, ok := ast.Unparen(last).(*ast.CallExpr); ok {
		fn := callee(info, call)
		if fn != nil && fn.Pkg() != nil && (fn.Pkg().Path() == "fmt" && fn.Name() == "Errorf" || fn.Pkg().Path() == "errors" && fn.Name() == "New") {
			return true, ""
		}
		return false, "error produced by " + exprString(call.Fun) + " may be nil"
	}
	if id, ok := ast.Unparen(last).(*ast.Ident); ok {
		if v, ok := objOf(info, id).(*types.Var); ok && v.Parent() == v.Pkg().Scope() {
			return true, "" // package-level sentinel error
		}
	}
	return false, "error value not provably non-nil"
}

func finalReturnIsError(info *types.Info, fd *ast.FuncDecl) (bool, string) {
	if len(fd.Body.List) == 0 {
		return false, "empty body"
	}
	rs, ok := fd.Body.List[len(fd.Body.List)-1].(*ast.ReturnStmt)
	if !ok {
		return false, "function does not end in a return"
	}
	return returnsNonNilError(info, rs)
}

// ---------------------------------------------------------------------------
// (3) schema agreement

type jsonDefs map[string]map[string]any

func c20SchemaAgreement(ctx *Ctx, r *Report) {
	roots := []struct {
		file, pkg, typ string
	}{
		{"schemas/pipeline.json", "internal/codegen", "Pipeline"},
		{"schemas/compiler_passes.json", "internal/yaml", "Compiler"},
		{"schemas/veneers.json", "internal/yaml", "Veneers"},
	}
	// anchor check: the schema generator still reflects exactly these roots
	if gen := ctx.Pkg("cmd/cog-config-schemas"); gen != nil {
		found := map[string]bool{}
		for _, f := range gen.Syntax {
			ast.Inspect(f, func(n ast.Node) bool {
				if lit, ok := n.(*ast.CompositeLit); ok {
					if nt := namedOf(gen.TypesInfo.TypeOf(lit)); nt != nil && nt.Obj().Pkg() != nil {
						found[ctx.RelPkg(nt.Obj().Pkg().Path())+"."+nt.Obj().Name()] = true
					}
				}
				return true
			})
		}
		for _, rt := range roots {
			if !found[rt.pkg+"."+rt.typ] {
				r.Undecided("anchor lost: cmd/cog-config-schemas no longer reflects %s.%s", rt.pkg, rt.typ)
			}
		}
	}
	for _, rt := range roots {
		data, err := os.ReadFile(filepath.Join(ctx.Repo, rt.file))
		if err != nil {
			r.Undecided("cannot read %s: %v", rt.file, err)
			continue
		}
		var doc map[string]any
		if err := json.Unmarshal(data, &doc); err != nil {
			r.Bad("cfgschema/agreement", rt.file, token.NoPos, "published schema is not valid JSON: "+err.Error())
			continue
		}
		rawDefs, _ := doc["$defs"].(map[string]any)
		defs := jsonDefs{}
		origName := map[string]string{}
		for k, v := range rawDefs {
			if m, ok := v.(map[string]any); ok {
				defs[normName(k)] = m
				origName[normName(k)] = k
			}
		}
		root := ctx.LookupType(rt.pkg, rt.typ)
		if root == nil {
			r.Undecided("anchor lost: %s.%s", rt.pkg, rt.typ)
			continue
		}
		ref, _ := doc["$ref"].(string)
		if normName(strings.TrimPrefix(ref, "#/$defs/")) != defNameOf(root) {
			r.Bad("cfgschema/agreement", rt.file+" $ref", token.NoPos, fmt.Sprintf("root $ref %q does not designate %s", ref, root.Obj().Name()))
		}
		w := &schemaWalker{ctx: ctx, r: r, file: rt.file, defs: defs, orig: origName, seen: map[string]bool{}}
		w.walkNamed(root, rt.typ)
		r.Count("struct definitions compared", w.structs)
		r.Count("key paths compared", w.keys)
		var unreached []string
		for k := range defs {
			if !w.seen[k] {
				unreached = append(unreached, origName[k])
			}
		}
		sort.Strings(unreached)
		if len(unreached) > 0 {
			r.Note("%s: definitions not reached from the Go root (harmless for acceptance): %v", rt.file, unreached)
		}
	}
	r.Floor("struct definitions compared", 90)
	r.Floor("key paths compared", 250)
}

type schemaWalker struct {
	ctx     *Ctx
	r       *Report
	file    string
	defs    jsonDefs
	orig    map[string]string
	seen    map[string]bool
	structs int
	keys    int
}

func (w *schemaWalker) resolve(s map[string]any) map[string]any {
	for i := 0; i < 10; i++ {
		ref, ok := s["$ref"].(string)
		if !ok {
			return s
		}
		d := w.defs[normName(strings.TrimPrefix(ref, "#/$defs/"))]
		if d == nil {
			return nil
		}
		s = d
	}
	return s
}

func (w *schemaWalker) walkNamed(nt *types.Named, path string) {
	key := defNameOf(nt)
	if w.seen[key] {
		return
	}
	w.seen[key] = true
	cons := w.file + " " + nt.Obj().Name()
	def := w.defs[key]
	if hasMethod(nt, "UnmarshalYAML") {
		w.r.Bad("cfgschema/strict", cons+" UnmarshalYAML", nt.Obj().Pos(), "configuration type has a custom UnmarshalYAML: strict key checking and the published schema no longer describe what is accepted below it")
	}
	st, isStruct := nt.Underlying().(*types.Struct)
	if def == nil {
		w.r.Bad("cfgschema/agreement", cons, nt.Obj().Pos(), fmt.Sprintf("type %s is decoded by the loader but has no definition in %s", nt.Obj().Name(), w.file))
		return
	}
	if !isStruct {
		w.compareType(nt.Underlying(), def, path, cons, nt.Obj().Pos(), true)
		return
	}
	w.structs++
	keys, inlineMaps := yamlKeys(st)
	props, _ := def["properties"].(map[string]any)
	goKeys := map[string]yamlKey{}
	for _, k := range keys {
		goKeys[k.name] = k
	}
	allOK := true
	for _, k := range keys {
		w.keys++
		p, ok := props[k.name]
		if !ok {
			allOK = false
			w.r.Bad("cfgschema/agreement", cons+"."+k.name, k.field.Pos(), fmt.Sprintf("key %q (field %s) is accepted by the loader but missing from %s: a valid file is flagged by editors / schema validation", k.name, k.field.Name(), w.file))
			continue
		}
		pm, _ := p.(map[string]any)
		if pm == nil {
			if b, isBool := p.(bool); isBool && b {
				pm = map[string]any{}
			}
		}
		w.compareType(k.field.Type(), pm, path+"."+k.name, cons+"."+k.name, k.field.Pos(), false)
	}
	var extra []string
	for name := range props {
		if _, ok := goKeys[name]; !ok {
			extra = append(extra, name)
		}
	}
	sort.Strings(extra)
	for _, name := range extra {
		allOK = false
		w.r.Bad("cfgschema/agreement", cons+"."+name, nt.Obj().Pos(), fmt.Sprintf("key %q is allowed by %s but rejected by the strict loader (no such field in %s): a file that validates does not load", name, w.file, nt.Obj().Name()))
	}
	ap, hasAP := def["additionalProperties"]
	closed := hasAP && ap == false
	if inlineMaps {
		closed = !closed
	}
	if !closed {
		allOK = false
		w.r.Bad("cfgschema/agreement", cons+" additionalProperties", nt.Obj().Pos(), "schema definition is open (additionalProperties not false) while the loader rejects unknown keys")
	}
	if allOK {
		w.r.OK("cfgschema/agreement", cons, nt.Obj().Pos(), fmt.Sprintf("%d keys agree, definition closed", len(keys)))
	}
}

func hasMethod(nt *types.Named, name string) bool {
	ms := types.NewMethodSet(types.NewPointer(nt))
	for i := 0; i < ms.Len(); i++ {
		if ms.At(i).Obj().Name() == name {
			return true
		}
	}
	return false
}

func jsonClass(s map[string]any) string {
	if s == nil {
		return "missing"
	}
	if t, ok := s["type"].(string); ok {
		return t
	}
	if _, ok := s["properties"]; ok {
		return "object"
	}
	if len(s) == 0 {
		return "any"
	}
	for k := range s {
		if k != "description" && k != "title" {
			return "?" + k
		}
	}
	return "any"
}

func (w *schemaWalker) compareType(t types.Type, s map[string]any, path, cons string, pos token.Pos, isDef bool) {
	if s == nil {
		w.r.Bad("cfgschema/type", cons, pos, "schema fragment missing or not an object")
		return
	}
	if pt, ok := t.Underlying().(*types.Pointer); ok {
		if _, named := t.(*types.Named); !named {
			t = pt.Elem()
		}
	}
	// named types: invopop emits a $ref to their definition (structs and named collections)
	if nt, ok := t.(*types.Named); ok && !isDef && nt.Obj().Pkg() != nil {
		switch nt.Underlying().(type) {
		case *types.Struct, *types.Slice, *types.Map:
			ref, _ := s["$ref"].(string)
			if ref == "" {
				w.r.Bad("cfgschema/type", cons, pos, fmt.Sprintf("%s: loader expects %s but the schema has an inline %s", path, nt.Obj().Name(), jsonClass(s)))
				return
			}
			if normName(strings.TrimPrefix(ref, "#/$defs/")) != defNameOf(nt) {
				w.r.Bad("cfgschema/type", cons, pos, fmt.Sprintf("%s: loader expects %s but the schema references %s", path, nt.Obj().Name(), ref))
				return
			}
			w.walkNamed(nt, path)
			return
		}
	}
	s = w.resolve(s)
	got := jsonClass(s)
	want := ""
	switch u := t.Underlying().(type) {
	case *types.Basic:
		switch {
		case u.Info()&types.IsString != 0:
			want = "string"
		case u.Info()&types.IsBoolean != 0:
			want = "boolean"
		case u.Info()&types.IsInteger != 0:
			want = "integer"
		case u.Info()&types.IsFloat != 0:
			want = "number"
		}
	case *types.Slice:
		want = "array"
		if b, ok := u.Elem().Underlying().(*types.Basic); ok && b.Kind() == types.Byte {
			want = "string"
		}
	case *types.Array:
		want = "array"
	case *types.Map:
		want = "object"
	case *types.Struct:
		want = "object"
	case *types.Interface:
		want = "any"
	}
	if want == "" {
		w.r.Note("%s: Go type %s not classified", path, t)
		return
	}
	if want == "any" {
		// `any` leaf: schema must not constrain it to a scalar class
		if got == "any" || got == "object" && s["properties"] == nil {
			return
		}
		w.r.Bad("cfgschema/type", cons, pos, fmt.Sprintf("%s: loader accepts any value, schema restricts it to %s", path, got))
		return
	}
	if got != want {
		w.r.Bad("cfgschema/type", cons, pos, fmt.Sprintf("%s: loader decodes a %s (%s), schema says %s", path, want, t, got))
		return
	}
	switch u := t.Underlying().(type) {
	case *types.Slice:
		if want == "array" {
			items, _ := s["items"].(map[string]any)
			if items == nil {
				if b, ok := s["items"].(bool); ok && b {
					items = map[string]any{}
				}
			}
			if items != nil {
				w.compareType(u.Elem(), items, path+"[]", cons, pos, false)
			}
		}
	case *types.Map:
		ap, _ := s["additionalProperties"].(map[string]any)
		if ap != nil {
			w.compareType(u.Elem(), ap, path+"{}", cons, pos, false)
		}
	}
}

var _ = packages.NeedName

// c20ErrorDiscipline: inside the configuration packages, the error returned by
// a converter/loader (any cog function whose last result is `error`) must be
// returned directly or bound to a variable that the very next statement (or the
// same if-statement) tests with `!= nil` and answers with a return of a non-nil
// error. An error that is merely remembered (break/continue, later overwritten)
// lets a rejected rule or file load silently.
func c20ErrorDiscipline(ctx *Ctx, r *Report) {
	cfgPkgs := map[string]bool{modulePath + "/internal/yaml": true, modulePath + "/internal/codegen": true}
	errT := types.Universe.Lookup("error").Type()
	returnsErr := func(fn *types.Func) bool {
		if fn == nil || fn.Pkg() == nil || !strings.HasPrefix(fn.Pkg().Path(), modulePath) {
			return false
		}
		sig := fn.Type().(*types.Signature)
		n := sig.Results().Len()
		return n > 0 && types.Identical(sig.Results().At(n-1).Type(), errT)
	}
	for _, p := range ctx.Pkgs {
		if !cfgPkgs[p.PkgPath] {
			continue
		}
		info := p.TypesInfo
		for _, f := range p.Syntax {
			for _, d := range f.Decls {
				fd, ok := d.(*ast.FuncDecl)
				if !ok || fd.Body == nil {
					continue
				}
				fobj, _ := info.Defs[fd.Name].(*types.Func)
				name := ctx.FuncName(fobj)
				parents := parentMap(fd)
				seen := map[string]int{}
				ast.Inspect(fd.Body, func(n ast.Node) bool {
					call, ok := n.(*ast.CallExpr)
					if !ok {
						return true
					}
					fn := callee(info, call)
					if !returnsErr(fn) {
						return true
					}
					r.Count("config error-returning call sites", 1)
					cons := name + " calls " + ctx.FuncName(fn)
					seen[cons]++
					if seen[cons] > 1 {
						cons = fmt.Sprintf("%s #%d", cons, seen[cons])
					}
					ok2, why := errorHandled(info, parents, call)
					if reason, exempt := c20ErrorExemptions[cons]; exempt && !ok2 {
						// the exemption is only valid while the re-check it relies on exists and is itself checked
						re := ctx.LookupMethod("internal/codegen", "Input", "LoadSchemas")
						reFd, rep := ctx.DeclOf(re)
						loader := ctx.LookupMethod("internal/codegen", "Input", "loader")
						rechecked := false
						if reFd != nil && loader != nil {
							rparents := parentMap(reFd)
							ast.Inspect(reFd.Body, func(m ast.Node) bool {
								if c, ok := m.(*ast.CallExpr); ok && callee(rep.TypesInfo, c) == loader {
									if h, _ := errorHandled(rep.TypesInfo, rparents, c); h {
										rechecked = true
									}
								}
								return true
							})
						}
						if rechecked {
							r.OK("cfgschema/error-checked", cons, call.Pos(), "exempt: "+reason)
							return true
						}
					}
					r.Check(ok2, "cfgschema/error-checked", cons, call.Pos(), "error is returned or checked immediately", "the error of "+ctx.FuncName(fn)+" "+why+": a rejected entry can load silently")
					return true
				})
			}
		}
	}
	r.Floor("config error-returning call sites", 40)
}

// One reasoned exemption per construct.
var c20ErrorExemptions = map[string]string{
	"internal/codegen.Pipeline.interpolateParameters calls internal/codegen.Input.InterpolateParameters": "the only error is Input.loader()'s 'empty input'; Input.LoadSchemas evaluates the same dispatch again and returns its error before any schema is loaded (re-verified on every run)",
}

func errorHandled(info *types.Info, parents map[ast.Node]ast.Node, call *ast.CallExpr) (bool, string) {
	switch p := parents[call].(type) {
	case *ast.ReturnStmt:
		return true, ""
	case *ast.AssignStmt:
		if len(p.Rhs) != 1 || len(p.Lhs) == 0 {
			return false, "is bound in a multi-value assignment"
		}
		errID, _ := p.Lhs[len(p.Lhs)-1].(*ast.Ident)
		if errID == nil || errID.Name == "_" {
			return false, "is discarded"
		}
		errObj := objOf(info, errID)
		var check *ast.IfStmt
		switch gp := parents[p].(type) {
		case *ast.IfStmt:
			if gp.Init == p {
				check = gp
			}
		case *ast.BlockStmt:
			for i, st := range gp.List {
				if st == p && i+1 < len(gp.List) {
					check, _ = gp.List[i+1].(*ast.IfStmt)
				}
			}
		case *ast.CaseClause:
			for i, st := range gp.Body {
				if st == p && i+1 < len(gp.Body) {
					check, _ = gp.Body[i+1].(*ast.IfStmt)
				}
			}
		}
		if check == nil {
			return false, "is not tested by the next statement"
		}
		be, ok := ast.Unparen(check.Cond).(*ast.BinaryExpr)
		if !ok || be.Op != token.NEQ || !isIdentOf(info, be.X, errObj) || !isNilIdent(info, be.Y) {
			return false, "is not tested with `!= nil` by the next statement"
		}
		if len(check.Body.List) == 0 {
			return false, "is tested but ignored"
		}
		rs, ok := check.Body.List[len(check.Body.List)-1].(*ast.ReturnStmt)
		if !ok {
			return false, "is tested, but the branch does not return (break/continue/fallthrough): the error can be overwritten or forgotten before it is reported"
		}
		if len(rs.Results) == 0 {
			return true, "" // named results: err is the result variable
		}
		last := rs.Results[len(rs.Results)-1]
		if isNilIdent(info, last) {
			return false, "is tested, but the branch returns a nil error"
		}
		return true, ""
	case *ast.ExprStmt:
		return false, "is dropped (call used as a statement)"
	case *ast.CallExpr, *ast.KeyValueExpr, *ast.CompositeLit:
		return false, "is not bound to a variable"
	}
	return false, "is not checked in a recognised way"
}

// c20DispatchReached: every entry of a decoded list of rules / passes reaches its 'exactly-one-of' dispatch (the As…
// method of the entry's type): the loaders' loops call it on the loop variable on every iteration — not under a condition,
// not after a statement that may skip the entry. An entry that is skipped is an entry that is never rejected.
func c20DispatchReached(ctx *Ctx, r *Report) {
	p := ctx.Pkg("internal/yaml")
	if p == nil {
		r.Undecided("anchor lost: internal/yaml")
		return
	}
	info := p.TypesInfo
	n := 0
	for _, file := range p.Syntax {
		for _, d := range file.Decls {
			fd, ok := d.(*ast.FuncDecl)
			if !ok || fd.Body == nil {
				continue
			}
			fobj, _ := info.Defs[fd.Name].(*types.Func)
			parents := parentMap(fd)
			ast.Inspect(fd.Body, func(m ast.Node) bool {
				rs, ok := m.(*ast.RangeStmt)
				if !ok {
					return true
				}
				v, ok := rs.Value.(*ast.Ident)
				if !ok {
					return true
				}
				nt := namedOf(info.TypeOf(v))
				if nt == nil || nt.Obj().Pkg() != p.Types {
					return true
				}
				// the entry type has a dispatch method
				var disp []*types.Func
				for i := 0; i < nt.NumMethods(); i++ {
					if mth := nt.Method(i); strings.HasPrefix(mth.Name(), "As") {
						disp = append(disp, mth)
					}
				}
				if len(disp) == 0 {
					return true
				}
				n++
				vo := info.Defs[v]
				why := "the loop never calls the entry's dispatch method"
				ast.Inspect(rs.Body, func(q ast.Node) bool {
					c, ok := q.(*ast.CallExpr)
					if !ok {
						return true
					}
					sel, ok := c.Fun.(*ast.SelectorExpr)
					if !ok {
						return true
					}
					if id, ok := ast.Unparen(sel.X).(*ast.Ident); !ok || objOf(info, id) != vo {
						return true
					}
					fn := callee(info, c)
					isDisp := false
					for _, dm := range disp {
						if fn == dm {
							isDisp = true
						}
					}
					if !isDisp {
						return true
					}
					// conditions inside the loop body only
					why = ""
					var child ast.Node = c
					for a := parents[c]; a != nil && a != ast.Node(rs); child, a = a, parents[a] {
						switch x := a.(type) {
						case *ast.IfStmt:
							if child != ast.Node(x.Init) && child != ast.Node(x.Cond) {
								why = "the dispatch is called under `if " + exprString(x.Cond) + "`"
							}
						case *ast.CaseClause:
							why = "the dispatch is called in a case of a switch"
						case *ast.BlockStmt:
							for _, st := range x.List {
								if st.Pos() >= child.Pos() {
									break
								}
								if is, ok := st.(*ast.IfStmt); ok {
									ast.Inspect(is, func(z ast.Node) bool {
										if b, ok := z.(*ast.BranchStmt); ok && (b.Tok == token.CONTINUE || b.Tok == token.BREAK) {
											why = "`if " + exprString(is.Cond) + "` may skip the entry before its dispatch"
										}
										return true
									})
								}
							}
						}
					}
					return true
				})
				r.Check(why == "", "cfgschema/dispatch-reached", fmt.Sprintf("%s loop over %s", ctx.FuncName(fobj), exprString(rs.X)), rs.Pos(), "every entry is handed to its dispatch",
					fmt.Sprintf("%s: %s — an entry that is skipped is never rejected: an empty or unrecognised entry at that position loads without error", ctx.FuncName(fobj), why))
				return true
			})
		}
	}
	r.Count("loader loops over lists of rule / pass entries", n)
	r.Floor("loader loops over lists of rule / pass entries", 3)
}

// c20UnionsNonEmptyInSchemas: the loaders refuse a union value with no member set (a rule entry without action, a
// selector without criterion: the fall-through of their dispatch returns an error, checked by cfgschema/union-*). The
// published schemas are a reflection of the structs and say nothing of it unless the generator adds it: for every
// union struct of internal/yaml — all exported members are pointers, and the type has an As… decoding method — the
// definition of the same name in schemas/*.json carries minProperties >= 1 (or required members through anyOf).
func c20UnionsNonEmptyInSchemas(ctx *Ctx, r *Report) {
	p := ctx.Pkg("internal/yaml")
	if p == nil {
		r.Undecided("package internal/yaml not found")
		return
	}
	var unions []*types.Named
	for _, name := range p.Types.Scope().Names() {
		tn, ok := p.Types.Scope().Lookup(name).(*types.TypeName)
		if !ok {
			continue
		}
		nt, ok := tn.Type().(*types.Named)
		if !ok {
			continue
		}
		st, ok := nt.Underlying().(*types.Struct)
		if !ok || st.NumFields() < 2 {
			continue
		}
		allPtr := true
		for i := 0; i < st.NumFields(); i++ {
			if _, ok := st.Field(i).Type().Underlying().(*types.Pointer); !ok || !st.Field(i).Exported() {
				allPtr = false
			}
		}
		if !allPtr {
			continue
		}
		decodes := false
		for i := 0; i < nt.NumMethods(); i++ {
			if strings.HasPrefix(nt.Method(i).Name(), "As") {
				decodes = true
			}
		}
		if decodes {
			unions = append(unions, nt)
		}
	}
	defs := map[string]map[string]any{}
	for _, file := range []string{"schemas/compiler_passes.json", "schemas/veneers.json", "schemas/pipeline.json"} {
		data, err := os.ReadFile(filepath.Join(ctx.Repo, file))
		if err != nil {
			r.Undecided("cannot read %s: %v", file, err)
			return
		}
		var doc map[string]any
		if err := json.Unmarshal(data, &doc); err != nil {
			continue
		}
		raw, _ := doc["$defs"].(map[string]any)
		for k, v := range raw {
			if m, ok := v.(map[string]any); ok {
				defs[normName(k)] = m
			}
		}
	}
	n := 0
	for _, nt := range unions {
		def, ok := defs[defNameOf(nt)]
		if !ok {
			continue
		}
		n++
		min, _ := def["minProperties"].(float64)
		_, anyOf := def["anyOf"]
		_, oneOf := def["oneOf"]
		r.Check(min >= 1 || anyOf || oneOf, "cfgschema/union-nonempty-in-schema", "schemas define "+nt.Obj().Name()+" as a non-empty union", nt.Obj().Pos(), "the definition demands at least one member",
			"the loader refuses a "+nt.Obj().Name()+" with no member set (an entry `{}`), the published schema accepts it (no minProperties / anyOf on the definition): a file that validates in an editor does not load")
	}
	r.Count("union definitions of the configuration schemas", n)
	r.Floor("union definitions of the configuration schemas", 4)
}

// c20ThirdHunt:
//   - the shape check of the strict decoder follows what the decoder follows: an alias is checked as what it stands for,
//     the value of a merge key (`<<`) as keys of the mapping that holds it; a list of free-form values is not looked into;
//   - a field of a configuration struct that the loader can't do without — it is handed as is to
//     ObjectReferenceFromString / FieldReferenceFromString, which refuse the empty string, or validated with
//     ast.Type.Validate, which refuses the zero type — is tagged `jsonschema:"required"`, and the published schema lists
//     it under `required`;
//   - a definition of the published veneers schema that has `by_*` keys (a selector, or a rule that carries its selector
//     inline) demands one of them.
func c20ThirdHunt(ctx *Ctx, r *Report) {
	yp := ctx.Pkg("internal/yaml")
	if yp == nil {
		r.Undecided("anchor lost: internal/yaml")
		return
	}
	info := yp.TypesInfo
	// (a)
	if fn := ctx.LookupFunc("internal/yaml", "checkDocumentShape"); fn == nil {
		r.Undecided("anchor lost: yaml.checkDocumentShape")
	} else if fd, _ := ctx.DeclOf(fn); fd != nil {
		alias, merge, freeForm := false, false, false
		ast.Inspect(fd.Body, func(m ast.Node) bool {
			cc, ok := m.(*ast.CaseClause)
			if !ok {
				return true
			}
			kinds := ""
			for _, e := range cc.List {
				kinds += exprString(e) + " "
			}
			ast.Inspect(cc, func(k ast.Node) bool {
				switch x := k.(type) {
				case *ast.CallExpr:
					if strings.Contains(kinds, "AliasNode") && callee(info, x) == fn && len(x.Args) >= 2 && strings.HasSuffix(exprString(x.Args[0]), ".Alias") {
						alias = true
					}
				case *ast.IfStmt:
					c := exprString(x.Cond)
					if strings.Contains(kinds, "MappingNode") && strings.Contains(c, "!!merge") {
						// the merged mappings are checked against the type of the mapping itself
						ast.Inspect(x.Body, func(q ast.Node) bool {
							if call, ok := q.(*ast.CallExpr); ok && len(call.Args) >= 2 && exprString(call.Args[1]) == "target" {
								merge = true
							}
							return true
						})
					}
					if strings.Contains(kinds, "SequenceNode") && strings.Contains(c, "reflect.Interface") && endsInExit(x.Body) {
						freeForm = true
					}
				}
				return true
			})
			return false
		})
		r.Count("hunted clauses of the strict decoder (3rd hunt)", 3)
		r.Check(alias, "cfgschema/shape-follows-aliases", "yaml.checkDocumentShape checks what an alias stands for", fd.Pos(), "the alias case recurses on node.Alias",
			"checkDocumentShape leaves aliases alone: `- *pass` where `&pass {unspec: {}, ~: injected}` is anchored inside a free-form value loads, with the null key dropped by the decoder")
		r.Check(merge, "cfgschema/shape-follows-aliases", "yaml.checkDocumentShape checks the mappings brought by a merge key", fd.Pos(), "the value of `<<` is checked against the type of the mapping that holds it",
			"checkDocumentShape checks the value of `<<` as the member `<<` of the target type — there is none, so nothing is checked: `passes: [{<<: {unspec: {}, ~: injected}}]` loads")
		r.Check(freeForm, "cfgschema/strict-shape-type-directed", "yaml.checkDocumentShape leaves lists of free-form values alone", fd.Pos(), "a list whose items are `any` is not looked into",
			"checkDocumentShape refuses a null item before it asks what the items are: `args: [~]` (a list of free-form values, `items: true` in the published schema) is refused with `empty list entry`")
	}
	// (b)
	defs := map[string]map[string]any{}
	for _, file := range []string{"schemas/compiler_passes.json", "schemas/veneers.json", "schemas/pipeline.json"} {
		data, err := os.ReadFile(filepath.Join(ctx.Repo, file))
		if err != nil {
			r.Undecided("cannot read %s: %v", file, err)
			return
		}
		var doc map[string]any
		if err := json.Unmarshal(data, &doc); err != nil {
			r.Undecided("cannot parse %s: %v", file, err)
			return
		}
		raw, _ := doc["$defs"].(map[string]any)
		for k, v := range raw {
			if m, ok := v.(map[string]any); ok {
				defs[file+"#"+normName(k)] = m
				defs[normName(k)] = m
			}
		}
	}
	requiredIn := func(def map[string]any, key string) bool {
		list, _ := def["required"].([]any)
		for _, k := range list {
			if k == key {
				return true
			}
		}
		return false
	}
	keyOf := func(f *types.Var, tag string) string {
		name, _, _ := strings.Cut(reflect.StructTag(tag).Get("yaml"), ",")
		if name == "" {
			name = strings.ToLower(f.Name())
		}
		return name
	}
	n := 0
	needed := func(st *types.Struct, nt *types.Named, f *types.Var, why string, pos token.Pos) {
		tag := ""
		for i := 0; i < st.NumFields(); i++ {
			if st.Field(i) == f {
				tag = st.Tag(i)
			}
		}
		n++
		tagged := strings.Contains(reflect.StructTag(tag).Get("jsonschema"), "required")
		cons := fmt.Sprintf("%s.%s is needed by the loader", nt.Obj().Name(), f.Name())
		r.Check(tagged, "cfgschema/loader-required-keys", cons+" (tag)", pos, "the field is tagged jsonschema:\"required\"",
			fmt.Sprintf("%s.%s %s, and the struct does not say so: the schema generated from it accepts a file without `%s`, which the loader refuses", nt.Obj().Name(), f.Name(), why, keyOf(f, tag)))
		if def, ok := defs[defNameOf(nt)]; ok {
			r.Check(requiredIn(def, keyOf(f, tag)), "cfgschema/loader-required-keys", cons+" (published schema)", pos, "the published definition lists the key under `required`",
				fmt.Sprintf("the published definition of %s does not list `%s` under `required` (schemas/*.json were not regenerated?): a file without it validates in an editor and does not load", nt.Obj().Name(), keyOf(f, tag)))
		}
	}
	for _, file := range yp.Syntax {
		for _, d := range file.Decls {
			fd, ok := d.(*ast.FuncDecl)
			if !ok || fd.Body == nil || fd.Recv == nil || len(fd.Recv.List) != 1 || len(fd.Recv.List[0].Names) != 1 {
				continue
			}
			recv := info.Defs[fd.Recv.List[0].Names[0]]
			nt := namedOf(recv.Type())
			if nt == nil {
				continue
			}
			st, ok := nt.Underlying().(*types.Struct)
			if !ok {
				continue
			}
			fieldOfRecv := func(e ast.Expr) *types.Var {
				sel, ok := ast.Unparen(e).(*ast.SelectorExpr)
				if !ok {
					return nil
				}
				if id, ok := ast.Unparen(sel.X).(*ast.Ident); !ok || objOf(info, id) != recv {
					return nil
				}
				return fieldOf(info, sel)
			}
			ast.Inspect(fd.Body, func(m ast.Node) bool {
				switch x := m.(type) {
				case *ast.CallExpr:
					f := callee(info, x)
					if f == nil {
						return true
					}
					if (f.Name() == "ObjectReferenceFromString" || f.Name() == "FieldReferenceFromString") && len(x.Args) == 1 {
						if fv := fieldOfRecv(x.Args[0]); fv != nil {
							needed(st, nt, fv, "is handed to "+f.Name()+", which refuses the empty string", x.Pos())
						}
					}
					if f.Name() == "Validate" {
						if sel, ok := x.Fun.(*ast.SelectorExpr); ok {
							if fv := fieldOfRecv(sel.X); fv != nil && namedName(fv.Type()) == "Type" {
								needed(st, nt, fv, "is validated with ast.Type.Validate, which refuses the zero type", x.Pos())
							}
						}
					}
				}
				return true
			})
		}
	}
	// the package of a veneers file
	if vt := ctx.LookupType("internal/yaml", "Veneers"); vt != nil {
		if st, ok := vt.Underlying().(*types.Struct); ok {
			for i := 0; i < st.NumFields(); i++ {
				if st.Field(i).Name() == "Package" {
					needed(st, vt, st.Field(i), "is refused when empty (`missing 'package' statement`)", st.Field(i).Pos())
				}
			}
		}
	}
	r.Count("configuration keys the loaders can't do without", n)
	r.Floor("configuration keys the loaders can't do without", 14)
	// (c)
	k := 0
	names := make([]string, 0, len(defs))
	for name := range defs {
		if strings.HasPrefix(name, "schemas/veneers.json#") {
			names = append(names, name)
		}
	}
	sort.Strings(names)
	for _, name := range names {
		def := defs[name]
		props, _ := def["properties"].(map[string]any)
		var criteria []string
		for key := range props {
			if strings.HasPrefix(key, "by_") {
				criteria = append(criteria, key)
			}
		}
		if len(criteria) == 0 {
			continue
		}
		k++
		_, anyOf := def["anyOf"]
		min, _ := def["minProperties"].(float64)
		demanded := anyOf || (min >= 1 && len(criteria) == len(props))
		r.Check(demanded, "cfgschema/inline-selector-demanded", "schemas/veneers.json "+strings.TrimPrefix(name, "schemas/veneers.json#")+" demands a criterion", token.NoPos, "anyOf over the by_* keys (or minProperties when every key is a criterion)",
			"the definition "+strings.TrimPrefix(name, "schemas/veneers.json#")+" has by_* keys and demands none of them: `options: [{array_to_append: {}}]` validates, and the loader answers `empty selector`")
	}
	r.Count("definitions of the veneers schema with selector criteria", k)
	r.Floor("definitions of the veneers schema with selector criteria", 10)
}

// c20FourthHunt — fourth hunt:
//   - the criteria of a selector are what its loader tests (`selector.X != nil` in AsSelector), not what is called
//     `by_…`: every definition of the published veneers schema that has those keys lists each of them in its anyOf;
//   - a type names its kind and is described under the key of that kind: for every case of ast.Type.Validate that
//     refuses a nil description, the published AstType has `if kind = K then required [key]`; for every list whose
//     emptiness Validate refuses (enum values, disjunction branches, constraint arguments) the published definition
//     requires the key with minItems >= 1;
//   - the strict decoder leaves unknown keys to yaml.v3, which never looks at a merged value whose key the merging
//     mapping defines too: the shape walk (which visits every mapping node) reports the keys a struct does not declare.
func c20FourthHunt(ctx *Ctx, r *Report) {
	yp := ctx.Pkg("internal/yaml")
	ap := ctx.Pkg("internal/ast")
	if yp == nil || ap == nil {
		r.Undecided("anchor lost: internal/yaml / internal/ast")
		return
	}
	readDefs := func(file string) map[string]map[string]any {
		data, err := os.ReadFile(filepath.Join(ctx.Repo, file))
		if err != nil {
			r.Undecided("cannot read %s: %v", file, err)
			return nil
		}
		var doc map[string]any
		if err := json.Unmarshal(data, &doc); err != nil {
			r.Undecided("cannot parse %s: %v", file, err)
			return nil
		}
		out := map[string]map[string]any{}
		raw, _ := doc["$defs"].(map[string]any)
		for k, v := range raw {
			if m, ok := v.(map[string]any); ok {
				out[k] = m
			}
		}
		return out
	}
	yamlKeyOf := func(st *types.Struct, f *types.Var) string {
		for i := 0; i < st.NumFields(); i++ {
			if st.Field(i) == f {
				name, _, _ := strings.Cut(reflect.StructTag(st.Tag(i)).Get("yaml"), ",")
				if name == "" {
					name = strings.ToLower(f.Name())
				}
				return name
			}
		}
		return ""
	}
	n := 0
	// (a)
	veneers := readDefs("schemas/veneers.json")
	if veneers != nil {
		info := yp.TypesInfo
		selectors := 0
		for _, file := range yp.Syntax {
			for _, d := range file.Decls {
				fd, ok := d.(*ast.FuncDecl)
				if !ok || fd.Recv == nil || fd.Name.Name != "AsSelector" || fd.Body == nil {
					continue
				}
				recv := info.Defs[fd.Recv.List[0].Names[0]]
				nt := namedOf(recv.Type())
				if nt == nil {
					continue
				}
				st, ok := nt.Underlying().(*types.Struct)
				if !ok {
					continue
				}
				var criteria []string
				ast.Inspect(fd.Body, func(m ast.Node) bool {
					is, ok := m.(*ast.IfStmt)
					if !ok {
						return true
					}
					be, ok := ast.Unparen(is.Cond).(*ast.BinaryExpr)
					if !ok || be.Op != token.NEQ || !isNilIdent(info, be.Y) {
						return true
					}
					sel, ok := ast.Unparen(be.X).(*ast.SelectorExpr)
					if !ok || !isIdentOf(info, sel.X, recv) {
						return true
					}
					if f := fieldOf(info, sel); f != nil {
						if key := yamlKeyOf(st, f); key != "" {
							criteria = append(criteria, key)
						}
					}
					return true
				})
				if len(criteria) == 0 {
					continue
				}
				selectors++
				sort.Strings(criteria)
				names := make([]string, 0, len(veneers))
				for name := range veneers {
					names = append(names, name)
				}
				sort.Strings(names)
				for _, name := range names {
					def := veneers[name]
					props, _ := def["properties"].(map[string]any)
					all := true
					for _, c := range criteria {
						if _, ok := props[c]; !ok {
							all = false
						}
					}
					if !all {
						continue
					}
					listed := map[string]bool{}
					anyOf, _ := def["anyOf"].([]any)
					for _, alt := range anyOf {
						if m, ok := alt.(map[string]any); ok {
							req, _ := m["required"].([]any)
							for _, k := range req {
								if s, ok := k.(string); ok {
									listed[s] = true
								}
							}
						}
					}
					var missing []string
					for _, c := range criteria {
						if !listed[c] {
							missing = append(missing, c)
						}
					}
					if min, _ := def["minProperties"].(float64); min >= 1 && len(props) == len(criteria) && len(anyOf) == 0 {
						missing = nil // every key is a criterion and one is demanded
					}
					n++
					r.Check(len(missing) == 0, "cfgschema/selector-criteria-complete", "schemas/veneers.json "+name+" lists the criteria of "+nt.Obj().Name(), fd.Pos(), "every key "+nt.Obj().Name()+".AsSelector tests is one of the alternatives",
						fmt.Sprintf("%s.AsSelector accepts a selector made of %v alone, and the published definition %s does not count %v among its alternatives: `builders: [{omit: {generated_from_disjunction: true}}]` loads and does not validate", nt.Obj().Name(), criteria, name, missing))
				}
			}
		}
		if selectors == 0 {
			r.Undecided("anchor changed: no AsSelector method tests its fields against nil")
		}
	}
	// (b)
	validate := ctx.LookupMethod("internal/ast", "Type", "Validate")
	vfd, _ := ctx.DeclOf(validate)
	typeT := ctx.LookupType("internal/ast", "Type")
	if vfd == nil || typeT == nil {
		r.Undecided("anchor lost: ast.Type.Validate")
	} else {
		info := ap.TypesInfo
		tst, _ := typeT.Underlying().(*types.Struct)
		type demand struct{ kind, key string }
		var demands []demand
		type listDemand struct {
			owner *types.Named
			key   string
		}
		var lists []listDemand
		ast.Inspect(vfd.Body, func(m ast.Node) bool {
			cc, ok := m.(*ast.CaseClause)
			if !ok {
				return true
			}
			var kinds []string
			for _, e := range cc.List {
				if tv, ok := info.Types[e]; ok && tv.Value != nil {
					kinds = append(kinds, strings.Trim(tv.Value.ExactString(), `"`))
				}
			}
			for _, st := range cc.Body {
				ast.Inspect(st, func(k ast.Node) bool {
					is, ok := k.(*ast.IfStmt)
					if !ok || !endsInExit(is.Body) {
						return true
					}
					be, ok := ast.Unparen(is.Cond).(*ast.BinaryExpr)
					if !ok || be.Op != token.EQL {
						return true
					}
					// t.X == nil
					if isNilIdent(info, be.Y) {
						if sel, ok := ast.Unparen(be.X).(*ast.SelectorExpr); ok {
							if f := fieldOf(info, sel); f != nil && tst != nil {
								for _, kind := range kinds {
									demands = append(demands, demand{kind, yamlKeyOf(tst, f)})
								}
							}
						}
					}
					// len(x.F) == 0
					if c, ok := ast.Unparen(be.X).(*ast.CallExpr); ok && len(c.Args) == 1 {
						if id, ok := ast.Unparen(c.Fun).(*ast.Ident); ok && id.Name == "len" {
							if sel, ok := ast.Unparen(c.Args[0]).(*ast.SelectorExpr); ok {
								if f := fieldOf(info, sel); f != nil {
									if owner := namedOf(info.TypeOf(sel.X)); owner != nil {
										if ost, ok := owner.Underlying().(*types.Struct); ok {
											lists = append(lists, listDemand{owner, yamlKeyOf(ost, f)})
										}
									}
								}
							}
						}
					}
					return true
				})
			}
			return true
		})
		if len(demands) < 8 || len(lists) < 3 {
			r.Undecided("anchor changed: ast.Type.Validate demands %d descriptions and %d non-empty lists", len(demands), len(lists))
		}
		for _, file := range []string{"schemas/compiler_passes.json", "schemas/veneers.json"} {
			defs := readDefs(file)
			if defs == nil {
				continue
			}
			astType := defs["AstType"]
			if astType == nil {
				r.Undecided("anchor lost: %s has no AstType", file)
				continue
			}
			// kind → keys required under `if kind = K`
			then := map[string]map[string]bool{}
			allOf, _ := astType["allOf"].([]any)
			for _, clause := range allOf {
				m, _ := clause.(map[string]any)
				cond, _ := m["if"].(map[string]any)
				props, _ := cond["properties"].(map[string]any)
				kindProp, _ := props["kind"].(map[string]any)
				k, _ := kindProp["const"].(string)
				th, _ := m["then"].(map[string]any)
				req, _ := th["required"].([]any)
				if then[k] == nil {
					then[k] = map[string]bool{}
				}
				for _, key := range req {
					if s, ok := key.(string); ok {
						then[k][s] = true
					}
				}
			}
			for _, d := range demands {
				n++
				r.Check(then[d.kind][d.key], "cfgschema/type-description-demanded", fmt.Sprintf("%s AstType demands `%s` for kind %s", file, d.key, d.kind), vfd.Pos(), "if kind = "+d.kind+" then required ["+d.key+"]",
					fmt.Sprintf("ast.Type.Validate refuses a type of kind '%s' without `%s`, and the published AstType of %s demands `kind` only: `as: {kind: %s}` validates in an editor and is refused by the loader (type of kind '%s' without its description)", d.kind, d.key, file, d.kind, d.kind))
			}
			for _, l := range lists {
				def := defs["Ast"+l.owner.Obj().Name()]
				if def == nil {
					r.Undecided("anchor lost: %s has no definition Ast%s", file, l.owner.Obj().Name())
					continue
				}
				required := false
				req, _ := def["required"].([]any)
				for _, k := range req {
					if k == l.key {
						required = true
					}
				}
				props, _ := def["properties"].(map[string]any)
				prop, _ := props[l.key].(map[string]any)
				min, _ := prop["minItems"].(float64)
				n++
				r.Check(required && min >= 1, "cfgschema/type-description-demanded", fmt.Sprintf("%s Ast%s demands a non-empty `%s`", file, l.owner.Obj().Name(), l.key), vfd.Pos(), "the key is required, with minItems >= 1",
					fmt.Sprintf("ast.Type.Validate refuses an empty %s.%s, and the published definition Ast%s of %s does not demand it: `{kind: enum, enum: {}}` / `constraints: [{op: minLength}]` validate and are refused by the loader", l.owner.Obj().Name(), l.key, l.owner.Obj().Name(), file))
			}
		}
	}
	// (c)
	if fn := ctx.LookupFunc("internal/yaml", "checkDocumentShape"); fn == nil {
		r.Undecided("anchor lost: yaml.checkDocumentShape")
	} else if fd, _ := ctx.DeclOf(fn); fd != nil {
		info := yp.TypesInfo
		reports := false
		ast.Inspect(fd.Body, func(m ast.Node) bool {
			cc, ok := m.(*ast.CaseClause)
			if !ok {
				return true
			}
			kinds := ""
			for _, e := range cc.List {
				kinds += exprString(e) + " "
			}
			if !strings.Contains(kinds, "MappingNode") {
				return true
			}
			// variables holding typeOfMember(…)
			members := map[types.Object]bool{}
			ast.Inspect(cc, func(k ast.Node) bool {
				if as, ok := k.(*ast.AssignStmt); ok && len(as.Lhs) == 1 && len(as.Rhs) == 1 {
					if c, ok := ast.Unparen(as.Rhs[0]).(*ast.CallExpr); ok {
						if f := callee(info, c); f != nil && f.Name() == "typeOfMember" {
							if id, ok := as.Lhs[0].(*ast.Ident); ok {
								members[objOf(info, id)] = true
							}
						}
					}
				}
				return true
			})
			ast.Inspect(cc, func(k ast.Node) bool {
				is, ok := k.(*ast.IfStmt)
				if !ok || !endsInExit(is.Body) {
					return true
				}
				rs, ok := is.Body.List[len(is.Body.List)-1].(*ast.ReturnStmt)
				if !ok || len(rs.Results) != 1 || isNilIdent(info, rs.Results[0]) {
					return true
				}
				nilMember, structTarget := false, false
				ast.Inspect(is.Cond, func(q ast.Node) bool {
					switch x := q.(type) {
					case *ast.BinaryExpr:
						if x.Op == token.EQL && isNilIdent(info, x.Y) {
							if id, ok := ast.Unparen(x.X).(*ast.Ident); ok && members[objOf(info, id)] {
								nilMember = true
							}
							if c, ok := ast.Unparen(x.X).(*ast.CallExpr); ok {
								if f := callee(info, c); f != nil && f.Name() == "typeOfMember" {
									nilMember = true
								}
							}
						}
					case *ast.SelectorExpr:
						if x.Sel.Name == "Struct" {
							structTarget = true
						}
					}
					return true
				})
				if nilMember && structTarget {
					reports = true
				}
				return true
			})
			return false
		})
		n++
		r.Check(reports, "cfgschema/unknown-keys-in-shape-walk", "yaml.checkDocumentShape reports the keys a struct does not declare", fd.Pos(), "a key of a mapping decoded into a struct that typeOfMember does not know is an error",
			"checkDocumentShape says nothing of a key the target struct does not declare and leaves it to yaml.v3's KnownFields — which skips a merged value whose key the merging mapping also defines before decoding it: `passes: [{<<: {omit: {objects: [a.B], injected: true}}, omit: {objects: [a.C]}}]` loads")
	}
	r.Count("hunted clauses of the configuration (4th hunt)", n)
	r.Floor("hunted clauses of the configuration (4th hunt)", 30)
}

// c20FifthHunt — fifth hunt of C20:
//   - the loaders validate the types nested in a description (Type.Validate recurses, the validation of arguments,
//     constants and properties calls it): every field of type ast.Type on which a Validate method of cog calls
//     `.Validate()` carries the tag the published schemas read `required` from;
//   - yaml.v3 converts scalars (12 → "12", 1.9 → 1, "yes" → true): the scalar case of the shape walk compares the
//     resolved tag of the node with the kind of its destination — string, boolean, integer and float kinds;
//   - an `inputs` entry is checked when the file is loaded, not when (and if) the input is read;
//   - the shape walk takes for a merge key what the decoder takes for one: the key `<<`.
func c20FifthHunt(ctx *Ctx, r *Report) {
	n := 0
	// (a)
	tags := map[*types.Var]string{}
	var astPkg *packages.Package
	for _, rel := range []string{"internal/ast", "internal/veneers", "internal/veneers/option", "internal/veneers/builder"} {
		p := ctx.Pkg(rel)
		if p == nil {
			continue
		}
		if rel == "internal/ast" {
			astPkg = p
		}
		scope := p.Types.Scope()
		for _, name := range scope.Names() {
			tn, ok := scope.Lookup(name).(*types.TypeName)
			if !ok {
				continue
			}
			st, ok := tn.Type().Underlying().(*types.Struct)
			if !ok {
				continue
			}
			for i := 0; i < st.NumFields(); i++ {
				tags[st.Field(i)] = st.Tag(i)
			}
		}
	}
	if astPkg == nil {
		r.Undecided("anchor lost: internal/ast")
		return
	}
	demanded := map[*types.Var]token.Pos{}
	ctx.AllFuncDecls(func(p *packages.Package, fd *ast.FuncDecl, obj *types.Func) {
		if fd.Body == nil || fd.Name.Name != "Validate" || fd.Recv == nil {
			return
		}
		info := p.TypesInfo
		ast.Inspect(fd.Body, func(m ast.Node) bool {
			c, ok := m.(*ast.CallExpr)
			if !ok {
				return true
			}
			sel, ok := ast.Unparen(c.Fun).(*ast.SelectorExpr)
			if !ok || sel.Sel.Name != "Validate" {
				return true
			}
			fsel, ok := ast.Unparen(sel.X).(*ast.SelectorExpr)
			if !ok {
				return true
			}
			f, ok := info.Uses[fsel.Sel].(*types.Var)
			if !ok || !f.IsField() || namedName(f.Type()) != "Type" {
				return true
			}
			if named := namedOf(f.Type()); named == nil || named.Obj().Pkg() != astPkg.Types {
				return true
			}
			if _, known := tags[f]; known {
				if _, seen := demanded[f]; !seen {
					demanded[f] = c.Pos()
				}
			}
			return true
		})
	})
	var fields []*types.Var
	for f := range demanded {
		fields = append(fields, f)
	}
	sort.Slice(fields, func(i, j int) bool { return demanded[fields[i]] < demanded[fields[j]] })
	for _, f := range fields {
		owner := "?"
		for _, rel := range []string{"internal/ast", "internal/veneers", "internal/veneers/option", "internal/veneers/builder"} {
			if p := ctx.Pkg(rel); p != nil {
				for _, name := range p.Types.Scope().Names() {
					if tn, ok := p.Types.Scope().Lookup(name).(*types.TypeName); ok {
						if st, ok := tn.Type().Underlying().(*types.Struct); ok {
							for i := 0; i < st.NumFields(); i++ {
								if st.Field(i) == f {
									owner = name
								}
							}
						}
					}
				}
			}
		}
		n++
		r.Check(strings.Contains(tags[f], `jsonschema:"required"`), "cfgschema/nested-types-required", owner+"."+f.Name()+" is validated by the loaders", demanded[f], "the published schemas require it",
			fmt.Sprintf("a Validate method calls %s.%s.Validate(), which refuses a type left out (`unknown type kind ''`), and the field does not carry the `jsonschema:\"required\"` tag the published schemas read: `fields: [{name: x}]`, `array: {}`, an argument or an enum member without type validate in an editor and are refused by the loader", owner, f.Name()))
	}
	r.Count("nested types validated by the loaders", len(fields))
	r.Floor("nested types validated by the loaders", 6)
	// (b) (d)
	if p := ctx.Pkg("internal/yaml"); p == nil {
		r.Undecided("anchor lost: internal/yaml")
	} else if fd, _ := ctx.DeclOf(ctx.LookupFunc("internal/yaml", "checkDocumentShape")); fd == nil {
		r.Undecided("anchor lost: yaml.checkDocumentShape")
	} else {
		info := p.TypesInfo
		kinds := map[string]bool{}
		readsTag := false
		ast.Inspect(fd.Body, func(m ast.Node) bool {
			cc, ok := m.(*ast.CaseClause)
			if !ok || len(cc.List) != 1 || !strings.HasSuffix(exprString(cc.List[0]), "ScalarNode") {
				return true
			}
			bodies := []ast.Node{cc}
			for _, st := range cc.Body {
				ast.Inspect(st, func(q ast.Node) bool {
					if c, ok := q.(*ast.CallExpr); ok {
						if f := callee(info, c); f != nil && f.Pkg() == p.Types {
							if gd, _ := ctx.DeclOf(f); gd != nil && gd != fd {
								bodies = append(bodies, gd.Body)
							}
						}
					}
					return true
				})
			}
			for _, b := range bodies {
				ast.Inspect(b, func(q ast.Node) bool {
					switch x := q.(type) {
					case *ast.CaseClause:
						for _, e := range x.List {
							if s := exprString(e); strings.HasPrefix(s, "reflect.") {
								kinds[strings.TrimPrefix(s, "reflect.")] = true
							}
						}
					case *ast.SelectorExpr:
						if x.Sel.Name == "ShortTag" || x.Sel.Name == "Tag" {
							readsTag = true
						}
					}
					return true
				})
			}
			return false
		})
		var missing []string
		for _, k := range []string{"String", "Bool", "Int", "Int64", "Float64"} {
			if !kinds[k] {
				missing = append(missing, k)
			}
		}
		n++
		r.Check(readsTag && len(missing) == 0, "cfgschema/scalars-checked-against-destination", "yaml.checkDocumentShape meets a scalar", fd.Pos(), "its resolved tag is compared with the kind of its destination (string, boolean, integer, float)",
			fmt.Sprintf("the scalar case of the shape walk does not compare the tag of the node with the kind of its destination (kinds not handled: %v): yaml.v3 converts instead of refusing — `package: 12` is the string \"12\", `argument_index: 1.9` is 1, `debug: \"yes\"` is true — while the published schemas refuse all three", missing))
		mergeAsDecoder := false
		ast.Inspect(fd.Body, func(m ast.Node) bool {
			if is, ok := m.(*ast.IfStmt); ok {
				c := exprString(is.Cond)
				if strings.Contains(c, `"!!merge"`) {
					mergeAsDecoder = strings.Contains(c, `.Value == "<<"`)
				}
			}
			return true
		})
		n++
		r.Check(mergeAsDecoder, "cfgschema/merge-key-as-the-decoder", "yaml.checkDocumentShape recognises a merge key", fd.Pos(), "the key `<<`, as the decoder does",
			"the shape walk takes every key tagged !!merge for a merge key, the decoder only the key `<<`: `!!merge passes: [~]` is the key passes for the decoder and the null rule entry behind it is never looked at")
	}
	// (c)
	if fn := ctx.LookupFunc("internal/codegen", "PipelineFromFile"); fn == nil {
		r.Undecided("anchor lost: codegen.PipelineFromFile")
	} else if fd, p := ctx.DeclOf(fn); fd != nil {
		info := p.TypesInfo
		checked := false
		ast.Inspect(fd.Body, func(m ast.Node) bool {
			rs, ok := m.(*ast.RangeStmt)
			if !ok || !strings.HasSuffix(exprString(rs.X), ".Inputs") {
				return true
			}
			ast.Inspect(rs.Body, func(q ast.Node) bool {
				is, ok := q.(*ast.IfStmt)
				if !ok || !endsInExit(is.Body) {
					return true
				}
				probe := ast.Node(is.Cond)
				if is.Init != nil {
					probe = is.Init
				}
				ast.Inspect(probe, func(z ast.Node) bool {
					if c, ok := z.(*ast.CallExpr); ok {
						if f := callee(info, c); f != nil && (f.Name() == "loader" || f.Name() == "OneMemberOnly") {
							checked = true
						}
					}
					return true
				})
				return true
			})
			return true
		})
		n++
		r.Check(checked, "cfgschema/inputs-checked-at-load", "codegen.PipelineFromFile checks the entries of inputs", fd.Pos(), "every entry describes one input, whatever its condition",
			"the one-input-per-entry check sits in the code that reads the input, which is not reached when the `if` of the entry is false: `inputs: [{if: '1 == 2'}]` and an entry with two inputs load, while schemas/pipeline.json (oneOf) refuses both")
	}
	r.Count("hunted clauses of the configuration rules (5th hunt)", n)
	r.Floor("hunted clauses of the configuration rules (5th hunt)", 9)
}
