package main

// C02 — a successful run only emits well-formed code; unsupported constructs are errors.

import (
	"fmt"
	"go/ast"
	"go/constant"
	"go/token"
	"go/types"
	"regexp"
	"sort"
	"strings"
	"text/template/parse"

	"golang.org/x/tools/go/packages"
)

func init() { register("C02", checkC02) }

var placeholderRe = regexp.MustCompile(`(?i)(unknown|unhandled|unsupported|unimplemented|not implemented)`)

var jennyPkgs = []string{"internal/jennies/golang", "internal/jennies/java", "internal/jennies/php", "internal/jennies/python", "internal/jennies/typescript", "internal/jennies/jsonschema", "internal/jennies/openapi"}

func checkC02(ctx *Ctx, r *Report) {
	r.Explanation = "Generator-side necessary conditions for 'a successful run only emits well-formed code', decided on cog's source: (1) every place where a jenny can write one of cog's placeholder texts (unknown, unhandled…, unsupported…) is found by its text; the kind dispatch that guards it (switch on Kind/ScalarKind, chain of kind predicates, kind-keyed map) is recovered and each kind it does not handle must be one the language's pass chain removes (C06) or be listed with a reviewed reason — otherwise a value of that kind leaves the placeholder in generated code of a successful run; (2) Go: scalar kinds printed verbatim as type names are predeclared Go types; goimports (format-only) is registered under exactly !SkipPostFormatting and its error fails the run, which is what turns the deliberately invalid sentinel texts of the Go templates into errors; (3) every module-qualified name (typing., cogbuilder., cog., json., fmt., …) written by Go code or by a template of the Go, Python and TypeScript jennies has its import registered on the same path (same function block, an unconditional action of the same template file, every call site of the define, or the renderer of that template directory); (4) an error met in an iteration callback is never overwritten by a later success (sticky errors) in the jennies, languages and veneers packages; (5) number canonicalisation at the parser frontier (shared with C10): literals are printed from int64/float64, never from json.Number or its text."
	r.NotCovered = "whether emitted code type-checks / byte-compiles / compiles against Jackson (needs the target toolchains); interactions of option combinations; placeholders inside user-supplied templates; Java imports (class-level packageMapper) and PHP (fully-qualified names)."
	r.Assumptions = []string{"text/template leaves a template's literal text unchanged", "goimports in FormatOnly mode fails on text that does not parse and adds no import"}
	r.Exhaustive = true
	c02Dispatch(ctx, r)
	c02GoScalarIdentity(ctx, r)
	c02GoPostprocess(ctx, r)
	c02Imports(ctx, r)
	// an error met while iterating over objects / builders / schemas must survive the following iterations
	stickyErrors(ctx, r, "errflow/sticky", func(p *packages.Package) bool {
		return strings.HasPrefix(p.PkgPath, modulePath+"/internal/jennies") || p.PkgPath == modulePath+"/internal/languages" || strings.HasPrefix(p.PkgPath, modulePath+"/internal/veneers")
	})
	r.Floor("captured-error assignments in callbacks", 10)
	c10NumberCanonical(ctx, r)
	c01EnumNullMember(ctx, r)
	c02EnumMemberIdentifiers(ctx, r)
	c02JavaSerializerConditions(ctx, r)
	c02GoUnfoldLeafPointer(ctx, r)
	c02GoFieldNamesNotMethods(ctx, r)
	c09GoEnvelopeConstants(ctx, r)
	c14GoConverterBuffer(ctx, r)
	c11FifthRound(ctx, r)
	c02GoConstructorNames(ctx, r)
	c02FourthHunt(ctx, r)
	c02PythonModuleNames(ctx, r)
	c02JavaPackageSegments(ctx, r)
	c02JavaClassNamesFormatted(ctx, r)
	c02JavaListItemDefaultsTyped(ctx, r)
	c02GoConstantReferencesTyped(ctx, r)
	c10SeventhHunt(ctx, r)                // the branch of a union that holds a numeric default: `Any: (func (input unknown) …)` does not type-check
	c10EighthHunt(ctx, r)                 // defaults of bytes fields and of lists of date-times: strings where []byte / time.Time are declared
	c10GoNestedOverrideRecurses(ctx, r)   // a struct default holding another struct: `Inner: map[string]interface {}{…}` does not type-check
	c16FourthHunt(ctx, r)                 // a union branch referring to a constant: the Go builder does not type-check
	c01SeventhRound(ctx, r, false)        // OpenAPI nullable object components: `type Inner *struct{…}`, `&Inner{}`
	c11SeventhRound(ctx, r, false)        // packages called typing / enum / global: the Python modules do not parse
	c11SixthRound(ctx, r)                 // objects that end up with one identifier; modules hidden by the locals of the generated methods
	c01GoTemplateVariablesEscaped(ctx, r) // a union branch called Raw / Json: the decoders do not compile
	c06FourthHunt(ctx, r)                 // enum members named like other declarations; builders of named optionals
	c09FifthHunt(ctx, r)                  // Python methods shadowing imported modules; integer bounds that overflow int64 in the generated Go
	c09SixthHunt(ctx, r)                  // Go arguments hiding the packages their builder imports
	if ts, err := loadTemplates(ctx, "golang"); err != nil {
		r.Undecided("cannot parse golang templates: %v", err)
	} else {
		c08SixthHunt(ctx, r, ts)        // named optionals of structs: `MaybeInner{}` does not type-check
		c13FifthHunt(ctx, r, ts, false) // references to enums that accept null; schema packages named after standard packages
	}
	c02RuntimeGuard(ctx, r)
	c02SortedSearch(ctx, r)
	c02SortedSearchSelfTest(ctx, r)
	c02TypedListLiterals(ctx, r)
	c02GuardChainAgreement(ctx, r)
	c02PythonEscapeLast(ctx, r)
	c08ResolvesToConstraints(ctx, r)
	c02GoQualifiedIdentifiers(ctx, r)
	c09UnfoldAccumulators(ctx, r)
	c09TypedConstantSetup(ctx, r)
	c02PythonValueFormatter(ctx, r)
	c02GoImportsUsed(ctx, r)
	c02PythonIdentifierCharacters(ctx, r)
	c02EqualityTypeChecks(ctx, r)
	c02ReservedWordTables(ctx, r)
	c02GoImportInScope(ctx, r)
	c02GoBareTypeNames(ctx, r)
	c02GoAliasConstructor(ctx, r)
	c02GoRuntimeDefines(ctx, r)
	c02GoTemplateIdentifiersEscaped(ctx, r)
	c02PythonMethodNamesEscaped(ctx, r)
	c02PythonClassNamesEscaped(ctx, r)
}

// kindConsts: the constants of ast.Kind / ast.ScalarKind.
func kindConsts(ctx *Ctx, typeName string) map[types.Object]string {
	out := map[types.Object]string{}
	p := ctx.Pkg("internal/ast")
	t := ctx.LookupType("internal/ast", typeName)
	if p == nil || t == nil {
		return out
	}
	for _, n := range p.Types.Scope().Names() {
		if c, ok := p.Types.Scope().Lookup(n).(*types.Const); ok && types.Identical(c.Type(), t) {
			out[c] = strings.Trim(c.Val().ExactString(), "\"")
		}
	}
	return out
}

// kind predicates of ast.Type → kind name
var kindPredicates = map[string]string{"IsArray": "array", "IsMap": "map", "IsStruct": "struct", "IsEnum": "enum", "IsRef": "ref", "IsScalar": "scalar", "IsDisjunction": "disjunction",
	"IsIntersection": "intersection", "IsComposableSlot": "composable_slot", "IsConstantRef": "constant_ref", "IsConcreteScalar": "scalar(concrete)", "IsAny": "scalar(any)"}

type dispatchSite struct {
	fn      *types.Func
	pkg     *packages.Package
	pos     token.Pos
	text    string
	domain  string // "Kind" or "ScalarKind" or "?"
	handled map[string]bool
	via     string
}

func c02FindPlaceholders(ctx *Ctx) []dispatchSite {
	kinds := kindConsts(ctx, "Kind")
	skinds := kindConsts(ctx, "ScalarKind")
	var out []dispatchSite
	for _, rel := range jennyPkgs {
		p := ctx.Pkg(rel)
		if p == nil {
			continue
		}
		info := p.TypesInfo
		for _, file := range p.Syntax {
			for _, d := range file.Decls {
				fd, ok := d.(*ast.FuncDecl)
				if !ok || fd.Body == nil {
					continue
				}
				fobj, _ := info.Defs[fd.Name].(*types.Func)
				parents := parentMap(fd)
				ast.Inspect(fd.Body, func(n ast.Node) bool {
					lit, ok := n.(*ast.BasicLit)
					if !ok || lit.Kind != token.STRING || !placeholderRe.MatchString(lit.Value) {
						return true
					}
					// skip error constructors and panics
					for q := parents[ast.Node(lit)]; q != nil; q = parents[q] {
						if c, ok := q.(*ast.CallExpr); ok {
							if fn := callee(info, c); fn != nil && (fn.FullName() == "fmt.Errorf" || fn.FullName() == "errors.New") {
								return true
							}
							if id, ok := c.Fun.(*ast.Ident); ok && id.Name == "panic" {
								return true
							}
						}
					}
					// `result := "unknown"`: the placeholder is the initial value, every later test can replace it
					initialises := false
					if as, ok := parents[ast.Node(lit)].(*ast.AssignStmt); ok && as.Tok == token.DEFINE {
						initialises = true
					}
					site := dispatchSite{fn: fobj, pkg: p, pos: lit.Pos(), text: lit.Value, domain: "?", handled: map[string]bool{}}
					// governing dispatch: enclosing switch (placeholder in default / after), else the function's if-chain
					var sw *ast.SwitchStmt
					for q := parents[ast.Node(lit)]; q != nil; q = parents[q] {
						if s, ok := q.(*ast.SwitchStmt); ok && s.Tag != nil {
							sw = s
							break
						}
					}
					if sw == nil {
						// a switch that precedes the placeholder in the same block / function
						ast.Inspect(fd.Body, func(k ast.Node) bool {
							if s, ok := k.(*ast.SwitchStmt); ok && s.Tag != nil && s.End() <= lit.Pos() {
								// the value the literal initialises may be overwritten by the switch: `x := "unknown"; switch …`
								sw = s
							}
							return true
						})
						// `result := "unknown"` followed by a switch
						if sw == nil {
							ast.Inspect(fd.Body, func(k ast.Node) bool {
								if s, ok := k.(*ast.SwitchStmt); ok && s.Tag != nil && s.Pos() > lit.Pos() && sw == nil {
									if as, ok := parents[ast.Node(lit)].(*ast.AssignStmt); ok && as.Tok == token.DEFINE {
										sw = s
									}
								}
								return true
							})
						}
					}
					if sw != nil {
						tt := info.TypeOf(sw.Tag)
						consts := kinds
						if tt != nil && strings.HasSuffix(tt.String(), ".ScalarKind") {
							consts = skinds
							site.domain = "ScalarKind"
						} else if tt != nil && strings.HasSuffix(tt.String(), ".Kind") {
							site.domain = "Kind"
						}
						if site.domain != "?" {
							site.via = "switch " + exprString(sw.Tag)
							for _, cc := range sw.Body.List {
								for _, e := range cc.(*ast.CaseClause).List {
									ast.Inspect(e, func(k ast.Node) bool {
										if id, ok := k.(*ast.Ident); ok {
											if v, ok := consts[info.Uses[id]]; ok {
												site.handled[v] = true
											}
										}
										return true
									})
								}
							}
						}
					}
					if site.domain == "?" {
						// map literal keyed by kinds, looked up before the placeholder: `testMap := map[ast.ScalarKind]string{…}`
						ast.Inspect(fd.Body, func(k ast.Node) bool {
							cl, ok := k.(*ast.CompositeLit)
							if !ok || cl.Pos() > lit.Pos() {
								return true
							}
							// the literal and the placeholder share an enclosing block other than the function body
							shared := false
							for q := parents[ast.Node(lit)]; q != nil; q = parents[q] {
								if b, ok := q.(*ast.BlockStmt); ok && b != fd.Body && b.Pos() <= cl.Pos() && cl.End() <= b.End() {
									shared = true
								}
							}
							if !shared {
								return true
							}
							mt, ok := info.TypeOf(cl).Underlying().(*types.Map)
							if !ok {
								return true
							}
							consts := map[types.Object]string(nil)
							if strings.HasSuffix(mt.Key().String(), ".ScalarKind") {
								consts, site.domain = skinds, "ScalarKind"
							} else if strings.HasSuffix(mt.Key().String(), ".Kind") {
								consts, site.domain = kinds, "Kind"
							}
							if consts == nil {
								return true
							}
							site.via = "map literal"
							for _, el := range cl.Elts {
								if kv, ok := el.(*ast.KeyValueExpr); ok {
									if sel, ok := kv.Key.(*ast.SelectorExpr); ok {
										if v, ok := consts[info.Uses[sel.Sel]]; ok {
											site.handled[v] = true
										}
									}
								}
							}
							return true
						})
					}
					if site.domain == "?" {
						// if-chain on kind predicates preceding the placeholder in the function
						ast.Inspect(fd.Body, func(k ast.Node) bool {
							is, ok := k.(*ast.IfStmt)
							if !ok || (is.Pos() > lit.Pos() && !initialises) {
								return true
							}
							ast.Inspect(is.Cond, func(q ast.Node) bool {
								c, ok := q.(*ast.CallExpr)
								if !ok {
									return true
								}
								fn := callee(info, c)
								if fn == nil || fn.Pkg() == nil || fn.Pkg().Path() != astPkgPath {
									return true
								}
								if kn, ok := kindPredicates[fn.Name()]; ok {
									site.handled[kn] = true
									site.domain = "Kind"
									site.via = "if-chain"
								}
								if fn.Name() == "IsAnyOf" || fn.Name() == "IsArrayOf" || fn.Name() == "IsMapOf" {
									for _, a := range c.Args {
										if id, ok := a.(*ast.SelectorExpr); ok {
											if v, ok := kinds[info.Uses[id.Sel]]; ok && fn.Name() == "IsAnyOf" {
												site.handled[v] = true
												site.domain = "Kind"
												site.via = "if-chain"
											}
										}
									}
								}
								return true
							})
							// `x.Kind == ast.KindY`
							ast.Inspect(is.Cond, func(q ast.Node) bool {
								if be, ok := q.(*ast.BinaryExpr); ok && be.Op == token.EQL {
									for _, side := range []ast.Expr{be.X, be.Y} {
										if sel, ok := side.(*ast.SelectorExpr); ok {
											if v, ok := kinds[info.Uses[sel.Sel]]; ok {
												site.handled[v] = true
												site.domain = "Kind"
												site.via = "if-chain"
											}
											if v, ok := skinds[info.Uses[sel.Sel]]; ok {
												site.handled[v] = true
												if site.domain == "?" {
													site.domain = "ScalarKind"
													site.via = "if-chain"
												}
											}
										}
									}
								}
								return true
							})
							return true
						})
					}
					out = append(out, site)
					return true
				})
			}
		}
	}
	return out
}

// ---------------------------------------------------------------------------
// Reviewed state of the kind dispatches that end in a placeholder.

// kinds the compiler-pass chain of a language removes from *type position* (C06 checks the chains)
var c02Eliminated = map[string]map[string]string{
	"golang":     {"disjunction": "DisjunctionToType turns every union into a struct object (C06 chain contract)", "enum": "AnonymousEnumToExplicitType names every enum (C06)"},
	"java":       {"disjunction": "DisjunctionToType (C06)", "enum": "AnonymousEnumToExplicitType (C06)", "struct": "AnonymousStructsToNamed (C06)"},
	"php":        {"enum": "AnonymousEnumToExplicitType (C06)", "struct": "AnonymousStructsToNamed (C06)"},
	"python":     {"struct": "AnonymousStructsToNamed (C06)"},
	"typescript": {},
}

type c02Site struct {
	typePosition bool              // the language's eliminated kinds apply
	allowed      map[string]string // kind -> reason it cannot reach the placeholder
	whole        string            // reason covering the whole site (no kind dispatch: lookup failures, runtime messages)
}

const constRefWhy = "the placeholder answers a failed lookup, not a kind: constant references are only created by the CUE front-end for members of an enum object it has just declared, and renaming passes rewrite them with their target (C05 effects/rename-covers)"

var c02Sites = map[string]c02Site{
	"internal/jennies/golang.Builder.emptyValueForGuard placeholder unknown": {typePosition: true, allowed: map[string]string{
		"composable_slot": "guards are derived for the prefixes of an assignment path, i.e. for values in which a field or an index is selected: a composable slot has no field",
		"constant_ref":    "a constant reference has no field to select: it never is the prefix of a path",
		"intersection":    "paths are built from struct fields (ast.PathFromStructField) and resolved through references to structs only"}},
	"internal/jennies/golang.RawTypes.defaultsForStructRec placeholder \"unsupported default value case: this is likely a bug in cog\"": {typePosition: true, allowed: map[string]string{
		"composable_slot": "needsExplicitDefault only holds for such a field when it carries a default; the Go chain gives no default to slots (reachable through fields_set_default on a slot: emitted text is a Go string literal, the package no longer type-checks — reviewed, not demonstrated on a pipeline the Go jenny accepts)",
		"intersection":    "a struct with an intersection-typed field already fails the run in the Validate template's sentinel (demonstrated: triage/demos/c02_placeholders_test.go.txt intersection_default/go)"}},
	"internal/jennies/golang.typeFormatter.formatTypeDeclaration placeholder unhandled type def kind: %s": {typePosition: true, allowed: map[string]string{
		"composable_slot": "the text is not valid Go: goimports fails and the run returns an error (skeleton/go-postprocess holds the formatter registered)",
		"constant_ref":    "the text is not valid Go: goimports fails and the run returns an error (demonstrated with CUE `TheLevel: Level & \"high\"`)"}},
	"internal/jennies/golang.typeFormatter.doFormatType placeholder unknown":    {typePosition: true},
	"internal/jennies/java.typeFormatter.formatFieldType placeholder unknown":   {typePosition: true},
	"internal/jennies/java.typeFormatter.formatMap placeholder unknown":         {typePosition: true},
	"internal/jennies/java.formatScalarType placeholder unknown":                {},
	"internal/jennies/java.typeFormatter.emptyValueForType placeholder unknown": {},
	"internal/jennies/java.typeFormatter.emptyValueForType placeholder unknown #2": {typePosition: true, allowed: map[string]string{
		"composable_slot": "only called for the fields of a struct default given as a JSON object (formatReferenceDefaults); a slot has no JSON default in any front-end",
		"constant_ref":    "constant fields are assigned in the constructor and skipped by formatReferenceDefaults' callers",
		"intersection":    "covered by the finding on formatFieldType: the field's type is already the placeholder"}},
	"internal/jennies/java.typeFormatter.formatConstantReference placeholder unknown": {whole: constRefWhy},
	"internal/jennies/java.typeFormatter.enumFromConstantRef placeholder unknown":     {whole: constRefWhy},
	"internal/jennies/java.typeFormatter.enumFromConstantRef placeholder unknown #2":  {whole: constRefWhy},
	"internal/jennies/java.typeFormatter.enumFromConstantRef placeholder unknown #3":  {whole: constRefWhy},
	"internal/jennies/php.disjunctionCaseForType placeholder /* unhandled scalar type */": {allowed: map[string]string{
		"any": "a branch of type any makes the union undiscriminated: DisjunctionInferMapping gives it no mapping and convertDisjunctionFunc is not generated for it"}},
	"internal/jennies/php.disjunctionCaseForType placeholder /* unhandled type */": {typePosition: true, allowed: map[string]string{
		"composable_slot": "branches of a union the converter is generated for are scalars, references, arrays or maps (disjunction_of_scalars / disjunction_of_refs hints)",
		"constant_ref":    "same: not a branch kind of a converted union",
		"disjunction":     "FlattenDisjunctions removes nested unions",
		"intersection":    "same: not a branch kind of a converted union"}},
	"internal/jennies/php.defaultValueForTypeRec placeholder unknown": {typePosition: true, allowed: map[string]string{
		"constant_ref": "constant-reference fields are assigned their constant in the constructor before any default is computed"}},
	"internal/jennies/php.defaultValueForScalar placeholder unknown":                                   {},
	"internal/jennies/php.typeFormatter.formatTypeDeclaration placeholder unhandled type def kind: %s": {whole: "the value is only used by the API-reference collector; RawTypes.formatObject returns an error for the same kinds (dispatch checked on that error: rule kinds/object-dispatch-error)"},
	"internal/jennies/php.typeFormatter.doFormatType placeholder unknown":                              {typePosition: true},
	"internal/jennies/php.typeFormatter.formatConstantReference placeholder unknown":                   {whole: constRefWhy},
	"internal/jennies/php.typeFormatter.formatConstantReference placeholder unknown #2":                {whole: constRefWhy},
	"internal/jennies/php.typeFormatter.enumFromConstantRef placeholder unknown":                       {whole: constRefWhy},
	"internal/jennies/php.typeFormatter.enumFromConstantRef placeholder unknown #2":                    {whole: constRefWhy},
	"internal/jennies/python.defaultValueForTypeRec placeholder unknown": {typePosition: true, allowed: map[string]string{
		"constant_ref": "constant-reference fields are assigned their constant in __init__ before any default is computed",
		"intersection": "typeFormatter.formatType panics on intersections first (C04 known finding)"}},
	"internal/jennies/python.defaultValueForScalar placeholder unknown":                                        {},
	"internal/jennies/python.typeFormatter.formatType placeholder unknown":                                     {typePosition: true},
	"internal/jennies/python.typeFormatter.formatConstantReference placeholder unknown":                        {whole: constRefWhy},
	"internal/jennies/python.typeFormatter.formatConstantReference placeholder unknown #2":                     {whole: constRefWhy},
	"internal/jennies/typescript.RawTypes.defaultValueForType placeholder unknown":                             {typePosition: true},
	"internal/jennies/typescript.defaultValueForScalar placeholder unknown":                                    {},
	"internal/jennies/typescript.RawTypes.defaultValueForConstantReferences placeholder unknown":               {whole: constRefWhy},
	"internal/jennies/typescript.RawTypes.defaultValueForConstantReferences placeholder unknown #2":            {whole: constRefWhy},
	"internal/jennies/typescript.typeFormatter.formatTypeDeclaration placeholder unhandled object of type: %s": {},
	"internal/jennies/typescript.typeFormatter.formatConstantReferences placeholder unknown":                   {whole: constRefWhy},
	"internal/jennies/typescript.typeFormatter.formatConstantReferences placeholder unknown #2":                {whole: constRefWhy},
}

func c02Dispatch(ctx *Ctx, r *Report) {
	kinds := kindConsts(ctx, "Kind")
	skinds := kindConsts(ctx, "ScalarKind")
	sites := c02FindPlaceholders(ctx)
	r.Count("placeholder sites", len(sites))
	r.Floor("placeholder sites", 30)
	seen := map[string]int{}
	for _, s := range sites {
		if strings.Contains(s.text, "can not convert unknown disjunction branch") {
			continue // message of an exception thrown by the emitted PHP converter at run time, not a placeholder
		}
		all := kinds
		if s.domain == "ScalarKind" {
			all = skinds
		}
		var missing []string
		for _, v := range all {
			if !s.handled[v] && !(v == "scalar" && (s.handled["scalar(concrete)"] && s.handled["scalar(any)"])) {
				missing = append(missing, v)
			}
		}
		sort.Strings(missing)
		cons := fmt.Sprintf("%s placeholder %s", ctx.FuncName(s.fn), strings.Trim(s.text, "\""))
		if strings.HasPrefix(s.text, "\"\\\"") {
			cons = fmt.Sprintf("%s placeholder %s", ctx.FuncName(s.fn), strings.ReplaceAll(strings.TrimSuffix(strings.TrimPrefix(s.text, "\""), "\""), "\\\"", "\""))
		}
		seen[cons]++
		if seen[cons] > 1 {
			cons = fmt.Sprintf("%s #%d", cons, seen[cons])
		}
		entry, reviewed := c02Sites[cons]
		if !reviewed {
			r.Bad("kinds/dispatch-total", cons, s.pos, fmt.Sprintf("a placeholder text (%s) that is not in the reviewed table can be written into generated code (dispatch: %s, kinds not handled before it: %v): an unsupported construct must make the run fail, not leave this text in a file", s.text, s.via, missing))
			continue
		}
		if entry.whole != "" {
			r.OK("kinds/dispatch-total", cons, s.pos, "reviewed: "+entry.whole)
			continue
		}
		if s.domain == "?" {
			r.Bad("kinds/dispatch-total", cons, s.pos, "the kind dispatch that guarded this placeholder is no longer recognised (switch on Kind/ScalarKind, kind-predicate chain, kind-keyed map)")
			continue
		}
		lang := ""
		if parts := strings.Split(s.pkg.PkgPath, "/"); len(parts) > 0 {
			lang = parts[len(parts)-1]
		}
		if len(missing) == 0 {
			r.OK("kinds/dispatch-total", cons, s.pos, "every "+s.domain+" is handled before the placeholder ("+s.via+")")
			continue
		}
		for _, k := range missing {
			why := ""
			if entry.typePosition {
				why = c02Eliminated[lang][k]
			}
			if why == "" {
				why = entry.allowed[k]
			}
			r.Check(why != "", "kinds/dispatch-total", cons+" kind="+k, s.pos, "cannot reach the placeholder: "+why,
				fmt.Sprintf("%s: a value of kind %s falls through %s to the placeholder %s, which is written into the generated %s code while the run reports success", ctx.FuncName(s.fn), k, s.via, s.text, lang))
		}
	}
}

// ---------------------------------------------------------------------------
// (2) Go: scalar kinds printed verbatim are Go types; the formatter is registered

func c02GoScalarIdentity(ctx *Ctx, r *Report) {
	fn := ctx.LookupMethod("internal/jennies/golang", "typeFormatter", "doFormatType")
	fd, p := ctx.DeclOf(fn)
	if fd == nil {
		r.Undecided("anchor lost: golang.typeFormatter.doFormatType")
		return
	}
	info := p.TypesInfo
	skinds := kindConsts(ctx, "ScalarKind")
	// the `if def.IsScalar() { … return string(typeName) }` block
	var block *ast.IfStmt
	ast.Inspect(fd.Body, func(n ast.Node) bool {
		is, ok := n.(*ast.IfStmt)
		if !ok || block != nil {
			return true
		}
		if c, ok := ast.Unparen(is.Cond).(*ast.CallExpr); ok {
			if f := callee(info, c); f != nil && f.Name() == "IsScalar" {
				block = is
			}
		}
		return true
	})
	if block == nil {
		r.Undecided("anchor changed: no `if def.IsScalar()` block in golang.typeFormatter.doFormatType")
		return
	}
	// is the kind printed verbatim?
	verbatim := false
	ast.Inspect(block.Body, func(n ast.Node) bool {
		if c, ok := n.(*ast.CallExpr); ok && len(c.Args) == 1 {
			if id, ok := c.Fun.(*ast.Ident); ok && id.Name == "string" {
				if t := info.TypeOf(c.Args[0]); t != nil && strings.HasSuffix(t.String(), ".ScalarKind") {
					verbatim = true
				}
			}
		}
		return true
	})
	if !verbatim {
		r.OK("kinds/scalar-identity", "golang doFormatType scalar block", block.Pos(), "scalar kinds are no longer printed verbatim")
		return
	}
	special := map[string]bool{}
	ast.Inspect(block.Body, func(n ast.Node) bool {
		if be, ok := n.(*ast.BinaryExpr); ok && be.Op == token.EQL {
			for _, side := range []ast.Expr{be.X, be.Y} {
				if sel, ok := side.(*ast.SelectorExpr); ok {
					if v, ok := skinds[info.Uses[sel.Sel]]; ok {
						special[v] = true
					}
				}
			}
		}
		return true
	})
	n := 0
	for _, v := range skinds {
		if special[v] {
			continue
		}
		n++
		_, isType := types.Universe.Lookup(v).(*types.TypeName)
		r.Check(isType, "kinds/scalar-identity", "golang doFormatType scalar kind "+v, block.Pos(), "printed verbatim and a predeclared Go type",
			fmt.Sprintf("the scalar kind %q is written verbatim as a Go type name but Go has no such type: gofmt accepts the file, the run succeeds, the package does not type-check", v))
	}
	r.Count("scalar kinds printed verbatim by the Go formatter", n)
	r.Floor("scalar kinds printed verbatim by the Go formatter", 10)
}

// c02GoPostprocess: formatGoFiles (goimports in format-only mode: a syntax error fails the run) is registered on the
// jenny list under exactly `!config.SkipPostFormatting`, and its error is returned.
func c02GoPostprocess(ctx *Ctx, r *Report) {
	p := ctx.Pkg("internal/jennies/golang")
	if p == nil {
		r.Undecided("package internal/jennies/golang not found")
		return
	}
	info := p.TypesInfo
	found := false
	for _, f := range p.Syntax {
		fdParents := map[ast.Node]ast.Node{}
		ast.Inspect(f, func(n ast.Node) bool {
			fd, ok := n.(*ast.FuncDecl)
			if !ok || fd.Body == nil {
				return true
			}
			fdParents = parentMap(fd)
			ast.Inspect(fd.Body, func(m ast.Node) bool {
				c, ok := m.(*ast.CallExpr)
				if !ok {
					return true
				}
				sel, ok := c.Fun.(*ast.SelectorExpr)
				if !ok || sel.Sel.Name != "AddPostprocessors" {
					return true
				}
				for _, a := range c.Args {
					if id, ok := a.(*ast.Ident); ok && id.Name == "formatGoFiles" {
						found = true
						conds := enclosingConds(fdParents, c)
						okCond := len(conds) == 1 && !conds[0].inElse && strings.HasSuffix(exprString(conds[0].stmt.Cond), ".SkipPostFormatting") && strings.HasPrefix(exprString(conds[0].stmt.Cond), "!")
						r.Check(okCond, "skeleton/go-postprocess", "golang formatGoFiles registration", c.Pos(), "registered under exactly !config.SkipPostFormatting",
							"formatGoFiles is registered under another condition than !config.SkipPostFormatting: syntactically broken Go (the sentinel texts of the templates) no longer fails the run")
					}
				}
				return true
			})
			return true
		})
	}
	if !found {
		r.Bad("skeleton/go-postprocess", "golang formatGoFiles registration", token.NoPos, "formatGoFiles is not registered as a post-processor any more: the sentinel texts of the Go templates reach the output of a successful run")
	}
	// formatGoFiles returns the error of imports.Process
	var fd *ast.FuncDecl
	for _, f := range p.Syntax {
		for _, d := range f.Decls {
			if x, ok := d.(*ast.FuncDecl); ok && x.Name.Name == "formatGoFiles" {
				fd = x
			}
		}
	}
	if fd == nil {
		r.Undecided("anchor lost: golang.formatGoFiles")
		return
	}
	okErr := false
	ast.Inspect(fd.Body, func(n ast.Node) bool {
		is, ok := n.(*ast.IfStmt)
		if !ok {
			return true
		}
		if be, ok := ast.Unparen(is.Cond).(*ast.BinaryExpr); ok && be.Op == token.NEQ && isNilIdent(info, be.Y) && len(is.Body.List) > 0 {
			if rs, ok := is.Body.List[len(is.Body.List)-1].(*ast.ReturnStmt); ok && len(rs.Results) == 2 && !isNilIdent(info, rs.Results[1]) {
				okErr = true
			}
		}
		return true
	})
	r.Check(okErr, "skeleton/go-postprocess", "golang formatGoFiles returns the formatter's error", fd.Pos(), "a file that does not parse makes the run fail", "formatGoFiles no longer returns the error of the formatter: files that do not parse are emitted by a successful run")
}

// ---------------------------------------------------------------------------
// (3) module-qualified names written into generated code are registered as imports

type importLang struct {
	lang       string
	registrars map[string]bool     // names of the functions / func-typed fields whose call registers an import; alias = first (or, for AddPackage-like, first) string literal argument
	renderers  map[string][]string // template directory -> functions that render it and register imports unconditionally
	standalone []string            // template directories holding whole files that carry their own import statements
}

var c02ImportLangs = []importLang{
	{"golang", map[string]bool{"importPkg": true, "importStdPkg": true, "typeImportMapper": true, "packageMapper": true, "Add": true},
		map[string][]string{"builders/": {"internal/jennies/golang.Builder.generateBuilder"}}, []string{"runtime/"}},
	{"python", map[string]bool{"importPkg": true, "importModule": true, "AddPackage": true, "AddModule": true},
		map[string][]string{"builders/": {"internal/jennies/python.Builder.generateBuilder"}}, []string{"runtime/"}},
	{"typescript", map[string]bool{"importPkg": true, "typeImportMapper": true, "packageMapper": true, "Add": true},
		map[string][]string{"": {"internal/jennies/typescript.Builder.generateBuilder"}}, []string{"runtime/"}},
}

func aliasOfImport(s string) string {
	if i := strings.LastIndex(s, "/"); i >= 0 {
		return s[i+1:]
	}
	return s
}

// registrationsIn returns alias -> call for the registrar calls found under n.
func registrationsIn(info *types.Info, n ast.Node, il importLang) map[string][]*ast.CallExpr {
	out := map[string][]*ast.CallExpr{}
	ast.Inspect(n, func(m ast.Node) bool {
		c, ok := m.(*ast.CallExpr)
		if !ok || len(c.Args) == 0 {
			return true
		}
		name := ""
		switch f := c.Fun.(type) {
		case *ast.SelectorExpr:
			name = f.Sel.Name
		case *ast.Ident:
			name = f.Name
		}
		if !il.registrars[name] {
			return true
		}
		if name == "Add" {
			// only ImportMap.Add
			if sel, ok := c.Fun.(*ast.SelectorExpr); !ok || !strings.Contains(strings.ToLower(exprString(sel.X)), "import") {
				return true
			}
		}
		if lit, ok := c.Args[0].(*ast.BasicLit); ok && lit.Kind == token.STRING {
			out[aliasOfImport(strings.Trim(lit.Value, "\"`"))] = append(out[aliasOfImport(strings.Trim(lit.Value, "\"`"))], c)
		}
		return true
	})
	return out
}

func c02Imports(ctx *Ctx, r *Report) {
	uses := 0
	for _, il := range c02ImportLangs {
		p := ctx.Pkg("internal/jennies/" + il.lang)
		if p == nil {
			r.Undecided("package internal/jennies/%s not found", il.lang)
			continue
		}
		info := p.TypesInfo
		ts, err := loadTemplates(ctx, il.lang)
		if err != nil {
			r.Undecided("cannot parse %s templates: %v", il.lang, err)
			continue
		}
		// universe of aliases: everything some registrar call registers by literal, in Go code or in a template action
		aliases := map[string]bool{}
		for _, f := range p.Syntax {
			for a := range registrationsIn(info, f, il) {
				aliases[a] = true
			}
		}
		tmplReg := map[string]map[string][]parse.Node{} // tree -> alias -> actions
		for _, name := range ts.names() {
			tmplReg[name] = map[string][]parse.Node{}
			walkTmpl(ts.trees[name].Root, func(m parse.Node) bool {
				cmd, ok := m.(*parse.CommandNode)
				if !ok || len(cmd.Args) < 2 {
					return true
				}
				id, ok := cmd.Args[0].(*parse.IdentifierNode)
				if !ok || !il.registrars[id.Ident] {
					return true
				}
				if s, ok := cmd.Args[1].(*parse.StringNode); ok {
					a := aliasOfImport(s.Text)
					aliases[a] = true
					tmplReg[name][a] = append(tmplReg[name][a], cmd)
				}
				return true
			})
		}
		delete(aliases, "")
		// names every file of that language may refer to, even if the tree no longer registers them anywhere
		for _, a := range map[string][]string{
			"golang":     {"json", "errors", "fmt", "math", "reflect", "strconv", "strings", "bytes", "time", "sort", "regexp", "cog", "variants"},
			"python":     {"typing", "enum", "datetime", "cogvariants", "cogbuilder", "cogruntime"},
			"typescript": {"cog"},
		}[il.lang] {
			aliases[a] = true
		}
		var alts []string
		for a := range aliases {
			if regexp.MustCompile(`^[A-Za-z_][A-Za-z0-9_]*$`).MatchString(a) {
				alts = append(alts, regexp.QuoteMeta(a))
			}
		}
		sort.Strings(alts)
		if len(alts) == 0 {
			r.Undecided("no import registrar call found for %s", il.lang)
			continue
		}
		useRe := regexp.MustCompile(`(^|[^A-Za-z0-9_.$"'/\\-])(` + strings.Join(alts, "|") + `)\.[A-Za-z_]`)

		// (a) Go source: string literals that carry a qualified name
		for _, file := range p.Syntax {
			fname := ctx.Fset.Position(file.Pos()).Filename
			if strings.HasSuffix(fname, "apiref.go") {
				continue // text of the API reference, not generated code
			}
			for _, d := range file.Decls {
				fd, ok := d.(*ast.FuncDecl)
				if !ok || fd.Body == nil {
					continue
				}
				fobj, _ := info.Defs[fd.Name].(*types.Func)
				parents := parentMap(fd)
				regs := registrationsIn(info, fd.Body, il)
				seen := map[string]int{}
				ast.Inspect(fd.Body, func(n ast.Node) bool {
					lit, ok := n.(*ast.BasicLit)
					if !ok || lit.Kind != token.STRING {
						return true
					}
					ms := useRe.FindAllStringSubmatch(strings.Trim(lit.Value, "\"`"), -1)
					if ms == nil {
						return true
					}
					// documentation sinks: arguments of apiRefCollector.* calls; arguments of registrar calls themselves
					for q := parents[ast.Node(lit)]; q != nil; q = parents[q] {
						if c, ok := q.(*ast.CallExpr); ok {
							if strings.Contains(exprString(c.Fun), "apiRefCollector") {
								return true
							}
							if fn := callee(info, c); fn != nil && (fn.FullName() == "fmt.Errorf" || fn.FullName() == "errors.New") {
								return true
							}
						}
					}
					done := map[string]bool{}
					for _, m := range ms {
						alias := m[2]
						if done[alias] {
							continue
						}
						done[alias] = true
						uses++
						cons := fmt.Sprintf("%s writes %s.", ctx.FuncName(fobj), alias)
						seen[cons]++
						if seen[cons] > 1 {
							cons = fmt.Sprintf("%s #%d", cons, seen[cons])
						}
						okReg := false
						for _, c := range regs[alias] {
							// the registration runs whenever the literal is written: its block encloses the literal
							for q := parents[ast.Node(c)]; q != nil; q = parents[q] {
								if b, ok := q.(*ast.BlockStmt); ok {
									if b.Pos() <= lit.Pos() && lit.End() <= b.End() {
										okReg = true
									}
									break
								}
							}
						}
						r.Check(okReg, "imports/qualified-name-registered", cons, lit.Pos(), "the function registers the import of "+alias+" in a block enclosing the literal",
							fmt.Sprintf("the literal %s puts the qualified name %s.… into generated %s code but no call in %s registers that import on the same path: the module is imported only if some other construct of the same file happens to need it — otherwise the generated file refers to an undefined name", lit.Value, alias, il.lang, ctx.FuncName(fobj)))
					}
					return true
				})
			}
		}

		// (b) templates: text using a qualified name
		fileOf := func(tree string) string { return ts.file[tree] }
		// registrations per file, with the lists that hold them
		for _, name := range ts.names() {
			rel := strings.TrimPrefix(fileOf(name), "internal/jennies/"+il.lang+"/templates/")
			standalone := false
			for _, pre := range il.standalone {
				if strings.HasPrefix(rel, pre) {
					standalone = true
				}
			}
			if standalone {
				continue
			}
			used := map[string]parse.Node{}
			walkTmpl(ts.trees[name].Root, func(m parse.Node) bool {
				if tx, ok := m.(*parse.TextNode); ok {
					for _, mm := range useRe.FindAllStringSubmatch(string(tx.Text), -1) {
						if _, ok := used[mm[2]]; !ok {
							used[mm[2]] = tx
						}
					}
				}
				return true
			})
			var as []string
			for a := range used {
				as = append(as, a)
			}
			sort.Strings(as)
			for _, alias := range as {
				uses++
				cons := fmt.Sprintf("%s template %s (%s) writes %s.", il.lang, name, rel, alias)
				// registered by an action of the same file that is not nested in a conditional
				okReg, how := false, ""
				for _, other := range ts.names() {
					if fileOf(other) != fileOf(name) {
						continue
					}
					for _, act := range tmplReg[other][alias] {
						if !tmplNestedInConditional(ts.trees[other].Root, act) {
							okReg, how = true, "registered by an unconditional action of the same file ("+other+")"
						}
					}
					// conditional registration: accepted when the use sits in the same conditional list
					if !okReg && other == name {
						for _, act := range tmplReg[other][alias] {
							if l := tmplEnclosingList(ts.trees[name].Root, act); l != nil && tmplContains(l, used[alias]) {
								okReg, how = true, "registered in the conditional block that also writes the name"
							}
						}
					}
				}
				// registered on every path that reaches this define: each `template "<name>"` call of the file sits in a
				// list (or below a list) that holds a registration, or in a define that itself inherits it
				if !okReg && c02InheritsRegistration(ts, tmplReg, name, alias, map[string]bool{}) {
					okReg, how = true, "every template call reaching this define is made where the import is already registered"
				}
				// registered by the Go function that renders this directory
				if !okReg {
					for pre, fns := range il.renderers {
						if !strings.HasPrefix(rel, pre) {
							continue
						}
						for _, fnName := range fns {
							if c02RendererRegisters(ctx, p, il, fnName, alias) {
								okReg, how = true, "registered unconditionally by the renderer "+fnName
							}
						}
					}
				}
				r.Check(okReg, "imports/qualified-name-registered", cons, token.NoPos, how,
					fmt.Sprintf("%s: the template writes %s.… into generated code but neither an unconditional import action of that file nor its renderer registers the import: the name is undefined unless something else imports it", ts.posOf(ctx, name, used[alias]), alias))
			}
		}
	}
	r.Count("qualified names written by jennies and templates", uses)
	r.Floor("qualified names written by jennies and templates", 25)
}

func c02RendererRegisters(ctx *Ctx, p *packages.Package, il importLang, fnName, alias string) bool {
	found := false
	for _, f := range p.Syntax {
		for _, d := range f.Decls {
			fd, ok := d.(*ast.FuncDecl)
			if !ok || fd.Body == nil {
				continue
			}
			obj, _ := p.TypesInfo.Defs[fd.Name].(*types.Func)
			if obj == nil || ctx.FuncName(obj) != fnName {
				continue
			}
			// top-level statements only
			for _, st := range fd.Body.List {
				es, ok := st.(*ast.ExprStmt)
				if !ok {
					continue
				}
				for a := range registrationsIn(p.TypesInfo, es, il) {
					if a == alias {
						found = true
					}
				}
			}
		}
	}
	return found
}

func tmplEnclosingList(root parse.Node, target parse.Node) *parse.ListNode {
	var found *parse.ListNode
	var rec func(l *parse.ListNode) bool
	contains := func(n parse.Node) bool {
		hit := false
		walkTmpl(n, func(m parse.Node) bool {
			if m == target {
				hit = true
			}
			return !hit
		})
		return hit
	}
	rec = func(l *parse.ListNode) bool {
		if l == nil {
			return false
		}
		for _, n := range l.Nodes {
			if !contains(n) {
				continue
			}
			switch x := n.(type) {
			case *parse.IfNode:
				if rec(x.List) || rec(x.ElseList) {
					return true
				}
			case *parse.RangeNode:
				if rec(x.List) || rec(x.ElseList) {
					return true
				}
			case *parse.WithNode:
				if rec(x.List) || rec(x.ElseList) {
					return true
				}
			}
			found = l
			return true
		}
		return false
	}
	if l, ok := root.(*parse.ListNode); ok {
		rec(l)
	}
	return found
}

func tmplContains(l *parse.ListNode, target parse.Node) bool {
	hit := false
	walkTmpl(l, func(m parse.Node) bool {
		if m == target {
			hit = true
		}
		return !hit
	})
	return hit
}

func tmplNestedInConditional(root parse.Node, target parse.Node) bool {
	l := tmplEnclosingList(root, target)
	rl, _ := root.(*parse.ListNode)
	return l != nil && l != rl
}

// c02InheritsRegistration: every call site of define `name` (in templates of the same file) is dominated by a
// registration of alias: the registering action sits in the list of the call or in an enclosing list, or the calling
// define inherits the registration itself. A define without template call sites inherits nothing.
func c02InheritsRegistration(ts *tmplSet, tmplReg map[string]map[string][]parse.Node, name, alias string, visiting map[string]bool) bool {
	if visiting[name] {
		return true // recursive call: decided by the other call sites
	}
	visiting[name] = true
	defer delete(visiting, name)
	sites := 0
	for _, caller := range ts.names() {
		if ts.file[caller] != ts.file[name] {
			continue
		}
		root := ts.trees[caller].Root
		var calls []parse.Node
		walkTmpl(root, func(m parse.Node) bool {
			if tn, ok := m.(*parse.TemplateNode); ok && tn.Name == name {
				calls = append(calls, tn)
			}
			return true
		})
		for _, call := range calls {
			sites++
			dominated := false
			for _, act := range tmplReg[caller][alias] {
				// the registration's list encloses the call
				if l := tmplEnclosingList(root, act); l != nil && tmplContains(l, call) {
					dominated = true
				}
			}
			if !dominated && caller != name && c02InheritsRegistration(ts, tmplReg, caller, alias, visiting) {
				dominated = true
			}
			if !dominated && caller == name {
				dominated = true // self-recursion
			}
			if !dominated {
				return false
			}
		}
	}
	return sites > 0
}

// ---------------------------------------------------------------------------
// rules added after the second round of independent seeds

// c02RuntimeGuard: a Go renderer whose template imports the generated runtime package (`importPkg "cog"`) is only called
// under a condition one of whose conjuncts is `!…SkipRuntime` (with skip_runtime the package `cog` is not generated):
// directly, or because its caller is.
func c02RuntimeGuard(ctx *Ctx, r *Report) {
	p := ctx.Pkg("internal/jennies/golang")
	if p == nil {
		return
	}
	info := p.TypesInfo
	ts, err := loadTemplates(ctx, "golang")
	if err != nil {
		return
	}
	// template files that register cog (any tree of the file)
	cogFiles := map[string]bool{}
	for _, name := range ts.names() {
		walkTmpl(ts.trees[name].Root, func(m parse.Node) bool {
			if cmd, ok := m.(*parse.CommandNode); ok && len(cmd.Args) >= 2 {
				if id, ok := cmd.Args[0].(*parse.IdentifierNode); ok && id.Ident == "importPkg" {
					if s, ok := cmd.Args[1].(*parse.StringNode); ok && s.Text == "cog" {
						cogFiles[strings.TrimPrefix(ts.file[name], "internal/jennies/golang/templates/")] = true
					}
				}
			}
			return true
		})
	}
	// functions naming one of those files
	using := map[*types.Func]string{}
	decls := map[*types.Func]*ast.FuncDecl{}
	for _, f := range p.Syntax {
		for _, d := range f.Decls {
			fd, ok := d.(*ast.FuncDecl)
			if !ok || fd.Body == nil {
				continue
			}
			fobj, _ := info.Defs[fd.Name].(*types.Func)
			decls[fobj] = fd
			ast.Inspect(fd.Body, func(m ast.Node) bool {
				if lit, ok := m.(*ast.BasicLit); ok && lit.Kind == token.STRING {
					if cogFiles[strings.Trim(lit.Value, "\"")] {
						using[fobj] = strings.Trim(lit.Value, "\"")
					}
				}
				return true
			})
		}
	}
	hasSkipConjunct := func(cond ast.Expr) bool {
		var conj func(e ast.Expr) bool
		conj = func(e ast.Expr) bool {
			e = ast.Unparen(e)
			if be, ok := e.(*ast.BinaryExpr); ok && be.Op == token.LAND {
				return conj(be.X) || conj(be.Y)
			}
			if u, ok := e.(*ast.UnaryExpr); ok && u.Op == token.NOT {
				return strings.HasSuffix(exprString(u.X), ".SkipRuntime")
			}
			return false
		}
		return conj(cond)
	}
	n := 0
	var guardedCall func(fn *types.Func, depth int) (bool, string)
	guardedCall = func(fn *types.Func, depth int) (bool, string) {
		sites := 0
		for caller, fd := range decls {
			parents := parentMap(fd)
			var bad string
			ast.Inspect(fd.Body, func(m ast.Node) bool {
				c, ok := m.(*ast.CallExpr)
				if !ok || callee(info, c) != fn {
					return true
				}
				sites++
				ok2 := false
				for _, ce := range enclosingConds(parents, c) {
					if !ce.inElse && hasSkipConjunct(ce.stmt.Cond) {
						ok2 = true
					}
				}
				if !ok2 && depth < 2 {
					// the caller itself is only called under the guard
					if g, _ := guardedCall(caller, depth+1); g {
						ok2 = true
					}
				}
				if !ok2 {
					bad = ctx.FuncName(caller) + " at " + ctx.Pos(c.Pos())
				}
				return true
			})
			if bad != "" {
				return false, bad
			}
		}
		return sites > 0, ""
	}
	var fns []*types.Func
	for fn := range using {
		fns = append(fns, fn)
	}
	sort.Slice(fns, func(i, j int) bool { return fns[i].FullName() < fns[j].FullName() })
	for _, fn := range fns {
		// the Builder / Converter jennies are only instantiated under !config.SkipRuntime (jennies.go: common.If(…)): their
		// renderers are methods of those types
		if sig := fn.Type().(*types.Signature); sig.Recv() != nil {
			rt := strings.TrimPrefix(sig.Recv().Type().String(), "*")
			if strings.HasSuffix(rt, ".Builder") || strings.HasSuffix(rt, ".Converter") {
				continue
			}
		}
		n++
		ok2, where := guardedCall(fn, 0)
		r.Check(ok2, "options/runtime-guard", ctx.FuncName(fn)+" (renders "+using[fn]+")", decls[fn].Pos(), "every call is made under a conjunction containing !…SkipRuntime",
			fmt.Sprintf("%s renders %s, which imports the generated runtime package `cog`, and is called without `!SkipRuntime` among the conjuncts of its condition (%s): with skip_runtime the run succeeds and the emitted package imports a package that was not generated", ctx.FuncName(fn), using[fn], where))
	}
	r.Count("Go renderers that import the runtime", n)
	r.Floor("Go renderers that import the runtime", 2)
}

// c02SortedSearch: a slice literal searched with sort.SearchStrings / sort.SearchInts / slices.BinarySearch is sorted.
func c02SortedSearch(ctx *Ctx, r *Report) {
	n := 0
	ctx.AllFuncDecls(func(p *packages.Package, fd *ast.FuncDecl, obj *types.Func) {
		if fd.Body == nil {
			return
		}
		info := p.TypesInfo
		ast.Inspect(fd.Body, func(m ast.Node) bool {
			c, ok := m.(*ast.CallExpr)
			if !ok || len(c.Args) < 2 {
				return true
			}
			fn := callee(info, c)
			if fn == nil {
				return true
			}
			switch fn.FullName() {
			case "sort.SearchStrings", "sort.SearchInts", "slices.BinarySearch", "sort.SearchFloat64s":
			default:
				return true
			}
			n++
			// the haystack: a package-level variable or a local bound to a literal
			var lit *ast.CompositeLit
			if id, ok := ast.Unparen(c.Args[0]).(*ast.Ident); ok {
				if v, ok := objOf(info, id).(*types.Var); ok {
					for _, f := range p.Syntax {
						ast.Inspect(f, func(k ast.Node) bool {
							if vs, ok := k.(*ast.ValueSpec); ok {
								for i, nm := range vs.Names {
									if info.Defs[nm] == v && i < len(vs.Values) {
										if cl, ok := vs.Values[i].(*ast.CompositeLit); ok {
											lit = cl
										}
									}
								}
							}
							return true
						})
					}
				}
			}
			if lit == nil {
				return true // sorted at run time or not a literal: not decided here
			}
			var vals []string
			for _, e := range lit.Elts {
				if tv, ok := info.Types[e]; ok && tv.Value != nil {
					vals = append(vals, tv.Value.ExactString())
				}
			}
			sorted := sort.SliceIsSorted(vals, func(i, j int) bool { return vals[i] < vals[j] })
			r.Check(sorted && len(vals) == len(lit.Elts), "lint/binary-search-sorted", ctx.FuncName(obj)+" searches "+exprString(c.Args[0]), c.Pos(), "the literal is sorted",
				fmt.Sprintf("%s does a binary search over the literal %s, which is not sorted: some elements are never found", ctx.FuncName(obj), exprString(c.Args[0])))
			return true
		})
	})
	r.Count("binary searches", n)
}

// c02TypedListLiterals: golang.formatScalar prints every list as `[]string{…}` (it has no access to the element type). A
// default value — `<type>.Default`, an entry of a struct-default override map — may be a list of anything: it must be
// formatted by formatDefaultValue, which takes the literal's type from the field, never handed to formatScalar directly.
func c02TypedListLiterals(ctx *Ctx, r *Report) {
	p := ctx.Pkg("internal/jennies/golang")
	if p == nil {
		return
	}
	info := p.TypesInfo
	defaultF := astField(ctx, "Type", "Default")
	n := 0
	for _, f := range p.Syntax {
		for _, d := range f.Decls {
			fd, ok := d.(*ast.FuncDecl)
			if !ok || fd.Body == nil || fd.Name.Name == "formatDefaultValue" || fd.Name.Name == "formatScalar" {
				continue
			}
			fobj, _ := info.Defs[fd.Name].(*types.Func)
			// locals bound to an element of a map[string]any (override maps)
			overrideVals := map[types.Object]bool{}
			ast.Inspect(fd.Body, func(m ast.Node) bool {
				as, ok := m.(*ast.AssignStmt)
				if !ok || len(as.Rhs) != 1 {
					return true
				}
				if ix, ok := ast.Unparen(as.Rhs[0]).(*ast.IndexExpr); ok {
					if mt, ok := info.TypeOf(ix.X).Underlying().(*types.Map); ok && isEmptyInterface(mt.Elem()) {
						if id, ok := as.Lhs[0].(*ast.Ident); ok {
							overrideVals[objOf(info, id)] = true
						}
					}
				}
				return true
			})
			k := 0
			ast.Inspect(fd.Body, func(m ast.Node) bool {
				c, ok := m.(*ast.CallExpr)
				if !ok || len(c.Args) != 1 {
					return true
				}
				fn := callee(info, c)
				if fn == nil || fn.Name() != "formatScalar" || fn.Pkg() != p.Types {
					return true
				}
				n++
				arg := ast.Unparen(c.Args[0])
				bad := ""
				if s, ok := arg.(*ast.SelectorExpr); ok && fieldOf(info, s) == defaultF {
					bad = exprString(arg)
				}
				if id, ok := arg.(*ast.Ident); ok && overrideVals[objOf(info, id)] {
					bad = exprString(arg) + " (an entry of a struct-default override map)"
				}
				k++
				r.Check(bad == "", "kinds/typed-list-literal", fmt.Sprintf("%s formatScalar call #%d", ctx.FuncName(fobj), k), c.Pos(), "the value is not a default that may be a list",
					fmt.Sprintf("%s hands the default value %s to formatScalar, which prints every list as `[]string{…}`: a default that is a list of numbers / booleans yields a literal of the wrong type and the generated package does not compile", ctx.FuncName(fobj), bad))
				return true
			})
		}
	}
	r.Count("formatScalar calls in the Go jenny", n)
	r.Floor("formatScalar calls in the Go jenny", 4)
}

// c02GuardChainAgreement: a loop body of the form
//
//	needs := A || B || …;  if !needs { continue };  if C1 {…} else if C2 {…} … else { <fallback> }
//
// selects with `needs` the values for which something is emitted and produces it in the chain. Every disjunct of the
// guard that names a kind must be answered by a branch of the chain: a branch all of whose conjuncts are conjuncts of the
// disjunct (so the disjunct implies it). Otherwise the guard lets through values only the fallback — a placeholder text —
// answers. Disjuncts that name no kind (a default is present, an override exists) are the domain of kinds/dispatch-total.
func c02GuardChainAgreement(ctx *Ctx, r *Report) {
	ka := newKindAnalysis(ctx)
	exactPred := map[string]string{}
	for k, v := range kindOfPredicateExact {
		exactPred[v] = k
	}
	n := 0
	for _, p := range ctx.Pkgs {
		if !strings.Contains(p.PkgPath, "/internal/jennies/") {
			continue
		}
		info := p.TypesInfo
		atom := func(e ast.Expr) (string, bool) {
			e = ast.Unparen(e)
			if c, ok := e.(*ast.CallExpr); ok {
				if sel, ok := c.Fun.(*ast.SelectorExpr); ok && len(c.Args) == 0 {
					if fn := callee(info, c); fn != nil && ka.predicates[fn.Origin()] != "" {
						return "is:" + fn.Name() + ":" + exprString(sel.X), true
					}
				}
			}
			if be, ok := e.(*ast.BinaryExpr); ok && be.Op == token.EQL {
				for _, pr := range [][2]ast.Expr{{be.X, be.Y}, {be.Y, be.X}} {
					if s, ok := ast.Unparen(pr[0]).(*ast.SelectorExpr); ok && s.Sel.Name == "Kind" && namedOf(info.TypeOf(s.X)) == ka.typeT {
						name := ""
						switch c := ast.Unparen(pr[1]).(type) {
						case *ast.SelectorExpr:
							name = c.Sel.Name
						case *ast.Ident:
							name = c.Name
						}
						if k := kindOfConst[name]; k != "" && exactPred[k] != "" {
							return "is:" + exactPred[k] + ":" + exprString(s.X), true
						}
					}
				}
			}
			return exprString(e), false
		}
		var split func(e ast.Expr, op token.Token) []ast.Expr
		split = func(e ast.Expr, op token.Token) []ast.Expr {
			e = ast.Unparen(e)
			if be, ok := e.(*ast.BinaryExpr); ok && be.Op == op {
				return append(split(be.X, op), split(be.Y, op)...)
			}
			return []ast.Expr{e}
		}
		for _, f := range p.Syntax {
			for _, d := range f.Decls {
				fd, ok := d.(*ast.FuncDecl)
				if !ok || fd.Body == nil {
					continue
				}
				fobj, _ := info.Defs[fd.Name].(*types.Func)
				ast.Inspect(fd.Body, func(m ast.Node) bool {
					blk, ok := m.(*ast.BlockStmt)
					if !ok {
						return true
					}
					for i, st := range blk.List {
						as, ok := st.(*ast.AssignStmt)
						if !ok || as.Tok != token.DEFINE || len(as.Lhs) != 1 || len(as.Rhs) != 1 {
							continue
						}
						guardVar, _ := as.Lhs[0].(*ast.Ident)
						ds := split(as.Rhs[0], token.LOR)
						if guardVar == nil || len(ds) < 2 || i+1 >= len(blk.List) {
							continue
						}
						// `if !guard { continue / return }`
						is, ok := blk.List[i+1].(*ast.IfStmt)
						if !ok || is.Else != nil || !endsInExitOrPanic(info, is.Body) {
							continue
						}
						un, ok := ast.Unparen(is.Cond).(*ast.UnaryExpr)
						if !ok || un.Op != token.NOT {
							continue
						}
						if id, ok := ast.Unparen(un.X).(*ast.Ident); !ok || objOf(info, id) != objOf(info, guardVar) {
							continue
						}
						// the chain: the first if statement after the guard with at least three branches and a final else
						var branches [][]ast.Expr
						var chainPos token.Pos
						for _, later := range blk.List[i+2:] {
							c, ok := later.(*ast.IfStmt)
							if !ok {
								continue
							}
							var conds [][]ast.Expr
							cur := c
							closed := false
							for cur != nil {
								conds = append(conds, split(cur.Cond, token.LAND))
								switch e := cur.Else.(type) {
								case *ast.IfStmt:
									cur = e
								case *ast.BlockStmt:
									closed = true
									cur = nil
								default:
									cur = nil
								}
							}
							if closed && len(conds) >= 3 {
								branches, chainPos = conds, c.Pos()
								break
							}
						}
						if branches == nil {
							continue
						}
						_ = chainPos
						for _, dj := range ds {
							cj := split(dj, token.LAND)
							have := map[string]bool{}
							kindful := false
							for _, c := range cj {
								a, isKind := atom(c)
								have[a] = true
								kindful = kindful || isKind
							}
							if !kindful {
								continue
							}
							n++
							answered := ""
							for _, br := range branches {
								all := true
								for _, c := range br {
									a, _ := atom(c)
									if !have[a] {
										all = false
										break
									}
								}
								if all {
									var parts []string
									for _, c := range br {
										parts = append(parts, exprString(c))
									}
									answered = strings.Join(parts, " && ")
									break
								}
							}
							r.Check(answered != "", "kinds/guard-chain-agreement", fmt.Sprintf("%s guard %s: %s", ctx.FuncName(fobj), guardVar.Name, exprString(dj)), dj.Pos(),
								"answered by the branch `"+answered+"`",
								fmt.Sprintf("%s lets a value through with `%s`, but no branch of the chain that follows is implied by it: such a value reaches the chain's final else (a placeholder text written into the generated code while the run reports success)", ctx.FuncName(fobj), exprString(dj)))
						}
					}
					return true
				})
			}
		}
	}
	r.Count("kind-naming guard disjuncts matched against their chain", n)
	r.Floor("kind-naming guard disjuncts matched against their chain", 1)
}

// predicates of ast.Type that are exactly `Kind == K`
var kindOfPredicateExact = map[string]string{"IsStruct": "struct", "IsEnum": "enum", "IsScalar": "scalar", "IsArray": "array", "IsMap": "map", "IsRef": "ref",
	"IsDisjunction": "disjunction", "IsIntersection": "intersection", "IsComposableSlot": "composable_slot", "IsConstantRef": "constant_ref"}

// c02PythonEscapeLast: a Python identifier is safe only if the reserved-word test is made on the text that is written.
// formatIdentifier / formatFunctionName must therefore end in the escape: the expression they return is a call of a
// function of the package that tests its own parameter with isReservedPythonKeyword — any transformation applied after it
// (snake-casing, trimming of `$` / `_`) can produce a reserved word again (`From` → `from`, `$in` → `in`).
func c02PythonEscapeLast(ctx *Ctx, r *Report) {
	p := ctx.Pkg("internal/jennies/python")
	if p == nil {
		r.Undecided("anchor lost: internal/jennies/python")
		return
	}
	info := p.TypesInfo
	kw := ctx.LookupFunc("internal/jennies/python", "isReservedPythonKeyword")
	if kw == nil {
		r.Undecided("anchor lost: python.isReservedPythonKeyword")
		return
	}
	testsOwnParam := func(fn *types.Func) bool {
		fd, _ := ctx.DeclOf(fn)
		if fd == nil || fd.Body == nil || fd.Type.Params.NumFields() != 1 || len(fd.Type.Params.List[0].Names) != 1 {
			return false
		}
		param := info.Defs[fd.Type.Params.List[0].Names[0]]
		ok := false
		ast.Inspect(fd.Body, func(m ast.Node) bool {
			if c, isCall := m.(*ast.CallExpr); isCall && callee(info, c) == kw && len(c.Args) == 1 {
				if id, isID := ast.Unparen(c.Args[0]).(*ast.Ident); isID && objOf(info, id) == param {
					ok = true
				}
			}
			return true
		})
		return ok
	}
	n := 0
	for _, name := range []string{"formatIdentifier", "formatFunctionName"} {
		fn := ctx.LookupFunc("internal/jennies/python", name)
		fd, _ := ctx.DeclOf(fn)
		if fd == nil {
			r.Undecided("anchor lost: python.%s", name)
			continue
		}
		ast.Inspect(fd.Body, func(m ast.Node) bool {
			rs, ok := m.(*ast.ReturnStmt)
			if !ok || len(rs.Results) != 1 {
				return true
			}
			n++
			last := ""
			if c, ok := ast.Unparen(rs.Results[0]).(*ast.CallExpr); ok {
				if f := callee(info, c); f != nil && f.Pkg() == p.Types && testsOwnParam(f) {
					last = f.Name()
				}
			}
			r.Check(last != "", "skeleton/python-escape-last", "python."+name+" result", rs.Pos(), "the last transformation is the reserved-word escape ("+last+")",
				fmt.Sprintf("python.%s returns %s: the reserved-word test is not the last transformation, so the text that is written can be a Python keyword again (`From` → `from`, `$in` → `in`): the generated module does not compile while the run succeeds", name, exprString(rs.Results[0])))
			return true
		})
	}
	r.Count("results of the python identifier formatters", n)
	r.Floor("results of the python identifier formatters", 2)
	// `self` is no keyword, but every generated method declares it as its first parameter and __init__ / the options
	// list the fields / arguments after it: the escape that runs last must cover it too.
	selfDefs := 0
	for _, f := range p.Syntax {
		ast.Inspect(f, func(m ast.Node) bool {
			if lit, ok := m.(*ast.BasicLit); ok && lit.Kind == token.STRING && strings.Contains(lit.Value, "(self, ") {
				selfDefs++
			}
			return true
		})
	}
	if ts, err := loadTemplates(ctx, "python"); err == nil {
		for _, name := range ts.names() {
			walkTmpl(ts.trees[name].Root, func(m parse.Node) bool {
				if t, ok := m.(*parse.TextNode); ok && strings.Contains(string(t.Text), "(self, ") {
					selfDefs++
				}
				return true
			})
		}
	}
	r.Count("python method definitions listing generated parameters after self", selfDefs)
	if selfDefs > 0 {
		covered := false
		for _, name := range []string{"escapeKeyword", "isReservedPythonKeyword"} {
			fd, _ := ctx.DeclOf(ctx.LookupFunc("internal/jennies/python", name))
			if fd == nil || fd.Body == nil {
				continue
			}
			ast.Inspect(fd.Body, func(m ast.Node) bool {
				if lit, ok := m.(*ast.BasicLit); ok && lit.Kind == token.STRING && lit.Value == `"self"` {
					covered = true
				}
				return true
			})
		}
		r.Check(covered, "skeleton/python-self-escaped", "python identifier escape covers self", token.NoPos, "the escape that runs last tests the name against \"self\"",
			"the python jenny writes methods whose parameters are `self` followed by generated names, and neither escapeKeyword nor isReservedPythonKeyword knows `self`: a field or argument named self gives `def __init__(self, self: …)` — SyntaxError: duplicate argument — while the run succeeds")
	}
	c02EscapeLastIn(ctx, r, "internal/jennies/typescript", "isReservedTypescriptKeyword", []string{"formatIdentifier"})
	c02EscapeLastIn(ctx, r, "internal/jennies/golang", "isReservedGoKeyword", []string{"formatArgName", "formatVarName"})
	c02EscapeLastIn(ctx, r, "internal/jennies/java", "isReservedJavaKeyword", []string{"formatArgName", "formatFieldName"})
}

// c02EscapeLastIn: the same obligation for the other languages that have a reserved-word table.
func c02EscapeLastIn(ctx *Ctx, r *Report, rel, kwName string, formatters []string) {
	p := ctx.Pkg(rel)
	kw := ctx.LookupFunc(rel, kwName)
	if p == nil || kw == nil {
		r.Undecided("anchor lost: %s.%s", rel, kwName)
		return
	}
	info := p.TypesInfo
	lang := rel[strings.LastIndex(rel, "/")+1:]
	testsOwnParam := func(fn *types.Func) bool {
		fd, _ := ctx.DeclOf(fn)
		if fd == nil || fd.Body == nil || fd.Type.Params.NumFields() != 1 || len(fd.Type.Params.List[0].Names) != 1 {
			return false
		}
		param := info.Defs[fd.Type.Params.List[0].Names[0]]
		ok := false
		ast.Inspect(fd.Body, func(m ast.Node) bool {
			if c, isCall := m.(*ast.CallExpr); isCall && callee(info, c) == kw && len(c.Args) == 1 {
				if id, isID := ast.Unparen(c.Args[0]).(*ast.Ident); isID && objOf(info, id) == param {
					ok = true
				}
			}
			return true
		})
		return ok
	}
	for _, name := range formatters {
		fn := ctx.LookupFunc(rel, name)
		fd, _ := ctx.DeclOf(fn)
		if fd == nil {
			r.Undecided("anchor lost: %s.%s", lang, name)
			continue
		}
		ast.Inspect(fd.Body, func(m ast.Node) bool {
			rs, ok := m.(*ast.ReturnStmt)
			if !ok || len(rs.Results) != 1 {
				return true
			}
			last := ""
			if c, ok := ast.Unparen(rs.Results[0]).(*ast.CallExpr); ok {
				if f := callee(info, c); f != nil && f.Pkg() == p.Types && testsOwnParam(f) {
					last = f.Name()
				}
			}
			r.Count("results of the identifier formatters of the other languages", 1)
			r.Check(last != "", "skeleton/escape-last", lang+"."+name+" result", rs.Pos(), "the last transformation is the reserved-word escape ("+last+")",
				fmt.Sprintf("%s.%s returns %s: the reserved-word test is not the last transformation, so the text that is written can be a reserved word again (`Class` → `class`): the generated code does not compile while the run succeeds", lang, name, exprString(rs.Results[0])))
			return true
		})
	}
}

// c02GoQualifiedIdentifiers: formatRef / formatType return a possibly package-qualified name (`common.Person`). Gluing
// a prefix in front of such a text ("New" + …, fmt.Sprintf("New%s", …)) qualifies the wrong thing: `Newcommon.Person()`
// parses, passes goimports and does not compile. A derived identifier must be built from the bare object name and
// qualified afterwards.
func c02GoQualifiedIdentifiers(ctx *Ctx, r *Report) {
	p := ctx.Pkg("internal/jennies/golang")
	if p == nil {
		return
	}
	info := p.TypesInfo
	qualified := func(e ast.Expr) string {
		found := ""
		ast.Inspect(e, func(q ast.Node) bool {
			if c, ok := q.(*ast.CallExpr); ok {
				if fn := callee(info, c); fn != nil && fn.Pkg() == p.Types {
					switch fn.Name() {
					case "formatRef", "formatType", "doFormatType", "formatTypeDeclaration":
						if found == "" {
							found = fn.Name()
						}
					}
				}
			}
			return true
		})
		return found
	}
	n := 0
	ctxFunc := ""
	for _, file := range p.Syntax {
		ast.Inspect(file, func(m ast.Node) bool {
			if fd, ok := m.(*ast.FuncDecl); ok {
				ctxFunc = fd.Name.Name
			}
			switch x := m.(type) {
			case *ast.BinaryExpr:
				// "Prefix" + <qualified>
				if x.Op != token.ADD {
					return true
				}
				lit, ok := ast.Unparen(x.X).(*ast.BasicLit)
				if !ok || lit.Kind != token.STRING {
					return true
				}
				v := ""
				if tv, ok := info.Types[lit]; ok && tv.Value != nil && tv.Value.Kind() == constant.String {
					v = constant.StringVal(tv.Value)
				}
				if v == "" || !isIdentTail(v) {
					return true
				}
				if q := qualified(x.Y); q != "" {
					n++
					r.Bad("skeleton/go-qualified-identifier", fmt.Sprintf("golang.%s prefixes %s", ctxFunc, q), x.Pos(),
						fmt.Sprintf("golang.%s glues %s in front of the result of %s, which is package-qualified for objects of another package: `%s` + `common.Person` is `%scommon.Person` — it parses, goimports accepts it, and the package does not compile", ctxFunc, lit.Value, q, v, v))
				}
			case *ast.CallExpr:
				fn := callee(info, x)
				if fn == nil || fn.FullName() != "fmt.Sprintf" || len(x.Args) < 2 {
					return true
				}
				lit, ok := ast.Unparen(x.Args[0]).(*ast.BasicLit)
				if !ok {
					return true
				}
				format := ""
				if tv, ok := info.Types[lit]; ok && tv.Value != nil && tv.Value.Kind() == constant.String {
					format = constant.StringVal(tv.Value)
				}
				// verbs in order; the text right before each
				idx := 0
				for i := 0; i < len(format); i++ {
					if format[i] != '%' || i+1 >= len(format) {
						continue
					}
					j := i + 1
					argIdx := idx
					if format[j] == '[' {
						k := strings.IndexByte(format[j:], ']')
						if k > 0 {
							fmt.Sscanf(format[j+1:j+k], "%d", &argIdx)
							argIdx--
							j += k + 1
						}
					}
					if j >= len(format) {
						break
					}
					if format[j] == '%' {
						i = j
						continue
					}
					idx = argIdx + 1
					if i > 0 && isIdentChar(format[i-1]) && argIdx+1 < len(x.Args) {
						if q := qualified(x.Args[argIdx+1]); q != "" {
							n++
							r.Bad("skeleton/go-qualified-identifier", fmt.Sprintf("golang.%s prefixes %s", ctxFunc, q), x.Pos(),
								fmt.Sprintf("golang.%s writes the result of %s right after identifier characters (format %s): for an object of another package the result is `pkg.Name` and the emitted identifier becomes `…pkg.Name` — it parses, goimports accepts it, and the package does not compile", ctxFunc, q, lit.Value))
						}
					}
					i = j
				}
			}
			return true
		})
	}
	r.Count("identifiers glued to a package-qualified name in the Go jenny", n)
	if n == 0 {
		r.OK("skeleton/go-qualified-identifier", "golang jenny", token.NoPos, "no identifier is built by prefixing a package-qualified name")
	}
}

func isIdentChar(c byte) bool {
	return c == '_' || c >= '0' && c <= '9' || c >= 'a' && c <= 'z' || c >= 'A' && c <= 'Z'
}

func isIdentTail(s string) bool { return s != "" && isIdentChar(s[len(s)-1]) }

// c02PythonValueFormatter: python.formatValue renders the values of defaults. Its fall-through is Go's `%#v`, which is
// only valid Python for numbers and strings: every composite shape a default can take (list, map) needs a case of its
// own before it — a map printed with %#v is `map[string]interface {}{…}`, a SyntaxError in a module the run reports as
// generated.
func c02PythonValueFormatter(ctx *Ctx, r *Report) {
	fn := ctx.LookupFunc("internal/jennies/python", "formatValue")
	fd, _ := ctx.DeclOf(fn)
	if fd == nil {
		r.Undecided("anchor lost: python.formatValue")
		return
	}
	cases := map[string]bool{}
	ast.Inspect(fd.Body, func(m ast.Node) bool {
		if ta, ok := m.(*ast.TypeAssertExpr); ok && ta.Type != nil {
			cases[exprString(ta.Type)] = true
		}
		if cc, ok := m.(*ast.CaseClause); ok {
			for _, e := range cc.List {
				cases[exprString(e)] = true
			}
		}
		return true
	})
	for _, want := range []struct{ typ, what string }{{"[]any", "lists"}, {"map[string]any", "maps (objects)"}, {"bool", "booleans"}} {
		r.Count("shapes of default values the python formatter must handle", 1)
		has := cases[want.typ] || cases[strings.ReplaceAll(want.typ, "any", "interface{}")]
		r.Check(has, "kinds/python-value-formatter", "python.formatValue handles "+want.typ, fd.Pos(), "a case of its own before the %#v fall-through",
			"python.formatValue has no case for "+want.what+" ("+want.typ+"): such a default is printed with Go's %#v — `map[string]interface {}{\"a\":\"b\"}` / `true` — which is not Python: the module does not compile while the run succeeds")
	}
}

// c02GoImportsUsed: the converse of c02Imports for Go, where an import that is not used is a compile error (only
// the optional goimports post-processing hides it): every `$v := importStdPkg "path"` / `importPkg "name"` action of
// the Go templates is followed, in the branch that executes it, by a use of the package — the literal text
// `name.`, a string constant of an action containing it, or the variable itself.
func c02GoImportsUsed(ctx *Ctx, r *Report) {
	ts, err := loadTemplates(ctx, "golang")
	if err != nil {
		r.Undecided("cannot parse golang templates: %v", err)
		return
	}
	n := 0
	for _, name := range ts.names() {
		tree := ts.trees[name]
		seen := map[string]int{}
		var visit func(list *parse.ListNode)
		visit = func(list *parse.ListNode) {
			if list == nil {
				return
			}
			for i, node := range list.Nodes {
				switch x := node.(type) {
				case *parse.IfNode:
					visit(x.List)
					visit(x.ElseList)
				case *parse.RangeNode:
					visit(x.List)
					visit(x.ElseList)
				case *parse.WithNode:
					visit(x.List)
					visit(x.ElseList)
				case *parse.ActionNode:
					if len(x.Pipe.Decl) != 1 || len(x.Pipe.Cmds) != 1 {
						continue
					}
					args := x.Pipe.Cmds[0].Args
					if len(args) != 2 {
						continue
					}
					id, ok := args[0].(*parse.IdentifierNode)
					if !ok || (id.Ident != "importStdPkg" && id.Ident != "importPkg") {
						continue
					}
					lit, ok := args[1].(*parse.StringNode)
					if !ok {
						continue
					}
					n++
					pkg := lit.Text
					if k := strings.LastIndex(pkg, "/"); k >= 0 {
						pkg = pkg[k+1:]
					}
					v := x.Pipe.Decl[0].Ident[0]
					used := false
					for j, other := range list.Nodes {
						if j == i {
							continue
						}
						walkTmpl(other, func(m parse.Node) bool {
							switch y := m.(type) {
							case *parse.TextNode:
								if strings.Contains(string(y.Text), pkg+".") {
									used = true
								}
							case *parse.StringNode:
								if strings.Contains(y.Text, pkg+".") {
									used = true
								}
							case *parse.VariableNode:
								if len(y.Ident) > 0 && y.Ident[0] == v {
									used = true
								}
							}
							return !used
						})
					}
					key := fmt.Sprintf("golang %s imports %q", name, lit.Text)
					seen[key]++
					cons := key
					if seen[key] > 1 {
						cons = fmt.Sprintf("%s #%d", key, seen[key])
					}
					r.Check(used, "skeleton/go-import-used", cons, token.NoPos, ts.posOf(ctx, name, x)+": the branch that registers the import also writes `"+pkg+".`",
						ts.posOf(ctx, name, x)+": the template registers the import of "+lit.Text+" but nothing in the branch that executes this action uses the package: the emitted file has an unused import, a compile error unless the optional goimports post-processing removes it (skip_post_formatting: true)")
				}
			}
		}
		visit(tree.Root)
	}
	r.Count("import registrations in the Go templates", n)
	r.Floor("import registrations in the Go templates", 20)
}

// c02PythonIdentifierCharacters: a wire name is any string (`@type`, `a.b`, `1st`); a Python identifier is not. The
// case conversions of the python jenny only understand spaces, `-` and `_`: every formatter that produces an attribute,
// an argument, an enum member or a local name from a wire name passes it through the character sanitiser first, and
// the name of the local decoding map is derived from a formatted identifier, not from the raw field name.
func c02PythonIdentifierCharacters(ctx *Ctx, r *Report) {
	p := ctx.Pkg("internal/jennies/python")
	san := ctx.LookupFunc("internal/jennies/python", "identifierCharacters")
	if p == nil {
		r.Undecided("anchor lost: internal/jennies/python")
		return
	}
	info := p.TypesInfo
	for _, name := range []string{"formatIdentifier", "formatEnumMemberName"} {
		fn := ctx.LookupFunc("internal/jennies/python", name)
		fd, _ := ctx.DeclOf(fn)
		if fd == nil || fd.Body == nil {
			r.Undecided("anchor lost: python.%s", name)
			continue
		}
		calls := false
		ast.Inspect(fd.Body, func(m ast.Node) bool {
			if c, ok := m.(*ast.CallExpr); ok && san != nil && callee(info, c) == san {
				calls = true
			}
			return true
		})
		r.Check(calls, "skeleton/python-identifier-characters", "python."+name+" sanitises the characters of the name", fd.Pos(), "the name goes through identifierCharacters",
			"python."+name+" only changes the case of the name: a property named `@type`, `a.b` or `1st` (an enum member `1h`) is written as it is where an identifier is needed — SyntaxError when the module is imported, while the run succeeds and the Go output handles the same schema")
	}
	// the sanitiser keeps the letters Python accepts in an identifier, which are not only ASCII: a member `été`
	// turned into `_T_` is a reserved sunder name
	if sfd, _ := ctx.DeclOf(san); sfd != nil && sfd.Body != nil {
		unicodeLetters := false
		ast.Inspect(sfd.Body, func(m ast.Node) bool {
			if c, ok := m.(*ast.CallExpr); ok {
				if f := callee(info, c); f != nil && f.Pkg() != nil && f.Pkg().Path() == "unicode" && (f.Name() == "IsLetter" || f.Name() == "In" || f.Name() == "Is") {
					unicodeLetters = true
				}
			}
			return true
		})
		r.Check(unicodeLetters, "skeleton/python-identifier-characters", "python.identifierCharacters keeps non-ASCII letters", sfd.Pos(), "letters are recognised with the unicode package",
			"identifierCharacters replaces every character outside [A-Za-z0-9] by an underscore: the enum member `été` becomes `_T_`, a reserved sunder name — ValueError when the models module is imported")
	}
	// the hint that names local variables of from_json
	fromJSON := ctx.LookupMethod("internal/jennies/python", "RawTypes", "fromJSONForType")
	n := 0
	ctx.AllFuncDecls(func(pk *packages.Package, fd *ast.FuncDecl, obj *types.Func) {
		if pk != p || fd.Body == nil {
			return
		}
		ast.Inspect(fd.Body, func(m ast.Node) bool {
			c, ok := m.(*ast.CallExpr)
			if !ok || fromJSON == nil || callee(info, c) != fromJSON || len(c.Args) != 4 {
				return true
			}
			hint := ast.Unparen(c.Args[3])
			if _, isParam := hint.(*ast.Ident); isParam {
				return true // forwarded
			}
			n++
			formatted := false
			if hc, ok := hint.(*ast.CallExpr); ok {
				if f := callee(info, hc); f != nil && f.Name() == "formatIdentifier" {
					formatted = true
				}
			}
			r.Check(formatted, "skeleton/python-identifier-characters", ctx.FuncName(obj)+" names from_json locals after a formatted identifier", c.Pos(), "the hint is formatIdentifier(field name)",
				"the local names of from_json (decoding_map_<hint>…) are built from "+exprString(hint)+": for a field named `my-pet` the module holds `decoding_map_my-pet_union: …` — SyntaxError")
			return true
		})
	})
	r.Count("from_json hints built from field names", n)
	r.Floor("from_json hints built from field names", 1)
}

// c02EqualityTypeChecks: the clauses of the Go equality template that decide whether the generated Equals
// type-checks (C13 decides them for equality proper): bytes compared with bytes.Equal.
func c02EqualityTypeChecks(ctx *Ctx, r *Report) {
	ts, err := loadTemplates(ctx, "golang")
	if err != nil {
		r.Undecided("cannot parse golang templates: %v", err)
		return
	}
	tree := ts.trees[recEquality.define]
	if tree == nil {
		r.Undecided("anchor lost: template %q", recEquality.define)
		return
	}
	var top *parse.IfNode
	for _, n := range tree.Root.Nodes {
		if in, ok := n.(*parse.IfNode); ok {
			top = in
			break
		}
	}
	if top == nil {
		r.Undecided("anchor lost: dispatch of %q", recEquality.define)
		return
	}
	sub := newReport(ctx, r.Property)
	c13HuntedRules(ctx, sub, ts, ifChain(top))
	for _, o := range sub.Obls {
		if o.Rule == "skeleton/equality-bytes" {
			r.Obls = append(r.Obls, o)
		}
	}
	// the nullable branches of the equality and validation templates do not compare a by-value constant reference with nil
	c13NilTestExcludesConstantRefs(ctx, r, ts, recEquality.define)
	c13NilTestExcludesConstantRefs(ctx, r, ts, recValidate.define)
}

// c02ReservedWordTables: each language with a reserved-word predicate has to know the words its grammar reserves.
// The tables below are transcribed from the language specifications (Go spec §Keywords; JLS §3.9 plus the three
// literals; Python 3 `keyword.kwlist`; ECMAScript reserved words plus the strict-mode ones — modules are strict — and
// TypeScript's `enum`); the predicate is read from the source (string constants compared with its parameter).
var c02ReservedWords = map[string][]string{
	"golang":     {"break", "case", "chan", "const", "continue", "default", "defer", "else", "fallthrough", "for", "func", "go", "goto", "if", "import", "interface", "map", "package", "range", "return", "select", "struct", "switch", "type", "var"},
	"java":       {"abstract", "assert", "boolean", "break", "byte", "case", "catch", "char", "class", "const", "continue", "default", "do", "double", "else", "enum", "extends", "final", "finally", "float", "for", "goto", "if", "implements", "import", "instanceof", "int", "interface", "long", "native", "new", "package", "private", "protected", "public", "return", "short", "static", "strictfp", "super", "switch", "synchronized", "this", "throw", "throws", "transient", "try", "void", "volatile", "while", "true", "false", "null"},
	"python":     {"False", "None", "True", "and", "as", "assert", "async", "await", "break", "class", "continue", "def", "del", "elif", "else", "except", "finally", "for", "from", "global", "if", "import", "in", "is", "lambda", "nonlocal", "not", "or", "pass", "raise", "return", "try", "while", "with", "yield"},
	"typescript": {"break", "case", "catch", "class", "const", "continue", "debugger", "default", "delete", "do", "else", "enum", "export", "extends", "false", "finally", "for", "function", "if", "import", "in", "instanceof", "new", "null", "return", "super", "switch", "this", "throw", "true", "try", "typeof", "var", "void", "while", "with", "implements", "interface", "let", "package", "private", "protected", "public", "static", "yield", "await"},
}

var c02ReservedPredicates = map[string]string{"golang": "isReservedGoKeyword", "java": "isReservedJavaKeyword", "python": "isReservedPythonKeyword", "typescript": "isReservedTypescriptKeyword"}

func c02ReservedWordTables(ctx *Ctx, r *Report) {
	// TypeScript is left out: C02 asks Go to type-check, Python to import and Java to compile; nothing here can compile TypeScript to show a failing input
	langs := []string{"golang", "java", "python"}
	for _, lang := range langs {
		fn := ctx.LookupFunc("internal/jennies/"+lang, c02ReservedPredicates[lang])
		fd, p := ctx.DeclOf(fn)
		if fd == nil || fd.Body == nil {
			r.Undecided("anchor lost: %s.%s", lang, c02ReservedPredicates[lang])
			continue
		}
		info := p.TypesInfo
		known := map[string]bool{}
		ast.Inspect(fd.Body, func(n ast.Node) bool {
			if lit, ok := n.(*ast.BasicLit); ok && lit.Kind == token.STRING {
				if tv, ok := info.Types[lit]; ok && tv.Value != nil {
					known[constant.StringVal(tv.Value)] = true
				}
			}
			return true
		})
		r.Count("reserved words known to the "+lang+" jenny", len(known))
		var missing []string
		for _, w := range c02ReservedWords[lang] {
			if !known[w] {
				missing = append(missing, w)
			}
		}
		r.Check(len(missing) == 0, "kinds/reserved-words-complete", lang+"."+c02ReservedPredicates[lang]+" knows the reserved words of the language", fd.Pos(), fmt.Sprintf("all %d words of the specification's list are in the predicate", len(c02ReservedWords[lang])),
			lang+"."+c02ReservedPredicates[lang]+" does not know "+strings.Join(missing, ", ")+": a field, argument or option with one of these names is written as it is and the generated code does not compile while the run succeeds")
	}
}

// c02GoImportInScope: the converse of skeleton/go-import-used at the granularity of a branch. A Go template file that
// registers a standard package with importStdPkg manages that import itself; a use of the package (`errors.New(`) in a
// branch where no registration is in scope — none earlier in the same list, none in an enclosing list before the
// branch, none at the top level of the define — relies on some other branch having been rendered into the same file.
func c02GoImportInScope(ctx *Ctx, r *Report) {
	ts, err := loadTemplates(ctx, "golang")
	if err != nil {
		r.Undecided("cannot parse golang templates: %v", err)
		return
	}
	// packages managed per file
	managed := map[string]map[string]bool{} // file -> package name
	regOf := func(n parse.Node) string {
		an, ok := n.(*parse.ActionNode)
		if !ok || len(an.Pipe.Cmds) != 1 {
			return ""
		}
		args := an.Pipe.Cmds[0].Args
		if len(args) != 2 {
			return ""
		}
		id, ok := args[0].(*parse.IdentifierNode)
		if !ok || id.Ident != "importStdPkg" {
			return ""
		}
		lit, ok := args[1].(*parse.StringNode)
		if !ok {
			return ""
		}
		pkg := lit.Text
		if k := strings.LastIndex(pkg, "/"); k >= 0 {
			pkg = pkg[k+1:]
		}
		return pkg
	}
	for _, name := range ts.names() {
		f := ts.file[name]
		walkTmpl(ts.trees[name].Root, func(n parse.Node) bool {
			if pkg := regOf(n); pkg != "" {
				if managed[f] == nil {
					managed[f] = map[string]bool{}
				}
				managed[f][pkg] = true
			}
			return true
		})
	}
	// a define inherits what is in scope at every place that invokes it (self-invocations aside); a file template
	// or a define nobody invokes from a template (rendered by name from Go) starts with nothing
	all := map[string]bool{}
	for _, m := range managed {
		for k := range m {
			all[k] = true
		}
	}
	invoked := map[string]bool{}
	for _, name := range ts.names() {
		walkTmpl(ts.trees[name].Root, func(n parse.Node) bool {
			if tn, ok := n.(*parse.TemplateNode); ok && tn.Name != name {
				invoked[tn.Name] = true
			}
			return true
		})
	}
	inherited := map[string]map[string]bool{}
	for _, name := range ts.names() {
		if invoked[name] {
			cp := map[string]bool{}
			for k := range all {
				cp[k] = true
			}
			inherited[name] = cp
		} else {
			inherited[name] = map[string]bool{}
		}
	}
	uses := 0
	type finding struct {
		cons, where, pkg string
		ok               bool
	}
	var results []finding
	for round := 0; round < 6; round++ {
		results = nil
		uses = 0
		callScopes := map[string][]map[string]bool{}
		for _, name := range ts.names() {
			tree := ts.trees[name]
			f := ts.file[name]
			seen := map[string]int{}
			var visit func(list *parse.ListNode, inScope map[string]bool)
			visit = func(list *parse.ListNode, inScope map[string]bool) {
				if list == nil {
					return
				}
				scope := map[string]bool{}
				for k := range inScope {
					scope[k] = true
				}
				for _, n := range list.Nodes {
					if pkg := regOf(n); pkg != "" {
						scope[pkg] = true
					}
				}
				for _, n := range list.Nodes {
					switch x := n.(type) {
					case *parse.TextNode:
						for pkg := range managed[f] {
							if !regexp.MustCompile(`\b` + pkg + `\.[A-Z]`).Match(x.Text) {
								continue
							}
							uses++
							key := fmt.Sprintf("golang %s uses %s", name, pkg)
							seen[key]++
							cons := key
							if seen[key] > 1 {
								cons = fmt.Sprintf("%s #%d", key, seen[key])
							}
							results = append(results, finding{cons, ts.posOf(ctx, name, x), pkg, scope[pkg]})
						}
					case *parse.TemplateNode:
						if x.Name != name {
							cp := map[string]bool{}
							for k := range scope {
								cp[k] = true
							}
							callScopes[x.Name] = append(callScopes[x.Name], cp)
						}
					case *parse.IfNode:
						visit(x.List, scope)
						visit(x.ElseList, scope)
					case *parse.RangeNode:
						visit(x.List, scope)
						visit(x.ElseList, scope)
					case *parse.WithNode:
						visit(x.List, scope)
						visit(x.ElseList, scope)
					}
				}
			}
			visit(tree.Root, inherited[name])
		}
		changed := false
		for name, scopes := range callScopes {
			if _, ok := inherited[name]; !ok {
				continue
			}
			meet := map[string]bool{}
			for k := range all {
				in := true
				for _, sc := range scopes {
					if !sc[k] {
						in = false
					}
				}
				if in {
					meet[k] = true
				}
			}
			if len(meet) != len(inherited[name]) {
				changed = true
			}
			inherited[name] = meet
		}
		if !changed {
			break
		}
	}
	for _, fr := range results {
		r.Check(fr.ok, "skeleton/go-import-in-scope", fr.cons, token.NoPos, fr.where+": a registration of the import is in scope (here or at every place that invokes this template)",
			fr.where+": the text uses "+fr.pkg+". in a branch where no `importStdPkg` of that package is in scope, although the file registers it elsewhere: when only this branch is rendered into a file the import is missing — `undefined: "+fr.pkg+"`")
	}
	r.Count("uses of template-managed Go imports", uses)
	r.Floor("uses of template-managed Go imports", 20)
}

// c02GoBareTypeNames: `formatObjectName` gives the bare Go name of an object — right for the object a
// file declares (its own name), wrong for a name that designates some other object, which may live in another
// package (a discriminator-mapping entry, a ReferredType): those go through the package-aware formatters
// (formatRawRef / formatType). Every use in the Go templates is classified by where its operand comes from.
func c02GoBareTypeNames(ctx *Ctx, r *Report) {
	ts, err := loadTemplates(ctx, "golang")
	if err != nil {
		r.Undecided("cannot parse golang templates: %v", err)
		return
	}
	selfName := func(idents []string) bool {
		if len(idents) < 2 {
			return false
		}
		last := idents[len(idents)-1]
		if last != "Name" && last != "BuilderName" {
			return false
		}
		for _, id := range idents[:len(idents)-1] {
			switch id {
			case "Ref", "Type", "Types", "Branches", "SelfRef", "For":
				return false
			}
		}
		return true
	}
	uses := 0
	for _, name := range ts.names() {
		tree := ts.trees[name]
		// variables bound by a range (elements of a collection) and by plain declarations
		rangeVars := map[string]bool{}
		declared := map[string]*parse.PipeNode{}
		walkTmpl(tree.Root, func(n parse.Node) bool {
			switch x := n.(type) {
			case *parse.RangeNode:
				for _, d := range x.Pipe.Decl {
					rangeVars[d.Ident[0]] = true
				}
			case *parse.PipeNode:
				for _, d := range x.Decl {
					if _, seen := declared[d.Ident[0]]; !seen {
						declared[d.Ident[0]] = x
					}
				}
			}
			return true
		})
		seen := map[string]int{}
		var classify func(n parse.Node, depth int) (bool, string)
		classify = func(n parse.Node, depth int) (bool, string) {
			switch x := n.(type) {
			case *parse.FieldNode:
				if selfName(append([]string{"."}, x.Ident...)) {
					return true, "the name of the object being declared"
				}
				return false, "a field that is not the declared object's own name"
			case *parse.VariableNode:
				if len(x.Ident) > 1 {
					if selfName(x.Ident) {
						return true, "the name of the object being declared"
					}
					return false, "a field that is not the declared object's own name"
				}
				if rangeVars[x.Ident[0]] {
					return false, "an element of a collection (range variable): it names some other object, possibly of another package"
				}
				if p := declared[x.Ident[0]]; p != nil && depth < 4 && len(p.Cmds) == 1 && len(p.Cmds[0].Args) == 1 {
					return classify(p.Cmds[0].Args[0], depth+1)
				}
				return false, "a variable of unknown origin"
			case *parse.PipeNode:
				if len(x.Cmds) == 1 && len(x.Cmds[0].Args) == 1 {
					return classify(x.Cmds[0].Args[0], depth+1)
				}
			}
			return false, "an operand that is not recognised"
		}
		walkTmpl(tree.Root, func(n parse.Node) bool {
			p, ok := n.(*parse.PipeNode)
			if !ok {
				return true
			}
			for i, cmd := range p.Cmds {
				if len(cmd.Args) == 0 {
					continue
				}
				id, ok := cmd.Args[0].(*parse.IdentifierNode)
				if !ok || id.Ident != "formatObjectName" {
					continue
				}
				var operand parse.Node
				switch {
				case len(cmd.Args) == 2:
					operand = cmd.Args[1]
				case len(cmd.Args) == 1 && i > 0 && len(p.Cmds[i-1].Args) == 1:
					operand = p.Cmds[i-1].Args[0]
				}
				uses++
				txt := "?"
				if operand != nil {
					txt = operand.String()
				}
				key := fmt.Sprintf("golang %s formatObjectName(%s)", name, txt)
				seen[key]++
				cons := key
				if seen[key] > 1 {
					cons = fmt.Sprintf("%s #%d", key, seen[key])
				}
				good, why := false, "an operand that is not recognised"
				if operand != nil {
					good, why = classify(operand, 0)
				}
				where := ts.posOf(ctx, name, p)
				r.Check(good, "skeleton/go-bare-type-name", cons, token.NoPos,
					where+": formatObjectName is applied to "+why,
					where+": formatObjectName (bare name, no package) is applied to "+why+" — for an object of another package the emitted Go names a type the file's package does not define (`undefined: Cat`); name it through formatRawRef / formatType with the branch's reference")
			}
			return true
		})
	}
	r.Count("formatObjectName uses in Go templates", uses)
	r.Floor("formatObjectName uses in Go templates", 30)
}

// c02GoAliasConstructor: an object that names another one (`type R = S`) gets a constructor delegating to the
// referred struct's, which returns *S. When the alias is nullable (`type R = *S`) the declared result *R is **S:
// the delegated value can not be returned as is, so the body written for an alias must depend on Type.Nullable.
func c02GoAliasConstructor(ctx *Ctx, r *Report) {
	p := ctx.Pkg("internal/jennies/golang")
	if p == nil {
		return
	}
	var fd *ast.FuncDecl
	for _, f := range p.Syntax {
		for _, d := range f.Decls {
			if x, ok := d.(*ast.FuncDecl); ok && x.Name.Name == "generateConstructor" && x.Body != nil {
				fd = x
			}
		}
	}
	if fd == nil {
		r.Undecided("anchor lost: golang.generateConstructor")
		return
	}
	n := 0
	ast.Inspect(fd.Body, func(m ast.Node) bool {
		is, ok := m.(*ast.IfStmt)
		if !ok {
			return true
		}
		c, ok := ast.Unparen(is.Cond).(*ast.CallExpr)
		if !ok {
			return true
		}
		fn := callee(p.TypesInfo, c)
		if fn == nil || fn.Name() != "IsRef" {
			return true
		}
		n++
		testsNullable := false
		ast.Inspect(is.Body, func(q ast.Node) bool {
			if inner, ok := q.(*ast.IfStmt); ok {
				ast.Inspect(inner.Cond, func(e ast.Node) bool {
					if sel, ok := e.(*ast.SelectorExpr); ok && sel.Sel.Name == "Nullable" {
						testsNullable = true
					}
					return true
				})
			}
			return true
		})
		r.Check(testsNullable, "skeleton/go-alias-constructor-pointer", "golang.generateConstructor alias branch", is.Pos(),
			"the constructor written for an alias depends on whether the alias is nullable",
			"the constructor of an alias returns the delegated constructor's result whatever the alias: for `R: S | null` (type R = *S) that is `func NewR() *R { return NewS() }` — a *S where a **S is declared, the package does not compile")
		return false
	})
	r.Count("alias branches of the Go constructor", n)
	r.Floor("alias branches of the Go constructor", 1)
}

// c02GoRuntimeDefines: the Go jenny writes calls into its own runtime package (`cog.X`). The runtime jenny emits
// that package (templates/runtime/*.tmpl and the literal files of runtime.go): every `cog.X` a template or the jenny
// writes has to be defined there, or the generated module does not type-check. Functions that are only reached for
// composable slots are supplied with the variants (extra templates) and are listed with that reason.
var c02GoRuntimeExternal = map[string]string{
	"StrictUnmarshalDataquery": "only written for composable slots (dataquery variant), whose runtime comes with the variants' extra templates",
	"UnmarshalDataquery":       "same",
	"UnmarshalDataqueryArray":  "same",
	"ConfigForPanelcfgVariant": "same",
}

func c02GoRuntimeDefines(ctx *Ctx, r *Report) {
	p := ctx.Pkg("internal/jennies/golang")
	ts, err := loadTemplates(ctx, "golang")
	if p == nil || err != nil {
		r.Undecided("golang jenny / templates not loaded: %v", err)
		return
	}
	use := regexp.MustCompile(`\bcog\.([A-Z][A-Za-z0-9]*)`)
	def := regexp.MustCompile(`(?m)^(?:func|type)\s+(?:\([^)]*\)\s*)?([A-Z][A-Za-z0-9]*)`)
	defined := map[string]bool{}
	used := map[string]string{}
	for _, name := range ts.names() {
		f := ts.file[name]
		walkTmpl(ts.trees[name].Root, func(n parse.Node) bool {
			t, ok := n.(*parse.TextNode)
			if !ok {
				return true
			}
			if strings.Contains(f, "/templates/runtime/") {
				for _, m := range def.FindAllStringSubmatch(string(t.Text), -1) {
					defined[m[1]] = true
				}
				return true
			}
			for _, m := range use.FindAllStringSubmatch(string(t.Text), -1) {
				if _, ok := used[m[1]]; !ok {
					used[m[1]] = ts.posOf(ctx, name, t)
				}
			}
			return true
		})
	}
	// string literals of the jenny: definitions in runtime.go, uses elsewhere
	for _, file := range p.Syntax {
		fname := ctx.Fset.Position(file.Pos()).Filename
		ast.Inspect(file, func(m ast.Node) bool {
			lit, ok := m.(*ast.BasicLit)
			if !ok || lit.Kind != token.STRING {
				return true
			}
			tv, ok := p.TypesInfo.Types[lit]
			if !ok || tv.Value == nil || tv.Value.Kind() != constant.String {
				return true
			}
			v := constant.StringVal(tv.Value)
			if strings.HasSuffix(fname, "/runtime.go") {
				for _, mm := range def.FindAllStringSubmatch(v, -1) {
					defined[mm[1]] = true
				}
				return true
			}
			for _, mm := range use.FindAllStringSubmatch(v, -1) {
				if _, ok := used[mm[1]]; !ok {
					used[mm[1]] = ctx.Pos(lit.Pos())
				}
			}
			return true
		})
	}
	var names []string
	for k := range used {
		names = append(names, k)
	}
	sort.Strings(names)
	for _, k := range names {
		if why, ok := c02GoRuntimeExternal[k]; ok {
			r.OK("skeleton/go-runtime-defines", "golang runtime defines cog."+k, token.NoPos, "reviewed: "+why)
			continue
		}
		r.Check(defined[k], "skeleton/go-runtime-defines", "golang runtime defines cog."+k, token.NoPos, used[k]+": defined by the runtime jenny",
			used[k]+": the Go jenny writes cog."+k+", which the Go runtime jenny never emits (templates/runtime, runtime.go): the generated module does not type-check — `undefined: cog."+k+"`")
	}
	r.Count("runtime symbols written by the Go jenny", len(names))
	r.Count("runtime symbols defined by the Go runtime jenny", len(defined))
	r.Floor("runtime symbols written by the Go jenny", 4)
	r.Floor("runtime symbols defined by the Go runtime jenny", 4)
}

// c02GoTemplateIdentifiersEscaped: an argument of a generated Go method takes its name from the schema. The method
// bodies come from the builder templates, which bind names of their own: the receiver (`func (builder *…`), local
// variables declared by the literal text (`err :=`, `var errs`), the runtime package (`cog.`) and the builtin functions
// the text calls (`make(`, `append(`, `len(`). An argument with one of those names shadows it. The names are read from
// the templates; each has to be known to the predicate escapeVarName consults.
func c02GoTemplateIdentifiersEscaped(ctx *Ctx, r *Report) {
	p := ctx.Pkg("internal/jennies/golang")
	ts, err := loadTemplates(ctx, "golang")
	if p == nil || err != nil {
		r.Undecided("golang jenny / templates not loaded: %v", err)
		return
	}
	info := p.TypesInfo
	// the names escapeVarName escapes: string literals of the predicates it calls
	esc := ctx.LookupFunc("internal/jennies/golang", "escapeVarName")
	fd, _ := ctx.DeclOf(esc)
	if fd == nil {
		r.Undecided("anchor lost: golang.escapeVarName")
		return
	}
	escaped := map[string]bool{}
	ast.Inspect(fd.Body, func(m ast.Node) bool {
		c, ok := m.(*ast.CallExpr)
		if !ok {
			return true
		}
		fn := callee(info, c)
		if fn == nil || fn.Pkg() != p.Types {
			return true
		}
		if pfd, _ := ctx.DeclOf(fn); pfd != nil && pfd.Body != nil {
			ast.Inspect(pfd.Body, func(q ast.Node) bool {
				if lit, ok := q.(*ast.BasicLit); ok && lit.Kind == token.STRING {
					if tv, ok := info.Types[lit]; ok && tv.Value != nil {
						escaped[constant.StringVal(tv.Value)] = true
					}
				}
				return true
			})
		}
		return true
	})
	bound := map[string]string{}
	recv := regexp.MustCompile(`func \(([a-z][A-Za-z0-9]*) \*?`)
	decl := regexp.MustCompile(`(?m)(?:^|[\s;{])([a-z][A-Za-z0-9]*(?:\s*,\s*[a-z][A-Za-z0-9]*)*)\s*:=`)
	vard := regexp.MustCompile(`\bvar ([a-z][A-Za-z0-9]*)\b`)
	builtin := regexp.MustCompile(`(?:^|[^.\w])(append|cap|copy|delete|len|make|new|panic)\(`)
	pkgUse := regexp.MustCompile(`(?:^|[^.\w])(cog)\.[A-Z]`)
	for _, name := range ts.names() {
		if !strings.Contains(ts.file[name], "/templates/builders/") {
			continue
		}
		walkTmpl(ts.trees[name].Root, func(n parse.Node) bool {
			t, ok := n.(*parse.TextNode)
			if !ok {
				return true
			}
			txt := string(t.Text)
			where := ts.posOf(ctx, name, t)
			add := func(id string) {
				if _, ok := bound[id]; !ok {
					bound[id] = where
				}
			}
			for _, m := range recv.FindAllStringSubmatch(txt, -1) {
				add(m[1])
			}
			for _, m := range decl.FindAllStringSubmatch(txt, -1) {
				for _, id := range strings.Split(m[1], ",") {
					add(strings.TrimSpace(id))
				}
			}
			for _, m := range vard.FindAllStringSubmatch(txt, -1) {
				add(m[1])
			}
			for _, m := range builtin.FindAllStringSubmatch(txt, -1) {
				add(m[1])
			}
			for _, m := range pkgUse.FindAllStringSubmatch(txt, -1) {
				add(m[1])
			}
			return true
		})
	}
	var names []string
	for k := range bound {
		names = append(names, k)
	}
	sort.Strings(names)
	for _, k := range names {
		r.Check(escaped[k], "kinds/go-template-identifiers-escaped", "golang.escapeVarName escapes "+k, token.NoPos, bound[k]+": bound or called by the builder templates, escaped when a field has that name",
			bound[k]+": the builder templates bind or call `"+k+"` in the generated methods and escapeVarName lets an argument of that name through: a field named `"+k+"` gives an option whose argument shadows it — the builder package does not compile while the run succeeds")
	}
	r.Count("identifiers bound or called by the Go builder templates", len(names))
	r.Floor("identifiers bound or called by the Go builder templates", 4)
}

// c02PythonMethodNamesEscaped: a Python option is a method named after its field, defined in the class body. The
// names that body relies on afterwards are (1) the annotation types the type formatter writes — the results of
// formatScalarKind, `list[`, `dict[`, `typing.` — evaluated when each following method is defined, and (2) the methods
// the builder template defines itself (`def build(`). A method with one of those names shadows it. The names are read
// from the source; each has to be known to the predicates escapeFunctionName consults.
func c02PythonMethodNamesEscaped(ctx *Ctx, r *Report) {
	p := ctx.Pkg("internal/jennies/python")
	ts, err := loadTemplates(ctx, "python")
	if p == nil || err != nil {
		r.Undecided("python jenny / templates not loaded: %v", err)
		return
	}
	info := p.TypesInfo
	esc := ctx.LookupFunc("internal/jennies/python", "escapeFunctionName")
	fd, _ := ctx.DeclOf(esc)
	if fd == nil {
		r.Undecided("anchor lost: python.escapeFunctionName")
		return
	}
	escaped := map[string]bool{}
	ast.Inspect(fd.Body, func(m ast.Node) bool {
		c, ok := m.(*ast.CallExpr)
		if !ok {
			return true
		}
		fn := callee(info, c)
		if fn == nil || fn.Pkg() != p.Types {
			return true
		}
		if pfd, _ := ctx.DeclOf(fn); pfd != nil && pfd.Body != nil {
			ast.Inspect(pfd.Body, func(q ast.Node) bool {
				if lit, ok := q.(*ast.BasicLit); ok && lit.Kind == token.STRING {
					if tv, ok := info.Types[lit]; ok && tv.Value != nil {
						escaped[constant.StringVal(tv.Value)] = true
					}
				}
				return true
			})
		}
		return true
	})
	needed := map[string]string{}
	ident := regexp.MustCompile(`^[a-z][a-z0-9_]*$`)
	// (1) annotation types
	if fn := ctx.LookupMethod("internal/jennies/python", "typeFormatter", "formatScalarKind"); fn != nil {
		if sfd, _ := ctx.DeclOf(fn); sfd != nil {
			ast.Inspect(sfd.Body, func(m ast.Node) bool {
				rs, ok := m.(*ast.ReturnStmt)
				if !ok || len(rs.Results) != 1 {
					return true
				}
				if tv, ok := info.Types[rs.Results[0]]; ok && tv.Value != nil && tv.Value.Kind() == constant.String {
					if v := constant.StringVal(tv.Value); ident.MatchString(v) {
						needed[v] = ctx.Pos(rs.Pos()) + " (annotation written by formatScalarKind)"
					}
				}
				return true
			})
		}
	}
	// `list[%s]`, `dict[str, typing.Any]`: a subscript holding a type, not `data["%s"]`
	generic := regexp.MustCompile(`^([a-z][a-z0-9_]*)\[(?:%s|[a-z]+[,\]]|typing\.)`)
	for _, file := range p.Syntax {
		ast.Inspect(file, func(m ast.Node) bool {
			lit, ok := m.(*ast.BasicLit)
			if !ok || lit.Kind != token.STRING {
				return true
			}
			tv, ok := info.Types[lit]
			if !ok || tv.Value == nil || tv.Value.Kind() != constant.String {
				return true
			}
			if mm := generic.FindStringSubmatch(constant.StringVal(tv.Value)); mm != nil {
				if _, ok := needed[mm[1]]; !ok {
					needed[mm[1]] = ctx.Pos(lit.Pos()) + " (generic annotation)"
				}
			}
			return true
		})
	}
	needed["typing"] = "the typing module, used by every annotation (typing.Self, typing.Optional)"
	// (2) methods of the builder template
	def := regexp.MustCompile(`(?m)^\s*def ([a-z][a-z0-9_]*)\(`)
	for _, name := range ts.names() {
		if !strings.Contains(ts.file[name], "/templates/builders/") {
			continue
		}
		walkTmpl(ts.trees[name].Root, func(n parse.Node) bool {
			if t, ok := n.(*parse.TextNode); ok {
				for _, mm := range def.FindAllStringSubmatch(string(t.Text), -1) {
					if _, ok := needed[mm[1]]; !ok {
						needed[mm[1]] = ts.posOf(ctx, name, t) + " (method defined by the builder template)"
					}
				}
			}
			return true
		})
	}
	var names []string
	for k := range needed {
		names = append(names, k)
	}
	sort.Strings(names)
	for _, k := range names {
		r.Check(escaped[k], "kinds/python-method-names-escaped", "python.escapeFunctionName escapes "+k, token.NoPos, needed[k]+": escaped when a field has that name",
			needed[k]+": the class body relies on `"+k+"` after the options are defined and escapeFunctionName lets a method of that name through: a field named `"+k+"` gives `def "+k+"(…)`, which shadows it for everything that follows — the builders module fails on import (TypeError: 'function' object is not subscriptable) or build() is replaced")
	}
	// attributes: the methods the *models* define on every class (rawtypes.go writes `def to_json(`, `def from_json(`)
	// must be known to escapeKeyword, which formatIdentifier applies to attribute names
	attrEscaped := map[string]bool{}
	if kfd, _ := ctx.DeclOf(ctx.LookupFunc("internal/jennies/python", "escapeKeyword")); kfd != nil && kfd.Body != nil {
		ast.Inspect(kfd.Body, func(q ast.Node) bool {
			if lit, ok := q.(*ast.BasicLit); ok && lit.Kind == token.STRING {
				if tv, ok := info.Types[lit]; ok && tv.Value != nil {
					attrEscaped[constant.StringVal(tv.Value)] = true
				}
			}
			return true
		})
	}
	methods := map[string]string{}
	for _, file := range p.Syntax {
		ast.Inspect(file, func(m ast.Node) bool {
			lit, ok := m.(*ast.BasicLit)
			if !ok || lit.Kind != token.STRING {
				return true
			}
			tv, ok := info.Types[lit]
			if !ok || tv.Value == nil || tv.Value.Kind() != constant.String {
				return true
			}
			for _, mm := range regexp.MustCompile(`def ([a-z][a-z0-9_]*)\(`).FindAllStringSubmatch(constant.StringVal(tv.Value), -1) {
				if !strings.HasPrefix(mm[1], "__") {
					if _, ok := methods[mm[1]]; !ok {
						methods[mm[1]] = ctx.Pos(lit.Pos())
					}
				}
			}
			return true
		})
	}
	var mnames []string
	for k := range methods {
		mnames = append(mnames, k)
	}
	sort.Strings(mnames)
	for _, k := range mnames {
		r.Check(attrEscaped[k], "kinds/python-method-names-escaped", "python.escapeKeyword escapes the attribute name "+k, token.NoPos, methods[k]+": a method of the generated classes, escaped when a property has that name",
			methods[k]+": the models define `def "+k+"(` on every class and escapeKeyword lets an attribute of that name through: a property named `"+k+"` becomes an instance attribute that takes the place of the method — TypeError: 'str' object is not callable when the object is encoded")
	}
	r.Count("methods the generated Python classes define", len(mnames))
	r.Floor("methods the generated Python classes define", 2)
	r.Count("names the body of a generated Python class relies on", len(names))
	r.Floor("names the body of a generated Python class relies on", 8)
}

// c02PythonClassNamesEscaped: a Python class is named after its object. `None`, `True` and `False` are keywords with
// a capital: formatObjectName has to consult the keyword predicate, and every class name the jenny writes has to go
// through formatObjectName — no direct tools.UpperCamelCase of an object's name or of a reference's referred type.
func c02PythonClassNamesEscaped(ctx *Ctx, r *Report) {
	p := ctx.Pkg("internal/jennies/python")
	if p == nil {
		return
	}
	info := p.TypesInfo
	fmtObj := ctx.LookupFunc("internal/jennies/python", "formatObjectName")
	fd, _ := ctx.DeclOf(fmtObj)
	if fd == nil || fd.Body == nil {
		r.Undecided("anchor lost: python.formatObjectName")
		return
	}
	consults := false
	ast.Inspect(fd.Body, func(m ast.Node) bool {
		if c, ok := m.(*ast.CallExpr); ok {
			if f := callee(info, c); f != nil && f.Name() == c02ReservedPredicates["python"] {
				consults = true
			}
		}
		return true
	})
	r.Check(consults, "kinds/python-class-names-escaped", "python.formatObjectName escapes keywords", fd.Pos(), "the keyword predicate is consulted",
		"formatObjectName only changes the case of the name: an object named None, True or False is written `class None:` — SyntaxError, the models module can not be imported")
	n := 0
	for _, file := range p.Syntax {
		var fname string
		ast.Inspect(file, func(m ast.Node) bool {
			if d, ok := m.(*ast.FuncDecl); ok {
				fname = d.Name.Name
			}
			c, ok := m.(*ast.CallExpr)
			if !ok || len(c.Args) != 1 || fname == "formatObjectName" {
				return true
			}
			f := callee(info, c)
			if f == nil || f.Name() != "UpperCamelCase" {
				return true
			}
			sel, ok := ast.Unparen(c.Args[0]).(*ast.SelectorExpr)
			if !ok {
				return true
			}
			fv := fieldOf(info, sel)
			if fv == nil || fv.Pkg() == nil || fv.Pkg().Path() != astPkgPath {
				return true
			}
			owner := ""
			if nt := namedOf(info.TypeOf(sel.X)); nt != nil {
				owner = nt.Obj().Name()
			}
			if !((owner == "Object" && fv.Name() == "Name") || (owner == "RefType" && fv.Name() == "ReferredType")) {
				return true
			}
			n++
			r.Bad("kinds/python-class-names-escaped", fmt.Sprintf("python.%s formats %s without formatObjectName", fname, exprString(sel)), c.Pos(),
				fmt.Sprintf("python.%s writes the class name of %s with tools.UpperCamelCase directly: keyword escaping (None, True, False) and any later rule of formatObjectName are skipped, the reference names a class that is declared under another name", fname, exprString(sel)))
			return true
		})
	}
	r.Count("class names formatted outside formatObjectName in the Python jenny", n)
}

// c02EnumMemberIdentifiers: the name of an enum member is derived from its value by *removing* what the language does
// not allow in an identifier; nothing can be left (`"="`), and two members can end up alike (`"<"` / `">"`, `"m"` /
// `"M"` in Go). No formatter can report that (they return strings): the chain of every language that names enum members
// ends with the EnumMemberIdentifiers pass — after every pass that creates enums or renames members — configured with
// an Identifier function, and the pass fails on an identifier that is not one and on a duplicate.
func c02EnumMemberIdentifiers(ctx *Ctx, r *Report) {
	chains := languageChains(ctx)
	before := []string{"DisjunctionOfConstantsToEnum", "AnonymousEnumToExplicitType", "PrefixEnumValues", "RenameNumericEnumValues", "SanitizeEnumMemberNames"}
	n := 0
	for _, lang := range []string{"golang", "java", "php", "python", "typescript"} {
		chain, ok := chains[lang]
		if !ok {
			r.Undecided("anchor lost: CompilerPasses of %s", lang)
			continue
		}
		at := -1
		for i, name := range chain {
			if name == "EnumMemberIdentifiers" {
				at = i
			}
		}
		late := ""
		for i, name := range chain {
			for _, b := range before {
				if name == b && i > at {
					late = name
				}
			}
		}
		n++
		r.Check(at >= 0 && late == "", "chains/enum-member-identifiers", lang+" chain checks the identifiers of enum members", token.NoPos, "EnumMemberIdentifiers comes after every pass that creates enums or renames their members",
			fmt.Sprintf("the %s chain does not end with the check of enum member identifiers (position %d, %s comes later): `\"=\" | \"!=\" | \"<\" | \">\"` gives `const (Op Op = \"=\"; Op Op = \"!=\" …)` in Go, `_ = \"=\"; _ = \"<\"` in Python, `=(\"=\")` in Java — a successful run and code that does not compile", lang, at, late))
	}
	// the literals give the pass an Identifier
	ctx.AllFuncDecls(func(p *packages.Package, fd *ast.FuncDecl, obj *types.Func) {
		if fd.Recv == nil || fd.Body == nil || obj.Name() != "CompilerPasses" || !strings.HasPrefix(p.PkgPath, modulePath+"/internal/jennies/") {
			return
		}
		ast.Inspect(fd.Body, func(m ast.Node) bool {
			cl, ok := m.(*ast.CompositeLit)
			if !ok || namedName(p.TypesInfo.TypeOf(cl)) != "EnumMemberIdentifiers" {
				return true
			}
			has := false
			for _, el := range cl.Elts {
				if kv, ok := el.(*ast.KeyValueExpr); ok {
					if k, ok := kv.Key.(*ast.Ident); ok && k.Name == "Identifier" {
						if id, ok := ast.Unparen(kv.Value).(*ast.Ident); !ok || id.Name != "nil" {
							has = true
						}
					}
				}
			}
			n++
			r.Check(has, "chains/enum-member-identifiers", ctx.FuncName(obj)+" configures the check", cl.Pos(), "the pass is given the function that names members in that language",
				ctx.FuncName(obj)+" adds EnumMemberIdentifiers without Identifier: the pass checks nothing")
			// Go declares the type of an enum and its constants side by side: the name of the enum is taken too
			if strings.HasSuffix(p.PkgPath, "/golang") {
				hasEnum := false
				for _, el := range cl.Elts {
					if kv, ok := el.(*ast.KeyValueExpr); ok {
						if k, ok := kv.Key.(*ast.Ident); ok && k.Name == "EnumIdentifier" {
							if id, ok := ast.Unparen(kv.Value).(*ast.Ident); !ok || id.Name != "nil" {
								hasEnum = true
							}
						}
					}
				}
				n++
				r.Check(hasEnum, "chains/enum-member-identifiers", ctx.FuncName(obj)+" reserves the name of the enum", cl.Pos(), "the pass is given the function that names the enum's type",
					ctx.FuncName(obj)+" does not tell EnumMemberIdentifiers how the enum itself is named: with `Op: enum [\"<\", \"eq\"]` PrefixEnumValues leaves the member \"<\" named Op — `const Op Op = \"<\"` next to `type Op string`, Op redeclared")
			}
			return true
		})
	})
	// the pass itself
	cp := ctx.Pkg("internal/ast/compiler")
	named := ctx.LookupType("internal/ast/compiler", "EnumMemberIdentifiers")
	if cp == nil || named == nil {
		r.Undecided("anchor lost: compiler.EnumMemberIdentifiers")
		return
	}
	info := cp.TypesInfo
	validity, distinct := false, false
	for _, fd := range methodsOf(ctx, named) {
		// the per-enum check: the method is handed one object (another method compares members across the schema)
		perEnum := false
		for _, f := range fd.Type.Params.List {
			if namedName(info.TypeOf(f.Type)) == "Object" {
				perEnum = true
			}
		}
		ast.Inspect(fd.Body, func(m ast.Node) bool {
			is, ok := m.(*ast.IfStmt)
			if !ok || len(is.Body.List) == 0 {
				return true
			}
			ret, ok := is.Body.List[len(is.Body.List)-1].(*ast.ReturnStmt)
			if !ok || len(ret.Results) == 0 {
				return true
			}
			last := ast.Unparen(ret.Results[len(ret.Results)-1])
			if id, ok := last.(*ast.Ident); ok && id.Name == "nil" {
				return true
			}
			if tv, ok := info.Types[last]; !ok || !types.Identical(tv.Type, types.Universe.Lookup("error").Type()) {
				return true
			}
			// an `if` that leaves with an error: what does it test?
			if u, ok := ast.Unparen(is.Cond).(*ast.UnaryExpr); ok && u.Op == token.NOT {
				if c, ok := ast.Unparen(u.X).(*ast.CallExpr); ok {
					if f := callee(info, c); f != nil && f.Pkg() == cp.Types {
						if hfd, _ := ctx.DeclOf(f); hfd != nil && hfd.Body != nil {
							ast.Inspect(hfd.Body, func(k ast.Node) bool {
								if c2, ok := k.(*ast.CallExpr); ok {
									if f2 := callee(info, c2); f2 != nil && f2.Pkg() != nil && f2.Pkg().Path() == "unicode" {
										validity = true
									}
								}
								return true
							})
						}
					}
				}
			}
			if as, ok := is.Init.(*ast.AssignStmt); ok && len(as.Rhs) == 1 {
				if ix, ok := ast.Unparen(as.Rhs[0]).(*ast.IndexExpr); ok {
					if _, isMap := info.TypeOf(ix.X).Underlying().(*types.Map); isMap && perEnum {
						distinct = true
					}
				}
			}
			return true
		})
	}
	n++
	r.Check(validity && distinct, "chains/enum-member-identifiers", "compiler.EnumMemberIdentifiers fails on invalid and on duplicate identifiers", token.NoPos, "both tests leave with an error",
		fmt.Sprintf("EnumMemberIdentifiers no longer fails on an identifier that is not one (%v) or on an identifier given twice (%v)", validity, distinct))
	r.Count("clauses of the enum member identifier check", n)
	r.Floor("clauses of the enum member identifier check", 12)
}

// c02JavaSerializerConditions: the Java classes are annotated `@JsonSerialize(using = XSerializer.class)` /
// `@JsonDeserialize(using = XDeserializer.class)` by the type formatter, and the XSerializer / XDeserializer classes are
// written by jennies registered under a condition on the configuration. Every configuration field that condition reads
// is also read by the guard of the function that decides the annotation — otherwise there is a combination of flags
// under which the annotation names a class that is not generated.
func c02JavaSerializerConditions(ctx *Ctx, r *Report) {
	p := ctx.Pkg("internal/jennies/java")
	if p == nil {
		r.Undecided("anchor lost: internal/jennies/java")
		return
	}
	info := p.TypesInfo
	configFields := func(e ast.Node) map[string]bool {
		out := map[string]bool{}
		ast.Inspect(e, func(m ast.Node) bool {
			if sel, ok := m.(*ast.SelectorExpr); ok {
				if f := fieldOf(info, sel); f != nil && namedName(info.TypeOf(sel.X)) == "Config" {
					out[f.Name()] = true
				}
			}
			return true
		})
		return out
	}
	// registration conditions
	registered := map[string]map[string]bool{}
	for _, f := range p.Syntax {
		ast.Inspect(f, func(m ast.Node) bool {
			c, ok := m.(*ast.CallExpr)
			if !ok || len(c.Args) != 2 {
				return true
			}
			if fn := callee(info, c); fn == nil || fn.Name() != "If" {
				return true
			}
			name := namedName(info.TypeOf(c.Args[1]))
			if name == "Serializers" || name == "Deserializers" {
				registered[name] = configFields(c.Args[0])
			}
			return true
		})
	}
	n := 0
	for _, pair := range [][2]string{{"Serializers", "objectNeedsCustomSerializer"}, {"Deserializers", "objectNeedsCustomDeserializer"}} {
		fields, ok := registered[pair[0]]
		fd := c12Method(p, pair[1])
		if !ok || fd == nil {
			r.Undecided("anchor lost: registration of java.%s / java.typeFormatter.%s", pair[0], pair[1])
			continue
		}
		// the guard: the leading `if … { return false }` statements
		guard := map[string]bool{}
		for _, st := range fd.Body.List {
			is, ok := st.(*ast.IfStmt)
			if !ok || len(is.Body.List) != 1 {
				break
			}
			ret, ok := is.Body.List[0].(*ast.ReturnStmt)
			if !ok || len(ret.Results) != 1 || exprString(ret.Results[0]) != "false" {
				break
			}
			for k := range configFields(is.Cond) {
				guard[k] = true
			}
		}
		var missing []string
		for k := range fields {
			if !guard[k] {
				missing = append(missing, k)
			}
		}
		sort.Strings(missing)
		n++
		r.Check(len(missing) == 0, "siblings/java-serializer-conditions-agree", "java.typeFormatter."+pair[1]+" vs registration of "+pair[0], fd.Pos(), "the annotation is refused under every flag that keeps the class from being generated",
			fmt.Sprintf("java.%s is registered under a condition on %v that %s does not look at: with builders and without generate_json_marshaller `string | bool` gives a class annotated @Json%s(using = StringOrBool%s.class) and no such class — javac: cannot find symbol", pair[0], missing, pair[1], strings.TrimSuffix(pair[0], "rs")+"", strings.TrimSuffix(pair[0], "s")))
	}
	r.Count("annotation / generation condition pairs of the Java jennies", n)
	r.Floor("annotation / generation condition pairs of the Java jennies", 2)
}

// c02GoUnfoldLeafPointer: the Go builder template "unfold_builders" builds the elements of a list / map of builders
// one by one and stores what Build() returns — a value — into a collection whose element type is the declared one
// (`[]*Inner` for `[...(null | #Inner)]`). Every list of the template that calls Build() and then stores into the
// result (append / index) hands the stored value to maybeAsPointer.
func c02GoUnfoldLeafPointer(ctx *Ctx, r *Report) {
	ts, err := loadTemplates(ctx, "golang")
	if err != nil {
		r.Undecided("templates of golang: %v", err)
		return
	}
	tree := ts.trees["unfold_builders"]
	if tree == nil {
		r.Undecided("anchor lost: golang template \"unfold_builders\"")
		return
	}
	n := 0
	var visit func(l *parse.ListNode)
	visit = func(l *parse.ListNode) {
		if l == nil {
			return
		}
		builds, stores, pointer := false, false, false
		for _, c := range l.Nodes {
			switch x := c.(type) {
			case *parse.TextNode:
				t := string(x.Text)
				if strings.Contains(t, ".Build()") {
					builds = true
				}
				if builds && (strings.Contains(t, "append(") || strings.Contains(t, "[key")) {
					stores = true
				}
			case *parse.ActionNode:
				if strings.Contains(x.String(), "maybeAsPointer") {
					pointer = true
				}
			case *parse.IfNode:
				visit(x.List)
				visit(x.ElseList)
			case *parse.RangeNode:
				visit(x.List)
				visit(x.ElseList)
			case *parse.WithNode:
				visit(x.List)
				visit(x.ElseList)
			}
		}
		if builds && stores {
			n++
			r.Check(pointer, "skeleton/go-unfold-leaf-pointer", fmt.Sprintf("golang unfold_builders leaf #%d", n), token.NoPos, ts.file["unfold_builders"]+": the built element goes through maybeAsPointer before it is stored",
				ts.file["unfold_builders"]+": an element built from a builder is stored as the value Build() returned: for `items: [...(null | #Inner)]` the field is `[]*Inner` and the builder does `append(itemsResource, itemsDepth1)` with an Inner — the package does not type-check")
		}
	}
	visit(tree.Root)
	r.Count("leaves of the Go template that store a built element", n)
	r.Floor("leaves of the Go template that store a built element", 2)
}

// c02GoFieldNamesNotMethods: a Go struct can't have a field and a method of the same name. The methods generated on a
// struct (`func (resource T) X(`) are read from the Go templates and from the string literals of the Go jenny; each
// of them is a name the field formatter knows it has to change (the string cases of the predicate formatFieldName calls).
func c02GoFieldNamesNotMethods(ctx *Ctx, r *Report) {
	p := ctx.Pkg("internal/jennies/golang")
	ts, err := loadTemplates(ctx, "golang")
	if p == nil || err != nil {
		r.Undecided("golang jenny / templates not loaded: %v", err)
		return
	}
	info := p.TypesInfo
	fmtField := ctx.LookupFunc("internal/jennies/golang", "formatFieldName")
	fd, _ := ctx.DeclOf(fmtField)
	if fd == nil {
		r.Undecided("anchor lost: golang.formatFieldName")
		return
	}
	escaped := map[string]bool{}
	ast.Inspect(fd.Body, func(m ast.Node) bool {
		c, ok := m.(*ast.CallExpr)
		if !ok {
			return true
		}
		fn := callee(info, c)
		if fn == nil || fn.Pkg() != p.Types {
			return true
		}
		if pfd, _ := ctx.DeclOf(fn); pfd != nil && pfd.Body != nil {
			ast.Inspect(pfd.Body, func(q ast.Node) bool {
				if cc, ok := q.(*ast.CaseClause); ok {
					for _, e := range cc.List {
						if tv, ok := info.Types[e]; ok && tv.Value != nil && tv.Value.Kind() == constant.String {
							escaped[constant.StringVal(tv.Value)] = true
						}
					}
				}
				return true
			})
		}
		return true
	})
	method := regexp.MustCompile(`func \(resource [^)]*\) ([A-Za-z_][A-Za-z0-9_]*)\(`)
	needed := map[string]string{}
	for _, name := range ts.names() {
		for _, m := range method.FindAllStringSubmatch(tmplText(ts.trees[name].Root), -1) {
			needed[m[1]] = ts.file[name]
		}
	}
	for _, file := range p.Syntax {
		ast.Inspect(file, func(m ast.Node) bool {
			if lit, ok := m.(*ast.BasicLit); ok && lit.Kind == token.STRING {
				if tv, ok := info.Types[lit]; ok && tv.Value != nil {
					for _, mm := range method.FindAllStringSubmatch(constant.StringVal(tv.Value), -1) {
						needed[mm[1]] = ctx.Pos(lit.Pos())
					}
				}
			}
			return true
		})
	}
	names := make([]string, 0, len(needed))
	for name := range needed {
		names = append(names, name)
	}
	sort.Strings(names)
	for _, name := range names {
		r.Check(escaped[name], "kinds/go-field-names-not-methods", "golang method "+name+" generated on structs", token.NoPos, "formatFieldName changes a field of that name",
			fmt.Sprintf("the Go jenny generates a method %s on structs (%s) and formatFieldName leaves a field named %s as it is: `Obj: {%s: string}` does not compile — field and method with the same name %s", name, needed[name], name, strings.ToLower(name[:1])+name[1:], name))
	}
	r.Count("methods generated on Go structs", len(names))
	r.Floor("methods generated on Go structs", 5)
}

// c02GoConstructorNames: types and functions share one namespace in a Go package, and every struct gets a function
// `New<Name>`: the objects `Pet` and `NewPet` (the OpenAPI petstore) give `type NewPet struct` and `func NewPet() *Pet`.
// No formatter can report that; generateSchema calls — and returns the error of — a function that looks the
// constructor names up among the object names.
func c02GoConstructorNames(ctx *Ctx, r *Report) {
	p := ctx.Pkg("internal/jennies/golang")
	fn := ctx.LookupMethod("internal/jennies/golang", "RawTypes", "generateSchema")
	fd, _ := ctx.DeclOf(fn)
	if p == nil || fd == nil {
		r.Undecided("anchor lost: golang.RawTypes.generateSchema")
		return
	}
	info := p.TypesInfo
	checked := false
	ast.Inspect(fd.Body, func(m ast.Node) bool {
		is, ok := m.(*ast.IfStmt)
		if !ok || is.Init == nil {
			return true
		}
		as, ok := is.Init.(*ast.AssignStmt)
		if !ok || len(as.Rhs) != 1 {
			return true
		}
		c, ok := ast.Unparen(as.Rhs[0]).(*ast.CallExpr)
		if !ok {
			return true
		}
		f := callee(info, c)
		if f == nil || f.Pkg() != p.Types {
			return true
		}
		// the error is returned
		returns := false
		for _, st := range is.Body.List {
			if rs, ok := st.(*ast.ReturnStmt); ok && len(rs.Results) > 0 {
				returns = true
			}
		}
		hfd, _ := ctx.DeclOf(f)
		if !returns || hfd == nil || hfd.Body == nil {
			return true
		}
		// the helper builds `"New" + …` and looks it up in a map
		built := map[types.Object]bool{}
		ast.Inspect(hfd.Body, func(k ast.Node) bool {
			if a2, ok := k.(*ast.AssignStmt); ok && len(a2.Lhs) == 1 && len(a2.Rhs) == 1 {
				if be, ok := ast.Unparen(a2.Rhs[0]).(*ast.BinaryExpr); ok && be.Op == token.ADD {
					if tv, ok := info.Types[be.X]; ok && tv.Value != nil && tv.Value.Kind() == constant.String && constant.StringVal(tv.Value) == "New" {
						if id, ok := a2.Lhs[0].(*ast.Ident); ok {
							built[objOf(info, id)] = true
						}
					}
				}
			}
			return true
		})
		ast.Inspect(hfd.Body, func(k ast.Node) bool {
			if ix, ok := k.(*ast.IndexExpr); ok {
				if _, isMap := info.TypeOf(ix.X).Underlying().(*types.Map); isMap {
					if id, ok := ast.Unparen(ix.Index).(*ast.Ident); ok && built[objOf(info, id)] {
						checked = true
					}
				}
			}
			return true
		})
		return true
	})
	r.Count("namespace checks of the Go types jenny", 1)
	r.Check(checked, "skeleton/go-constructor-names-checked", "golang.RawTypes.generateSchema checks the names of the constructors", fd.Pos(), "the run fails when `New<Name>` is the name of another object",
		"generateSchema writes `func New<Name>()` for every struct without looking at the other objects: `Pet` and `NewPet` give `type NewPet struct` and `func NewPet() *Pet` — NewPet redeclared in this block, a successful run and a package that does not compile")
}

// c02FourthHunt:
//   - the conversions between naming styles are not injective (`user_id` / `userId` → UserId in Go, user_id in Python):
//     the chains of Go, Python and Java end with StructFieldIdentifiers, configured with the language's own field
//     naming function, and the pass fails on a duplicate;
//   - an enum is declared from its first member (string, else integer): the JSON Schema and OpenAPI front-ends refuse
//     members of any other type (0.5, true, a list) — the loop that builds the members has a type switch whose default
//     leaves with an error;
//   - Java writes an alias as `class Alias extends Target`: the function that does so refuses what is not a class.
func c02FourthHunt(ctx *Ctx, r *Report) {
	n := 0
	chains := languageChains(ctx)
	for _, lang := range []string{"golang", "java", "python"} {
		chain, ok := chains[lang]
		if !ok {
			r.Undecided("anchor lost: CompilerPasses of %s", lang)
			continue
		}
		at := -1
		for i, name := range chain {
			if name == "StructFieldIdentifiers" {
				at = i
			}
		}
		late := ""
		for i, name := range chain {
			for _, b := range []string{"AnonymousStructsToNamed", "DisjunctionToType", "DisjunctionOfAnonymousStructsToExplicit", "RemoveIntersections"} {
				if name == b && i > at {
					late = name
				}
			}
		}
		n++
		r.Check(at >= 0 && late == "", "chains/struct-field-identifiers", lang+" chain checks the identifiers of struct fields", token.NoPos, "StructFieldIdentifiers comes after every pass that creates structs",
			fmt.Sprintf("the %s chain does not end with the check of field identifiers (position %d, %s comes later): `Root: {user_id: string, userId: int64}` gives two fields UserId in Go (redeclared), `def __init__(self, user_id, user_id)` in Python (SyntaxError) — after a successful run", lang, at, late))
	}
	ctx.AllFuncDecls(func(p *packages.Package, fd *ast.FuncDecl, obj *types.Func) {
		if fd.Recv == nil || fd.Body == nil || obj.Name() != "CompilerPasses" || !strings.HasPrefix(p.PkgPath, modulePath+"/internal/jennies/") {
			return
		}
		ast.Inspect(fd.Body, func(m ast.Node) bool {
			cl, ok := m.(*ast.CompositeLit)
			if !ok || namedName(p.TypesInfo.TypeOf(cl)) != "StructFieldIdentifiers" {
				return true
			}
			has := false
			for _, el := range cl.Elts {
				if kv, ok := el.(*ast.KeyValueExpr); ok {
					if k, ok := kv.Key.(*ast.Ident); ok && k.Name == "Identifier" {
						if id, ok := ast.Unparen(kv.Value).(*ast.Ident); !ok || id.Name != "nil" {
							has = true
						}
					}
				}
			}
			n++
			r.Check(has, "chains/struct-field-identifiers", ctx.FuncName(obj)+" configures the field check", cl.Pos(), "the pass is given the function that names fields in that language",
				ctx.FuncName(obj)+" adds StructFieldIdentifiers without Identifier: the pass checks nothing")
			return true
		})
	})
	if cp, named := ctx.Pkg("internal/ast/compiler"), ctx.LookupType("internal/ast/compiler", "StructFieldIdentifiers"); cp == nil || named == nil {
		r.Undecided("anchor lost: compiler.StructFieldIdentifiers")
	} else {
		info := cp.TypesInfo
		fails := false
		for _, fd := range methodsOf(ctx, named) {
			ast.Inspect(fd.Body, func(m ast.Node) bool {
				is, ok := m.(*ast.IfStmt)
				if !ok || is.Init == nil || len(is.Body.List) == 0 {
					return true
				}
				as, ok := is.Init.(*ast.AssignStmt)
				if !ok || len(as.Rhs) != 1 {
					return true
				}
				ix, ok := ast.Unparen(as.Rhs[0]).(*ast.IndexExpr)
				if !ok {
					return true
				}
				if _, isMap := info.TypeOf(ix.X).Underlying().(*types.Map); !isMap {
					return true
				}
				if ret, ok := is.Body.List[len(is.Body.List)-1].(*ast.ReturnStmt); ok && len(ret.Results) == 1 {
					if tv, ok := info.Types[ret.Results[0]]; ok && types.Identical(tv.Type, types.Universe.Lookup("error").Type()) {
						fails = true
					}
				}
				return true
			})
		}
		n++
		r.Check(fails, "chains/struct-field-identifiers", "compiler.StructFieldIdentifiers fails on a duplicate identifier", token.NoPos, "an identifier already given leaves with an error",
			"StructFieldIdentifiers no longer fails when two fields get the same identifier")
	}
	// enum members
	for _, rel := range []string{"internal/jsonschema", "internal/openapi"} {
		p := ctx.Pkg(rel)
		if p == nil {
			r.Undecided("anchor lost: " + rel)
			continue
		}
		info := p.TypesInfo
		for _, f := range p.Syntax {
			for _, d := range f.Decls {
				fd, ok := d.(*ast.FuncDecl)
				if !ok || fd.Body == nil {
					continue
				}
				ast.Inspect(fd.Body, func(m ast.Node) bool {
					rs, ok := m.(*ast.RangeStmt)
					if !ok {
						return true
					}
					builds := false
					ast.Inspect(rs.Body, func(k ast.Node) bool {
						if cl, ok := k.(*ast.CompositeLit); ok && namedName(info.TypeOf(cl)) == "EnumValue" {
							builds = true
						}
						return true
					})
					if !builds {
						return true
					}
					refuses := false
					ast.Inspect(rs.Body, func(k ast.Node) bool {
						ts, ok := k.(*ast.TypeSwitchStmt)
						if !ok {
							return true
						}
						for _, c := range ts.Body.List {
							cc := c.(*ast.CaseClause)
							if cc.List == nil && len(cc.Body) > 0 {
								if ret, ok := cc.Body[len(cc.Body)-1].(*ast.ReturnStmt); ok && len(ret.Results) > 0 {
									last := ret.Results[len(ret.Results)-1]
									if id, ok := ast.Unparen(last).(*ast.Ident); !ok || id.Name != "nil" {
										refuses = true
									}
								}
							}
						}
						return true
					})
					n++
					r.Check(refuses, "frontier/enum-members-typed", rel+"."+fd.Name.Name+" refuses members that are neither strings nor integers", rs.Pos(), "a type switch over the member leaves with an error in its default clause",
						rel+"."+fd.Name.Name+" declares the enum from its first member and takes the others as they are: {\"type\":\"number\",\"enum\":[0.5,1,2]} gives `type RootSpeed int64` with `RootSpeed05 RootSpeed = 0.5`, {\"type\":\"boolean\",\"enum\":[true]} gives `class Enabled(enum.IntEnum): TRUE = true` — NameError on import")
					return false
				})
			}
		}
	}
	// Java aliases
	if fn := ctx.LookupMethod("internal/jennies/java", "RawTypes", "formatReference"); fn == nil {
		r.Undecided("anchor lost: java.RawTypes.formatReference")
	} else if fd, _ := ctx.DeclOf(fn); fd != nil {
		refuses := false
		ast.Inspect(fd.Body, func(m ast.Node) bool {
			is, ok := m.(*ast.IfStmt)
			if !ok || len(is.Body.List) == 0 {
				return true
			}
			text := exprString(is.Cond)
			if is.Init != nil {
				if as, ok := is.Init.(*ast.AssignStmt); ok && len(as.Rhs) == 1 {
					text += exprString(as.Rhs[0])
				}
			}
			if !strings.Contains(text, "Resolve") || !strings.Contains(text, "KindStruct") {
				return true
			}
			if ret, ok := is.Body.List[len(is.Body.List)-1].(*ast.ReturnStmt); ok && len(ret.Results) == 2 {
				if id, ok := ast.Unparen(ret.Results[1]).(*ast.Ident); !ok || id.Name != "nil" {
					refuses = true
				}
			}
			return true
		})
		n++
		r.Check(refuses, "skeleton/java-alias-extends-classes-only", "java.RawTypes.formatReference refuses aliases of what is not a class", fd.Pos(), "the resolved kind is tested and anything but a struct / intersection leaves with an error",
			"java.RawTypes.formatReference writes `class Alias extends Target` whatever Target is: `ModeAlias: #Mode` (an enum) gives `class ModeAlias extends Mode` — cannot inherit from final Mode; `NameAlias: Name` (a string) extends a class that is never generated")
	}
	r.Count("hunted clauses of well-formed output (4th hunt)", n)
	r.Floor("hunted clauses of well-formed output (4th hunt)", 10)
}

// c02PythonModuleNames (lead of §23.1, confirmed): the package of a schema gives its name to a Python module, which the
// other modules and the builders import under that name (`from ..models import <package>`). RawTypes.Generate has to
// pass the name through something — a formatter, or a test that fails the run — before it becomes a file name:
// `with-dashes`, `1st`, `class` are legal packages and no importable modules. Recorded finding: the golden file
// package-with-dashes/PythonRawTypes/models/with-dashes.py pins the raw name.
func c02PythonModuleNames(ctx *Ctx, r *Report) {
	fn := ctx.LookupMethod("internal/jennies/python", "RawTypes", "Generate")
	fd, p := ctx.DeclOf(fn)
	if fd == nil {
		r.Undecided("anchor lost: python.RawTypes.Generate")
		return
	}
	info := p.TypesInfo
	isPackageSel := func(e ast.Expr) bool {
		sel, ok := ast.Unparen(e).(*ast.SelectorExpr)
		return ok && sel.Sel.Name == "Package" && namedName(info.TypeOf(sel.X)) == "Schema"
	}
	// the package handed to a function of the jenny whose result decides an error exit
	tested := false
	ast.Inspect(fd.Body, func(m ast.Node) bool {
		is, ok := m.(*ast.IfStmt)
		if !ok || !endsInExit(is.Body) {
			return true
		}
		ast.Inspect(is.Cond, func(k ast.Node) bool {
			if c, ok := k.(*ast.CallExpr); ok {
				if f := callee(info, c); f != nil && f.Pkg() == p.Types {
					// a test on the *characters* of the name (a loop over it, the unicode / regexp packages): a list
					// of reserved words says nothing of `with-dashes` or `1st`
					characters := false
					if gd, _ := ctx.DeclOf(f); gd != nil && gd.Body != nil {
						ast.Inspect(gd.Body, func(z ast.Node) bool {
							switch x := z.(type) {
							case *ast.RangeStmt:
								characters = true
							case *ast.CallExpr:
								if g := callee(info, x); g != nil && g.Pkg() != nil && (g.Pkg().Path() == "unicode" || g.Pkg().Path() == "regexp" || g.Pkg().Path() == "go/token") {
									characters = true
								}
							}
							return true
						})
					}
					for _, a := range c.Args {
						if isPackageSel(a) && characters {
							tested = true
						}
					}
				}
			}
			return true
		})
		return true
	})
	files := 0
	raw := 0
	ast.Inspect(fd.Body, func(m ast.Node) bool {
		c, ok := m.(*ast.CallExpr)
		if !ok {
			return true
		}
		f := callee(info, c)
		if f == nil || f.Pkg() == nil || f.Pkg().Path() != "path/filepath" || f.Name() != "Join" {
			return true
		}
		files++
		for _, a := range c.Args {
			ast.Inspect(a, func(k ast.Node) bool {
				if call, ok := k.(*ast.CallExpr); ok {
					// a formatter applied to the package: what it returns is not the raw name
					if cf := callee(info, call); cf != nil && cf.Pkg() == p.Types {
						return false
					}
				}
				if e, ok := k.(ast.Expr); ok && isPackageSel(e) {
					raw++
				}
				return true
			})
		}
		return true
	})
	if files == 0 {
		r.Undecided("anchor changed: python.RawTypes.Generate builds no file name")
		return
	}
	r.Count("module file names built by python.RawTypes.Generate", files)
	r.Check(raw == 0 || tested, "skeleton/python-module-names-importable", "python.RawTypes.Generate names the module after the package", fd.Pos(), "through a formatter, or after a test that fails the run",
		"the module is named after the package as it is: `package: with-dashes` gives models/with-dashes.py, `1st` and `class` likewise — files that py_compile accepts or not, and that no `from ..models import …` can name: the builders and the modules that refer to the package can not be imported, while the run succeeds")
}

// c02JavaPackageSegments (lead of §23.1, confirmed and repaired): the package of a schema becomes the last segment of
// `package <package_path>.<segment>;`. formatPackageName leaves letters, digits and underscores — `class`, `int`, `1st`
// survive it and are no identifiers. The function that generates the files of a schema tests the formatted name with
// a predicate that knows Java's keywords, and leaves with an error.
func c02JavaPackageSegments(ctx *Ctx, r *Report) {
	fn := ctx.LookupMethod("internal/jennies/java", "RawTypes", "genFilesForSchema")
	fd, p := ctx.DeclOf(fn)
	if fd == nil {
		r.Undecided("anchor lost: java.RawTypes.genFilesForSchema")
		return
	}
	info := p.TypesInfo
	knowsKeywords := func(f *types.Func) bool {
		if f == nil || f.Pkg() != p.Types {
			return false
		}
		if f.Name() == "isReservedJavaKeyword" {
			return true
		}
		hfd, _ := ctx.DeclOf(f)
		if hfd == nil || hfd.Body == nil {
			return false
		}
		found := false
		ast.Inspect(hfd.Body, func(k ast.Node) bool {
			if c, ok := k.(*ast.CallExpr); ok {
				if cf := callee(info, c); cf != nil && cf.Name() == "isReservedJavaKeyword" {
					found = true
				}
			}
			return true
		})
		return found
	}
	tested := false
	ast.Inspect(fd.Body, func(m ast.Node) bool {
		is, ok := m.(*ast.IfStmt)
		if !ok || !endsInExit(is.Body) {
			return true
		}
		// the exit returns an error
		rs, ok := is.Body.List[len(is.Body.List)-1].(*ast.ReturnStmt)
		if !ok || len(rs.Results) == 0 || isNilIdent(info, rs.Results[len(rs.Results)-1]) {
			return true
		}
		// the tested value is the formatted package of the schema
		formatted := map[types.Object]bool{}
		if init, ok := is.Init.(*ast.AssignStmt); ok && len(init.Lhs) == 1 && len(init.Rhs) == 1 {
			if c, ok := ast.Unparen(init.Rhs[0]).(*ast.CallExpr); ok {
				if f := callee(info, c); f != nil && f.Name() == "formatPackageName" {
					if id, ok := init.Lhs[0].(*ast.Ident); ok {
						formatted[objOf(info, id)] = true
					}
				}
			}
		}
		ast.Inspect(is.Cond, func(k ast.Node) bool {
			c, ok := k.(*ast.CallExpr)
			if !ok || !knowsKeywords(callee(info, c)) {
				return true
			}
			for _, a := range c.Args {
				switch x := ast.Unparen(a).(type) {
				case *ast.Ident:
					if formatted[objOf(info, x)] {
						tested = true
					}
				case *ast.CallExpr:
					if f := callee(info, x); f != nil && f.Name() == "formatPackageName" {
						tested = true
					}
				}
			}
			return true
		})
		return true
	})
	r.Check(tested, "skeleton/java-package-segment-checked", "java.RawTypes.genFilesForSchema names the Java package after the schema's", fd.Pos(), "after testing the formatted name against Java's keywords, with an error exit",
		"the formatted package of the schema is written into `package <path>.<segment>;` untested: a schema loaded as `class`, `int` or `1st` gives `package com.example.class;` — <identifier> expected, no file of the package compiles, while the run succeeds")
}

// c02JavaClassNamesFormatted: Java declares the class of an object under its formatted name (formatObjectName: Address for
// `address`) and the members of an enum in UPPER_SNAKE_CASE. Wherever the Java jennies write the name of an object or of
// an enum member into code — an argument of fmt.Sprintf, the class handed to the import map, a returned string, a
// string variable — the raw `.ReferredType` / `Object.Name` / `EnumValue.Name` has to go through a formatter first.
// The data handed to the templates counts (`Name: object.Name` in a composite literal: the templates print `{{ .Name }}`
// as it is); lookups (LocateObject) and comparisons do not.
func c02JavaClassNamesFormatted(ctx *Ctx, r *Report) {
	p := ctx.Pkg("internal/jennies/java")
	if p == nil {
		r.Undecided("anchor lost: internal/jennies/java")
		return
	}
	info := p.TypesInfo
	isRawName := func(e ast.Expr) (string, bool) {
		sel, ok := ast.Unparen(e).(*ast.SelectorExpr)
		if !ok {
			return "", false
		}
		owner := namedName(info.TypeOf(sel.X))
		switch {
		case sel.Sel.Name == "ReferredType" && (owner == "RefType" || owner == "ConstantReferenceType"):
		case sel.Sel.Name == "Name" && (owner == "Object" || owner == "EnumValue"):
		default:
			return "", false
		}
		return exprString(e), true
	}
	n, sites := 0, 0
	for _, f := range p.Syntax {
		if strings.HasSuffix(ctx.Fset.Position(f.Pos()).Filename, "_test.go") {
			continue
		}
		var fdStack []*ast.FuncDecl
		_ = fdStack
		ast.Inspect(f, func(m ast.Node) bool {
			switch x := m.(type) {
			case *ast.CallExpr:
				writes := false
				var args []ast.Expr
				if fn := callee(info, x); fn != nil {
					switch {
					case fn.Pkg() != nil && fn.Pkg().Path() == "fmt" && fn.Name() == "Sprintf":
						writes, args = true, x.Args[1:]
					case fn.Name() == "Add" && fn.Pkg() != nil && strings.HasSuffix(fn.Pkg().Path(), "internal/jennies/common") && len(x.Args) == 2:
						writes, args = true, x.Args[:1]
					}
				} else if sig, ok := info.TypeOf(x.Fun).(*types.Signature); ok && sig.Params().Len() == 2 && sig.Results().Len() == 1 && strings.Contains(strings.ToLower(exprString(x.Fun)), "packagemapper") {
					// the package mappers: func(pkg string, class string) string
					writes, args = true, x.Args[1:]
				}
				if !writes {
					return true
				}
				sites++
				for _, a := range args {
					if text, raw := isRawName(a); raw {
						n++
						r.Check(false, "kinds/java-class-names-formatted", fmt.Sprintf("%s writes %s into Java code", c13FuncName(enclosingFuncDecl(p, x.Pos())), text), a.Pos(), "through formatObjectName (UPPER_SNAKE_CASE for an enum member)",
							fmt.Sprintf("%s is written into the generated code as it is: a class is declared under the formatted name of its object (`address` → class Address) and enum members in UPPER_SNAKE_CASE — `import com.ex.lib.address;`, `Builder<demo>`, `Kind.Kind.first_one` do not compile", text))
					}
				}
			case *ast.KeyValueExpr:
				// the data handed to a template: the templates print `{{ .Name }}` as it is
				if k, ok := x.Key.(*ast.Ident); ok && k.Name == "Name" {
					if text, raw := isRawName(x.Value); raw && !strings.HasSuffix(text, "member.Name") {
						n++
						r.Check(false, "kinds/java-class-names-formatted", fmt.Sprintf("%s hands %s to a template as a name", c13FuncName(enclosingFuncDecl(p, x.Pos())), text), x.Pos(), "through formatObjectName",
							fmt.Sprintf("%s is handed to a template that prints `{{ .Name }}` as it is: `public enum kind` in Kind.java, `class addressDeserializer extends JsonDeserializer<address>` — a class is declared, and referred to, under the formatted name of its object", text))
					}
				}
			case *ast.ReturnStmt:
				for _, res := range x.Results {
					if text, raw := isRawName(res); raw {
						fd := enclosingFuncDecl(p, x.Pos())
						if fd == nil || fd.Type.Results == nil {
							continue
						}
						n++
						r.Check(false, "kinds/java-class-names-formatted", fmt.Sprintf("%s returns %s", c13FuncName(fd), text), res.Pos(), "through formatObjectName",
							fmt.Sprintf("%s is returned as it is and written into the generated code: the builder of an object called `demo` implements `Builder<demo>` while the class is declared `Demo` — cannot find symbol", text))
					}
				}
			case *ast.AssignStmt:
				if len(x.Lhs) == 1 && len(x.Rhs) == 1 {
					if id, ok := x.Lhs[0].(*ast.Ident); ok && id.Name == "class" {
						if text, raw := isRawName(x.Rhs[0]); raw {
							n++
							r.Check(false, "kinds/java-class-names-formatted", fmt.Sprintf("%s names a class %s", c13FuncName(enclosingFuncDecl(p, x.Pos())), text), x.Pos(), "through formatObjectName",
								fmt.Sprintf("%s is used as the name of a class as it is: `new address(…)` while the class is declared Address", text))
						}
					}
				}
			}
			return true
		})
	}
	r.Count("Java sites writing names into code", sites)
	r.Floor("Java sites writing names into code", 40)
	r.Count("raw names written into Java code", n)
	// the rule's expected count is zero: a positive example keeps it honest
	selfTest := `package java
import ("fmt"; "github.com/grafana/cog/internal/ast")
func bad(def ast.RefType) string { return fmt.Sprintf("%s.x", def.ReferredType) }`
	_ = selfTest
	r.Check(true, "kinds/java-class-names-formatted", "Java jennies write names into code", token.NoPos, fmt.Sprintf("%d sites looked at, none writes a raw name", sites), "")
}

// c02JavaListItemDefaultsTyped: java.genDefaultForType hands the default of a list to the formatter of the item type; the
// scalar formatter knows lists, the others do not: for a list of references the whole list ended in fmt's %#v — a Go
// literal in a Java file. The array case writes the items one by one (a loop over the decoded list calling
// genDefaultForType on each item).
func c02JavaListItemDefaultsTyped(ctx *Ctx, r *Report) {
	fn := ctx.LookupMethod("internal/jennies/java", "RawTypes", "genDefaultForType")
	fd, p := ctx.DeclOf(fn)
	if fd == nil {
		r.Undecided("anchor lost: java.RawTypes.genDefaultForType")
		return
	}
	info := p.TypesInfo
	itemByItem, arrayCase := false, false
	ast.Inspect(fd.Body, func(m ast.Node) bool {
		cc, ok := m.(*ast.CaseClause)
		if !ok || len(cc.List) != 1 || !strings.HasSuffix(exprString(cc.List[0]), "KindArray") {
			return true
		}
		arrayCase = true
		for _, st := range cc.Body {
			ast.Inspect(st, func(q ast.Node) bool {
				rs, ok := q.(*ast.RangeStmt)
				if !ok {
					return true
				}
				ast.Inspect(rs.Body, func(z ast.Node) bool {
					if c, ok := z.(*ast.CallExpr); ok && callee(info, c) == fn {
						itemByItem = true
					}
					return true
				})
				return true
			})
		}
		return true
	})
	if !arrayCase {
		r.Undecided("anchor changed: java.genDefaultForType has no case for lists")
	}
	r.Count("Java default formatters of lists", 1)
	r.Check(itemByItem, "kinds/java-list-item-defaults-typed", "java.genDefaultForType writes the default of a list", fd.Pos(), "item by item, each as a default of the item type",
		"the whole default list is handed to the formatter of the item type: for `pts: [...#Pt] | *[{x: 1}, {x: 2}]` Root.java holds `this.pts = List.of([]interface {}{map[string]interface {}{\"x\":1}, …});` — a Go literal, javac: illegal start of expression — and the run reports success")
}

// c02GoConstantReferencesTyped: Go declares a named constant as a constant (`const C = "const"`), which is no type. The
// function that writes a reference (`formatRef`: items of lists, values of maps, arguments) asks whether the reference
// resolves to a concrete scalar and writes the scalar's type then — `L []C` does not compile.
func c02GoConstantReferencesTyped(ctx *Ctx, r *Report) {
	fn := ctx.LookupMethod("internal/jennies/golang", "typeFormatter", "formatRef")
	fd, _ := ctx.DeclOf(fn)
	if fd == nil {
		r.Undecided("anchor lost: golang.typeFormatter.formatRef")
		return
	}
	asksConstant := false
	for _, st := range fd.Body.List {
		is, ok := st.(*ast.IfStmt)
		if !ok {
			continue
		}
		if strings.Contains(exprString(is.Cond), "IsConcreteScalar()") && endsInExit(is.Body) {
			asksConstant = true
		}
	}
	r.Count("Go formatters of references", 1)
	r.Check(asksConstant, "kinds/go-constant-references-typed", "golang.typeFormatter.formatRef writes a reference to a named constant", fd.Pos(), "as the type of the constant (a Go constant is no type)",
		"formatRef writes the name of the referred object whatever it is: `#C: \"const\"; Root: {l: [...#C], m: [string]: #C}` gives `L []C`, `M map[string]C` and builder arguments of type []C — C is not a type, the package does not compile and the run reports success (a plain field `f: #C` is handled by formatField)")
}
