package main

// C16 — builders are derived completely and type-correctly from the schemas.

import (
	"fmt"
	"go/ast"
	"go/token"
	"go/types"
	"regexp"
	"sort"
	"strings"
	"text/template/parse"
)

func init() { register("C16", checkC16) }

func checkC16(ctx *Ctx, r *Report) {
	r.Explanation = "Structural necessary conditions of builder derivation, decided on internal/ast/builder.go: (1) in structObjectToBuilder, every path through the body of the loop over the struct's fields performs exactly one disposition — append to the constructor assignments, append to the options, or the explicit constant-reference skip — so every field is covered exactly once; (2) FromAST visits every object of every schema and appends a builder exactly under the struct-or-reference test on the resolved type; (3) the option derived from a field has one argument with the field's name and type, one assignment whose path is built from that field and whose value is that argument, the field's default under a non-nil test; FieldAssignment takes the constraints of the field's scalar and WithTypeConstraints maps every constraint one-to-one (operator, first argument, the assignment's argument); (4) reference resolution identifies objects by package and name."
	r.NotCovered = "alias chains resolving correctly on concrete schemas (needs evaluation); type-correctness of the derived paths after veneers (C17)."
	r.Exhaustive = true

	p := ctx.Pkg("internal/ast")
	if p == nil {
		r.Undecided("package internal/ast not found")
		return
	}
	info := p.TypesInfo
	builderT := ctx.LookupType("internal/ast", "Builder")
	ctorT := ctx.LookupType("internal/ast", "Constructor")
	if builderT == nil || ctorT == nil {
		r.Undecided("anchor lost: ast.Builder / ast.Constructor")
		return
	}
	optionsF := astField(ctx, "Builder", "Options")
	assignsF := astField(ctx, "Constructor", "Assignments")
	fieldsF := astField(ctx, "StructType", "Fields")

	// ---- (1) exactly-one disposition
	fn := ctx.LookupMethod("internal/ast", "BuilderGenerator", "structObjectToBuilder")
	fd, _ := ctx.DeclOf(fn)
	if fd == nil {
		r.Undecided("anchor lost: BuilderGenerator.structObjectToBuilder")
	} else {
		var loop *ast.RangeStmt
		ast.Inspect(fd.Body, func(n ast.Node) bool {
			if rs, ok := n.(*ast.RangeStmt); ok && fieldOf(info, rs.X) == fieldsF {
				loop = rs
			}
			return true
		})
		if loop == nil {
			r.Undecided("anchor lost: loop over the struct's fields in structObjectToBuilder")
		} else {
			isDisposition := func(st ast.Stmt) string {
				as, ok := st.(*ast.AssignStmt)
				if !ok || len(as.Lhs) != 1 || len(as.Rhs) != 1 {
					return ""
				}
				c, ok := as.Rhs[0].(*ast.CallExpr)
				if !ok || !isBuiltinCall(info, c, "append") {
					return ""
				}
				switch fieldOf(info, as.Lhs[0]) {
				case optionsF:
					return "option"
				case assignsF:
					return "constructor assignment"
				}
				return ""
			}
			countIn := func(stmts []ast.Stmt) (int, string) {
				n, kind := 0, ""
				for _, st := range stmts {
					ast.Inspect(st, func(m ast.Node) bool {
						if s, ok := m.(ast.Stmt); ok {
							if k := isDisposition(s); k != "" {
								n++
								kind = k
							}
						}
						return true
					})
				}
				return n, kind
			}
			var tail []ast.Stmt
			paths := 0
			for i, st := range loop.Body.List {
				is, ok := st.(*ast.IfStmt)
				endsInContinue := false
				if ok && len(is.Body.List) > 0 {
					if br, isBr := is.Body.List[len(is.Body.List)-1].(*ast.BranchStmt); isBr && br.Tok == token.CONTINUE {
						endsInContinue = true
					}
				}
				if !endsInContinue {
					tail = append(tail, st)
					continue
				}
				paths++
				n, kind := countIn(is.Body.List)
				cons := fmt.Sprintf("structObjectToBuilder path #%d (%s)", i+1, exprString(is.Cond))
				// the disposition is a statement of the path itself, not of a further condition inside it
				top := 0
				for _, st := range is.Body.List {
					if isDisposition(st) != "" {
						top++
					}
				}
				switch {
				case n == 1 && top == 0:
					r.Bad("derive/one-disposition", cons, is.Pos(), "the path ends in `continue` for every field satisfying "+exprString(is.Cond)+" but appends its "+kind+" only under a further condition: the other fields of the path get neither an option nor a constructor assignment")
				case n == 1:
					r.OK("derive/one-disposition", cons, is.Pos(), "the path appends exactly one "+kind)
				case n == 0 && isConstRefSkip(info, is.Cond):
					r.OK("derive/one-disposition", cons, is.Pos(), "the documented skip: constant references are rendered by the type's own constructor")
				case n == 0:
					r.Bad("derive/one-disposition", cons, is.Pos(), "fields satisfying "+exprString(is.Cond)+" are skipped: they get neither an option nor a constructor assignment, so the builder cannot set them")
				default:
					r.Bad("derive/one-disposition", cons, is.Pos(), fmt.Sprintf("the path performs %d dispositions: the field is covered more than once", n))
				}
				if is.Else != nil {
					r.Bad("derive/one-disposition", cons+" else", is.Pos(), "unrecognised shape (else branch on an early-continue guard)")
				}
			}
			paths++
			n, kind := countIn(tail)
			r.Check(n == 1, "derive/one-disposition", "structObjectToBuilder fall-through path", loop.Pos(), "the remaining fields get exactly one "+kind,
				fmt.Sprintf("the fall-through path of the field loop performs %d dispositions instead of exactly one", n))
			r.Count("field-loop paths", paths)
			r.Floor("field-loop paths", 3)
		}
	}

	// ---- (2) FromAST
	fn = ctx.LookupMethod("internal/ast", "BuilderGenerator", "FromAST")
	fd, _ = ctx.DeclOf(fn)
	if fd == nil {
		r.Undecided("anchor lost: BuilderGenerator.FromAST")
	} else {
		parents := parentMap(fd)
		var app *ast.AssignStmt
		ast.Inspect(fd.Body, func(n ast.Node) bool {
			if as, ok := n.(*ast.AssignStmt); ok && len(as.Rhs) == 1 {
				if c, ok := as.Rhs[0].(*ast.CallExpr); ok && isBuiltinCall(info, c, "append") {
					if sl, ok := info.TypeOf(as.Lhs[0]).Underlying().(*types.Slice); ok && namedOf(sl.Elem()) == builderT {
						app = as
					}
				}
			}
			return true
		})
		if app == nil {
			r.Undecided("anchor lost: append of the derived builder in FromAST")
		} else {
			// guards: enclosing conditions + earlier `if … { return }` inside the same callback
			var guards []ast.Expr
			for _, c := range enclosingConds(parents, app) {
				guards = append(guards, c.stmt.Cond)
			}
			scope := ast.Node(fd.Body)
			if fl := enclosingFuncLit(parents, app); fl != nil {
				scope = fl.Body
			}
			ast.Inspect(scope, func(n ast.Node) bool {
				is, ok := n.(*ast.IfStmt)
				if !ok || is.Pos() > app.Pos() || containsNode(is, app) || len(is.Body.List) == 0 {
					return true
				}
				switch last := is.Body.List[len(is.Body.List)-1].(type) {
				case *ast.ReturnStmt:
					guards = append(guards, is.Cond)
				case *ast.BranchStmt:
					if last.Tok == token.CONTINUE {
						guards = append(guards, is.Cond)
					}
				}
				return true
			})
			okGuard := len(guards) == 1
			if okGuard {
				// the single guard is a kind test naming struct and ref on a ResolveToType result
				txt := exprString(guards[0])
				okGuard = strings.Contains(txt, "KindStruct") && !strings.Contains(txt, "||") && !strings.Contains(txt, "&&") || strings.Contains(txt, "IsStructOrRef") || strings.HasSuffix(txt, ".IsStruct()") && strings.HasPrefix(txt, "!")
			}
			var gtxt []string
			for _, g := range guards {
				gtxt = append(gtxt, exprString(g))
			}
			r.Check(okGuard, "derive/builder-iff-struct", "BuilderGenerator.FromAST guard", app.Pos(), "a builder is derived exactly when the resolved type is a struct",
				"builders are derived under ["+strings.Join(gtxt, "; ")+"] instead of the single struct-or-reference test on the resolved type: some struct objects get no builder (or non-structs get one)")
			// every object of every schema: the append sits in an Iterate callback (or range) over Objects inside a range over schemas
			inObjects, inSchemas := false, false
			for n := parents[ast.Node(app)]; n != nil; n = parents[n] {
				switch x := n.(type) {
				case *ast.CallExpr:
					if c := callee(info, x); c != nil && funcIs(c, omapPkgPath, "Map.Iterate") {
						inObjects = true
					}
				case *ast.RangeStmt:
					if namedName(info.TypeOf(x.X)) == "Schemas" {
						inSchemas = true
					}
				}
			}
			r.Check(inObjects && inSchemas, "derive/builder-iff-struct", "BuilderGenerator.FromAST enumeration", app.Pos(), "every object of every schema is examined", "FromAST no longer enumerates every object of every schema")
		}
	}

	// ---- (3) option shape
	c16OptionShape(ctx, r)

	// ---- (4) resolution identity
	c16ResolutionIdentity(ctx, r)

	// ---- (5) found by a bug hunt: constants through references, constraints through references
	c16ConstantBranchesAgree(ctx, r)
	c09ConstraintsThroughReferences(ctx, r)
	c10ConstantRefToEnum(ctx, r)
	c16SecondHunt(ctx, r)
	c16ThirdHunt(ctx, r)
	c16FourthHunt(ctx, r)
	c16FifthHunt(ctx, r)
	c16SixthHunt(ctx, r)
	c16DismissalNeedsLostOptions(ctx, r)
}

func isConstRefSkip(info *types.Info, cond ast.Expr) bool {
	c, ok := ast.Unparen(cond).(*ast.CallExpr)
	if !ok {
		return false
	}
	fn := callee(info, c)
	return fn != nil && fn.Name() == "IsConstantRef"
}

func c16OptionShape(ctx *Ctx, r *Report) {
	p := ctx.Pkg("internal/ast")
	info := p.TypesInfo
	sfName := astField(ctx, "StructField", "Name")
	sfType := astField(ctx, "StructField", "Type")
	tDefault := astField(ctx, "Type", "Default")

	// structFieldToOption
	fn := ctx.LookupMethod("internal/ast", "BuilderGenerator", "structFieldToOption")
	fd, _ := ctx.DeclOf(fn)
	if fd == nil {
		r.Undecided("anchor lost: BuilderGenerator.structFieldToOption")
		return
	}
	sig := fn.Type().(*types.Signature)
	fieldParam := sig.Params().At(0)
	fromField := func(e ast.Expr, f *types.Var) bool {
		sel, ok := ast.Unparen(e).(*ast.SelectorExpr)
		return ok && fieldOf(info, sel) == f && isIdentOf(info, sel.X, fieldParam)
	}
	var optLit *ast.CompositeLit
	ast.Inspect(fd.Body, func(n ast.Node) bool {
		if cl, ok := n.(*ast.CompositeLit); ok && namedName(info.TypeOf(cl)) == "Option" && optLit == nil {
			optLit = cl
		}
		return true
	})
	if optLit == nil {
		r.Undecided("anchor lost: Option literal in structFieldToOption")
		return
	}
	kv := map[string]ast.Expr{}
	for _, el := range optLit.Elts {
		if k, ok := el.(*ast.KeyValueExpr); ok {
			kv[exprString(k.Key)] = k.Value
		}
	}
	r.Check(kv["Name"] != nil && fromField(kv["Name"], sfName), "derive/option-shape", "option name", optLit.Pos(), "option is named after the field", "the derived option is not named after its field")
	// Args: exactly one Argument{Name: field.Name, Type: field.Type}
	okArgs := false
	if al, ok := ast.Unparen(kv["Args"]).(*ast.CompositeLit); ok && len(al.Elts) == 1 {
		if arg, ok := al.Elts[0].(*ast.CompositeLit); ok {
			am := map[string]ast.Expr{}
			for _, el := range arg.Elts {
				if k, ok := el.(*ast.KeyValueExpr); ok {
					am[exprString(k.Key)] = k.Value
				}
			}
			okArgs = am["Name"] != nil && am["Type"] != nil && fromField(am["Name"], sfName) && fromField(am["Type"], sfType)
		}
	}
	r.Check(okArgs, "derive/option-shape", "option argument", optLit.Pos(), "exactly one argument, with the field's name and type", "the derived option does not declare exactly one argument carrying the field's name and type")
	// Assignments: exactly one FieldAssignment(field)
	fieldAssignment := ctx.LookupFunc("internal/ast", "FieldAssignment")
	okAssign := false
	if al, ok := ast.Unparen(kv["Assignments"]).(*ast.CompositeLit); ok && len(al.Elts) == 1 {
		if c, ok := ast.Unparen(al.Elts[0]).(*ast.CallExpr); ok && callee(info, c) == fieldAssignment && len(c.Args) >= 1 && isIdentOf(info, c.Args[0], fieldParam) {
			okAssign = true
		}
	}
	r.Check(okAssign, "derive/option-shape", "option assignment", optLit.Pos(), "exactly one assignment, FieldAssignment(field)", "the derived option does not hold exactly one assignment built from its field")
	// Default under non-nil test
	okDef := false
	parents := parentMap(fd)
	ast.Inspect(fd.Body, func(n ast.Node) bool {
		as, ok := n.(*ast.AssignStmt)
		if !ok || len(as.Lhs) != 1 {
			return true
		}
		if f := fieldOf(info, as.Lhs[0]); f == nil || f.Name() != "Default" {
			return true
		}
		uses := false
		ast.Inspect(as.Rhs[0], func(m ast.Node) bool {
			if e, ok := m.(ast.Expr); ok && fieldOf(info, e) == tDefault {
				uses = true
			}
			return true
		})
		guard := false
		for _, c := range enclosingConds(parents, as) {
			if be, ok := ast.Unparen(c.stmt.Cond).(*ast.BinaryExpr); ok && be.Op == token.NEQ && fieldOf(info, be.X) == tDefault && isNilIdent(info, be.Y) && !c.inElse {
				guard = true
			}
		}
		if uses && guard {
			okDef = true
		}
		return true
	})
	r.Check(okDef, "derive/option-shape", "option default", fd.Pos(), "the option's default is the field type's default, set exactly when it is non-nil", "the option's default is not taken from the field type's default under a non-nil test")

	// FieldAssignment: path from the field, argument from the field, constraints of the scalar
	fd2, _ := ctx.DeclOf(fieldAssignment)
	if fd2 == nil {
		r.Undecided("anchor lost: ast.FieldAssignment")
		return
	}
	fparam := fieldAssignment.Type().(*types.Signature).Params().At(0)
	fromF := func(e ast.Expr, f *types.Var) bool {
		sel, ok := ast.Unparen(e).(*ast.SelectorExpr)
		return ok && fieldOf(info, sel) == f && isIdentOf(info, sel.X, fparam)
	}
	pathFrom := ctx.LookupFunc("internal/ast", "PathFromStructField")
	withCons := ctx.LookupFunc("internal/ast", "WithTypeConstraints")
	okPath, okArg, okCons := false, false, false
	ast.Inspect(fd2.Body, func(n ast.Node) bool {
		switch x := n.(type) {
		case *ast.CallExpr:
			c := callee(info, x)
			if c == pathFrom && len(x.Args) == 1 && isIdentOf(info, x.Args[0], fparam) {
				okPath = true
			}
			if c == withCons {
				okCons = true
			}
		case *ast.CompositeLit:
			if namedName(info.TypeOf(x)) == "Argument" {
				am := map[string]ast.Expr{}
				for _, el := range x.Elts {
					if k, ok := el.(*ast.KeyValueExpr); ok {
						am[exprString(k.Key)] = k.Value
					}
				}
				if am["Name"] != nil && am["Type"] != nil && fromF(am["Name"], sfName) && fromF(am["Type"], sfType) {
					okArg = true
				}
			}
		}
		return true
	})
	r.Check(okPath, "derive/assignment-shape", "FieldAssignment path", fd2.Pos(), "the assignment targets PathFromStructField(field)", "FieldAssignment no longer targets the path built from its field")
	r.Check(okArg, "derive/assignment-shape", "FieldAssignment argument", fd2.Pos(), "the assigned value is an argument with the field's name and type", "FieldAssignment no longer assigns an argument carrying the field's name and type")
	r.Check(okCons, "derive/assignment-shape", "FieldAssignment constraints", fd2.Pos(), "the scalar's constraints are handed to WithTypeConstraints", "FieldAssignment no longer copies the field's scalar constraints")

	// WithTypeConstraints: 1:1 mapping
	fd3, _ := ctx.DeclOf(withCons)
	if fd3 == nil {
		r.Undecided("anchor lost: ast.WithTypeConstraints")
		return
	}
	cparam := withCons.Type().(*types.Signature).Params().At(0)
	oneToOne, why := false, "assignment.Constraints is not produced element by element from the constraints parameter"
	parents3 := parentMap(fd3)
	ast.Inspect(fd3.Body, func(n ast.Node) bool {
		as, ok := n.(*ast.AssignStmt)
		if !ok || len(as.Lhs) != 1 || len(as.Rhs) != 1 {
			return true
		}
		if f := fieldOf(info, as.Lhs[0]); f == nil || f.Name() != "Constraints" {
			return true
		}
		c, ok := ast.Unparen(as.Rhs[0]).(*ast.CallExpr)
		if !ok {
			return true
		}
		if fn := callee(info, c); fn != nil && funcIs(fn, toolsPkgPath, "Map") && len(c.Args) == 2 && isIdentOf(info, c.Args[0], cparam) {
			if len(enclosingConds(parents3, as)) == 0 {
				oneToOne = true
			} else {
				why = "the mapping of constraints is conditional"
			}
		}
		if isBuiltinCall(info, c, "append") {
			// loop form: must be inside `range constraints` with no condition / continue
			for _, l := range enclosingLoops(parents3, as) {
				if rs, ok := l.(*ast.RangeStmt); ok && isIdentOf(info, rs.X, cparam) {
					cond := false
					for _, cc := range enclosingConds(parents3, as) {
						if containsNode(rs.Body, cc.stmt) {
							cond = true
						}
					}
					hasContinue := false
					ast.Inspect(rs.Body, func(m ast.Node) bool {
						if br, ok := m.(*ast.BranchStmt); ok && (br.Tok == token.CONTINUE || br.Tok == token.BREAK) {
							hasContinue = true
						}
						return true
					})
					if !cond && !hasContinue {
						oneToOne = true
					} else {
						why = "some constraints are skipped or replaced while copying (conditional append / continue in the loop)"
					}
				}
			}
		}
		return true
	})
	r.Check(oneToOne, "derive/constraints-one-to-one", "WithTypeConstraints", fd3.Pos(), "every type constraint yields exactly one assignment constraint", "WithTypeConstraints: "+why+": the builder accepts values the schema forbids")
	// the produced AssignmentConstraint carries Op, Args[0] and the assignment's argument
	okFields := false
	ast.Inspect(fd3.Body, func(n ast.Node) bool {
		cl, ok := n.(*ast.CompositeLit)
		if !ok || namedName(info.TypeOf(cl)) != "AssignmentConstraint" {
			return true
		}
		am := map[string]string{}
		for _, el := range cl.Elts {
			if k, ok := el.(*ast.KeyValueExpr); ok {
				am[exprString(k.Key)] = exprString(k.Value)
			}
		}
		if strings.HasSuffix(am["Op"], ".Op") && strings.HasSuffix(am["Parameter"], ".Args[0]") && strings.Contains(am["Argument"], "Value.Argument") {
			okFields = true
		}
		return true
	})
	r.Check(okFields, "derive/constraints-one-to-one", "AssignmentConstraint fields", fd3.Pos(), "operator, first argument and the assignment's argument are carried over", "the assignment constraint no longer carries the type constraint's operator / parameter / the assignment's argument")
}

// c16ResolutionIdentity: in the reference-resolution functions of internal/ast, a
// map keyed by something derived from a RefType must use both package and name.
func c16ResolutionIdentity(ctx *Ctx, r *Report) {
	p := ctx.Pkg("internal/ast")
	info := p.TypesInfo
	refPkg := astField(ctx, "RefType", "ReferredPkg")
	refType := astField(ctx, "RefType", "ReferredType")
	n := 0
	for _, file := range p.Syntax {
		for _, d := range file.Decls {
			fd, ok := d.(*ast.FuncDecl)
			if !ok || fd.Body == nil || !(strings.HasPrefix(fd.Name.Name, "Resolve") || strings.HasPrefix(fd.Name.Name, "Locate")) {
				continue
			}
			n++
			fobj, _ := info.Defs[fd.Name].(*types.Func)
			bad := ""
			ast.Inspect(fd.Body, func(m ast.Node) bool {
				ix, ok := m.(*ast.IndexExpr)
				if !ok {
					return true
				}
				if _, isMap := info.TypeOf(ix.X).Underlying().(*types.Map); !isMap {
					return true
				}
				usesType, usesPkg, usesString := false, false, false
				ast.Inspect(ix.Index, func(k ast.Node) bool {
					if e, ok := k.(ast.Expr); ok {
						switch fieldOf(info, e) {
						case refType:
							usesType = true
						case refPkg:
							usesPkg = true
						}
					}
					if c, ok := k.(*ast.CallExpr); ok {
						if fn := callee(info, c); fn != nil && fn.Name() == "String" {
							usesString = true
						}
					}
					return true
				})
				if usesType && !usesPkg && !usesString {
					bad = exprString(ix)
				}
				return true
			})
			r.Check(bad == "", "derive/resolution-identity", ctx.FuncName(fobj), fd.Pos(), "objects are identified by package and name", "the lookup "+bad+" identifies a referenced object by its name only: two objects with the same name in different packages are confused while following references")
		}
	}
	r.Count("resolution functions", n)
	r.Floor("resolution functions", 5)
}

// c16ConstantBranchesAgree: a field whose value the schema fixes is set by the constructor whether the constant is
// written in place or reached through a reference. In structObjectToBuilder the branches that append a constant
// assignment must not differ in what they demand of the field itself (Required, Nullable): an optional reference to
// a constant that falls through to the option branch becomes an option typed by the constant.
func c16ConstantBranchesAgree(ctx *Ctx, r *Report) {
	fn := ctx.LookupMethod("internal/ast", "BuilderGenerator", "structObjectToBuilder")
	fd, p := ctx.DeclOf(fn)
	if fd == nil || fd.Body == nil {
		r.Undecided("anchor lost: BuilderGenerator.structObjectToBuilder")
		return
	}
	info := p.TypesInfo
	type branch struct {
		is    *ast.IfStmt
		extra []string
	}
	var branches []branch
	ast.Inspect(fd.Body, func(n ast.Node) bool {
		is, ok := n.(*ast.IfStmt)
		if !ok {
			return true
		}
		constant := false
		ast.Inspect(is.Body, func(m ast.Node) bool {
			if c, ok := m.(*ast.CallExpr); ok {
				if f := callee(info, c); f != nil && f.Name() == "ConstantAssignment" {
					constant = true
				}
			}
			return true
		})
		if !constant {
			return true
		}
		var extra []string
		var conj func(e ast.Expr)
		conj = func(e ast.Expr) {
			if be, ok := ast.Unparen(e).(*ast.BinaryExpr); ok && be.Op == token.LAND {
				conj(be.X)
				conj(be.Y)
				return
			}
			txt := exprString(e)
			if strings.Contains(txt, ".Required") || strings.Contains(txt, ".Nullable") {
				extra = append(extra, txt)
			}
		}
		conj(is.Cond)
		sort.Strings(extra)
		branches = append(branches, branch{is, extra})
		return true
	})
	r.Count("constant branches of structObjectToBuilder", len(branches))
	r.Floor("constant branches of structObjectToBuilder", 2)
	for i, b := range branches {
		same := strings.Join(b.extra, " && ") == strings.Join(branches[0].extra, " && ")
		r.Check(same, "siblings/constant-branches-agree", fmt.Sprintf("structObjectToBuilder constant branch #%d", i+1), b.is.Pos(),
			"the branch puts the same demands on the field (required / nullable) as the other constant branches",
			"this constant branch also demands ["+strings.Join(b.extra, ", ")+"] of the field while another one demands ["+strings.Join(branches[0].extra, ", ")+"]: a field fixed by the schema that fails the extra test falls through to the option branch — an optional reference to a constant becomes an option whose argument is typed by the constant (`func OptC(optC Const)`: Const is not a type)")
	}
}

// c16SecondHunt — a builder has to be usable for every object that resolves to a struct, aliases included.
// (a) Go: a field referring to a constant is declared with the constant's own type (golang.formatField): the
// assignment templates must not take the address of a constant they assign to such a field — the conditions that
// decide `&val…` / `val… :=` mention IsConcreteScalar. (b) Go: the builder of an alias calls New<Alias>(): the
// constructor generator decides "is it a struct" on the resolved type, so that an alias of an alias gets one.
// (c) Python: an alias is a string at run time (`typing.TypeAlias = 'Inner'`): what __init__ instantiates is computed
// by following the references, not the alias's own name.
func c16SecondHunt(ctx *Ctx, r *Report) {
	// (a)
	if ts, err := loadTemplates(ctx, "golang"); err != nil {
		r.Undecided("templates of golang: %v", err)
	} else {
		n := 0
		for _, name := range []string{"assignment_value", "assignment_setup"} {
			tree := ts.trees[name]
			if tree == nil {
				r.Undecided("anchor lost: golang template %q", name)
				continue
			}
			decls := varDecls(tree.Root)
			walkTmpl(tree.Root, func(m parse.Node) bool {
				in, ok := m.(*parse.IfNode)
				if !ok || in.List == nil {
					return true
				}
				// the then-part writes the address of / declares the constant's variable, directly
				direct := false
				text := ""
				for _, c := range in.List.Nodes {
					switch x := c.(type) {
					case *parse.TextNode:
						text += string(x.Text)
						if strings.Contains(text, "val") && strings.Contains(text, ":=") {
							direct = true
						}
					case *parse.ActionNode:
						if strings.Contains(x.String(), `"&val"`) {
							direct = true
						}
					}
				}
				if !direct {
					return true
				}
				n++
				cond := in.Pipe.String()
				for i := 0; i < 2; i++ {
					cond = regexp.MustCompile(`\$[A-Za-z0-9_]+`).ReplaceAllStringFunc(cond, func(v string) string {
						if d, ok := decls[v]; ok {
							return "(" + d + ")"
						}
						return v
					})
				}
				r.Check(strings.Contains(cond, "IsConcreteScalar"), "skeleton/go-constant-field-not-pointer", fmt.Sprintf("golang %s pointer decision #%d", name, n), token.NoPos,
					ts.posOf(ctx, name, in)+": references to constants are excluded, as golang.formatField declares them by value",
					ts.posOf(ctx, name, in)+": the constant is assigned through a pointer whenever the target is nullable ("+in.Pipe.String()+"): a field referring to a constant is declared with the constant's own type (`OptC string`) even when optional — `builder.internal.OptC = &valOptC` does not compile")
				return true
			})
		}
		r.Count("pointer decisions for constants in the Go assignment templates", n)
		r.Floor("pointer decisions for constants in the Go assignment templates", 2)
	}
	// (b)
	if fn := ctx.LookupMethod("internal/jennies/golang", "RawTypes", "generateConstructor"); fn == nil {
		r.Undecided("anchor lost: golang.RawTypes.generateConstructor")
	} else {
		fd, p := ctx.DeclOf(fn)
		info := p.TypesInfo
		n := 0
		ast.Inspect(fd.Body, func(m ast.Node) bool {
			is, ok := m.(*ast.IfStmt)
			if !ok {
				return true
			}
			c, ok := ast.Unparen(is.Cond).(*ast.CallExpr)
			if !ok {
				return true
			}
			if f := callee(info, c); f == nil || f.Name() != "IsRef" {
				return true
			}
			ast.Inspect(is.Body, func(q ast.Node) bool {
				call, ok := q.(*ast.CallExpr)
				if !ok {
					return true
				}
				f := callee(info, call)
				if f == nil || f.Name() != "IsStruct" {
					return true
				}
				n++
				sel, _ := call.Fun.(*ast.SelectorExpr)
				resolved := false
				if sel != nil {
					if rc, ok := ast.Unparen(sel.X).(*ast.CallExpr); ok {
						if rf := callee(info, rc); rf != nil && strings.HasPrefix(rf.Name(), "Resolve") {
							resolved = true
						}
					}
				}
				r.Check(resolved, "skeleton/go-alias-constructor-chain", "golang.generateConstructor alias branch tests the resolved type", call.Pos(), "an alias of an alias of a struct gets a constructor",
					"the constructor of an alias is only written when the object it refers to is a struct itself ("+exprString(call)+"): for `A2: A1`, `A1: Inner` there is no NewA2(), which the builder of A2 calls — undefined: NewA2")
				return true
			})
			return false
		})
		r.Count("struct tests in the alias branch of the Go constructor", n)
		r.Floor("struct tests in the alias branch of the Go constructor", 1)
	}
	// (c)
	if ts, err := loadTemplates(ctx, "python"); err != nil {
		r.Undecided("templates of python: %v", err)
	} else if tree := ts.trees["builders/builder.tmpl"]; tree == nil {
		r.Undecided("anchor lost: python template builders/builder.tmpl")
	} else {
		instantiated := ""
		var prev parse.Node
		walkTmpl(tree.Root, func(m parse.Node) bool {
			if an, ok := m.(*parse.ActionNode); ok {
				if t, ok := prev.(*parse.TextNode); ok && strings.HasSuffix(strings.TrimRight(string(t.Text), " "), "self._internal =") {
					instantiated = an.Pipe.String()
				}
			}
			switch m.(type) {
			case *parse.TextNode, *parse.ActionNode:
				prev = m
			}
			return true
		})
		followed := false
		if fn := ctx.LookupMethod("internal/jennies/python", "Builder", "generateBuilder"); fn != nil {
			if fd, p := ctx.DeclOf(fn); fd != nil {
				ast.Inspect(fd.Body, func(m ast.Node) bool {
					if lp, ok := m.(*ast.ForStmt); ok {
						ast.Inspect(lp, func(q ast.Node) bool {
							if c, ok := q.(*ast.CallExpr); ok {
								if f := callee(p.TypesInfo, c); f != nil && strings.HasPrefix(f.Name(), "LocateObject") {
									followed = true
								}
							}
							return true
						})
					}
					return true
				})
			}
		}
		// the same on the models' side: the default of a field typed by a reference instantiates the referred class —
		// never an alias, which defaultValueForTypeRec follows first
		if fn := ctx.LookupFunc("internal/jennies/python", "defaultValueForTypeRec"); fn == nil {
			r.Undecided("anchor lost: python.defaultValueForTypeRec")
		} else if fd, p := ctx.DeclOf(fn); fd != nil {
			followsAlias := false
			ast.Inspect(fd.Body, func(m ast.Node) bool {
				is, ok := m.(*ast.IfStmt)
				if !ok {
					return true
				}
				cond := exprString(is.Cond)
				if !strings.Contains(cond, ".Type.IsRef()") {
					return true
				}
				ast.Inspect(is.Body, func(q ast.Node) bool {
					if c, ok := q.(*ast.CallExpr); ok && callee(p.TypesInfo, c) == fn {
						followsAlias = true
					}
					return true
				})
				return true
			})
			r.Count("instantiations in the Python builder template", 1)
			r.Check(followsAlias, "skeleton/python-alias-builder-instantiates-struct", "python.defaultValueForTypeRec follows aliases before instantiating", fd.Pos(), "the default of a reference to an alias is the default of what the alias names",
				"the default of a field typed by a reference is `Name()` whatever the referred object: for an alias (a string at run time) the model's constructor raises TypeError: 'str' object is not callable")
		}
		r.Count("instantiations in the Python builder template", 1)
		r.Check(instantiated != "" && instantiated != ".ObjectName" && instantiated != ".BuilderSignatureType" && followed, "skeleton/python-alias-builder-instantiates-struct", "python builder __init__ instantiates the class at the end of the alias chain", token.NoPos,
			"__init__ instantiates "+instantiated+", computed by following the references",
			"__init__ instantiates the built object's own name ("+instantiated+"): for an alias (`AliasInner: typing.TypeAlias = 'Inner'`, a string at run time) the builder raises TypeError: 'str' object is not callable")
	}
}

// c16DismissalNeedsLostOptions: the rewriter dismisses the builders that have no option left once the option rules have
// run ("every option omitted" is how a veneer drops a builder). A builder that never had any option — a struct whose
// fields are all fixed by the schema — was not dismissed by anybody: the test that drops a builder looks at what the
// builder had before the rules, not only at what is left. (Shared with C17: builders not selected by a rule are unchanged.)
func c16DismissalNeedsLostOptions(ctx *Ctx, r *Report) {
	fn := ctx.LookupMethod("internal/veneers/rewrite", "Rewriter", "applyOptionRules")
	fd, p := ctx.DeclOf(fn)
	if fd == nil {
		r.Undecided("anchor lost: rewrite.Rewriter.applyOptionRules")
		return
	}
	info := p.TypesInfo
	// variables written before the loop over the rules
	before := map[types.Object]bool{}
	var rulesLoop *ast.RangeStmt
	for _, st := range fd.Body.List {
		if rs, ok := st.(*ast.RangeStmt); ok && rulesLoop == nil {
			if nt := namedOf(info.TypeOf(rs.Value)); nt != nil && nt.Obj().Name() == "RewriteRule" {
				rulesLoop = rs
				continue
			}
		}
		if rulesLoop == nil {
			ast.Inspect(st, func(m ast.Node) bool {
				if as, ok := m.(*ast.AssignStmt); ok {
					for _, l := range as.Lhs {
						if root := rootIdent(l); root != nil {
							before[objOf(info, root)] = true
						}
					}
				}
				return true
			})
		}
	}
	if rulesLoop == nil {
		r.Undecided("anchor changed: applyOptionRules no longer ranges over the rules")
		return
	}
	// the tests on `len(X.Options)` made after the loop over the rules
	n := 0
	ast.Inspect(fd.Body, func(m ast.Node) bool {
		be, ok := m.(*ast.BinaryExpr)
		if !ok || (be.Op != token.EQL && be.Op != token.NEQ) || be.Pos() < rulesLoop.End() {
			return true
		}
		if c, ok := ast.Unparen(be.X).(*ast.CallExpr); !ok || !isBuiltinCall(info, c, "len") || !strings.HasSuffix(exprString(c.Args[0]), ".Options") {
			return true
		}
		n++
		// the enclosing condition
		parents := parentMap(fd)
		var top ast.Expr = be
		for {
			pe, ok := parents[ast.Node(top)].(ast.Expr)
			if !ok {
				break
			}
			if _, isBin := pe.(*ast.BinaryExpr); !isBin {
				if _, isParen := pe.(*ast.ParenExpr); !isParen {
					break
				}
			}
			top = pe
		}
		usesBefore := false
		ast.Inspect(top, func(k ast.Node) bool {
			if id, ok := k.(*ast.Ident); ok && before[objOf(info, id)] {
				if _, isVar := objOf(info, id).(*types.Var); isVar && !isParamOf(info, fd, objOf(info, id)) {
					usesBefore = true
				}
			}
			return true
		})
		r.Check(usesBefore, "effects/dismissal-needs-lost-options", "rewrite.Rewriter.applyOptionRules dismisses a builder", be.Pos(), "the test also reads what the builder had before the rules",
			"applyOptionRules drops every builder without options, whether or not a rule removed them: `OnlyConst: {kind: \"x\"}` (every field fixed) gets a builder from FromAST and loses it here, with no veneer at all — `Main.oc` then takes a raw value instead of a builder")
		return true
	})
	r.Count("dismissal tests of the rewriter", n)
	r.Floor("dismissal tests of the rewriter", 1)
}

// c16ThirdHunt: (a) a field that refers to an object whose type is a constant reference (`KA: Kind & "a"`, `k: KA`) is
// fixed by the schema: structObjectToBuilder tests IsConstantRef on the *resolved* type of the field and adds a
// constructor constant; (b) the fields of a struct generated from a disjunction are its branches: structObjectToBuilder
// tests IsStructGeneratedFromDisjunction before it turns concrete scalars into constructor constants, and the Go
// constructor (defaultsForStructRec) does not preset them either.
func c16ThirdHunt(ctx *Ctx, r *Report) {
	fn := ctx.LookupMethod("internal/ast", "BuilderGenerator", "structObjectToBuilder")
	fd, p := ctx.DeclOf(fn)
	if fd == nil {
		r.Undecided("anchor lost: BuilderGenerator.structObjectToBuilder")
		return
	}
	info := p.TypesInfo
	resolvedVars := map[types.Object]bool{}
	ast.Inspect(fd.Body, func(m ast.Node) bool {
		as, ok := m.(*ast.AssignStmt)
		if !ok || len(as.Lhs) != 1 || len(as.Rhs) != 1 {
			return true
		}
		if c, ok := ast.Unparen(as.Rhs[0]).(*ast.CallExpr); ok {
			if f := callee(info, c); f != nil && f.Name() == "ResolveToType" {
				if id, ok := as.Lhs[0].(*ast.Ident); ok {
					resolvedVars[objOf(info, id)] = true
				}
			}
		}
		return true
	})
	appendsTo := func(body *ast.BlockStmt, field string) bool {
		found := false
		ast.Inspect(body, func(k ast.Node) bool {
			if as, ok := k.(*ast.AssignStmt); ok && len(as.Lhs) == 1 {
				if ff := fieldOf(info, as.Lhs[0]); ff != nil && ff.Name() == field {
					found = true
				}
			}
			return true
		})
		return found
	}
	fixed, branches := false, false
	var branchTestPos, concretePos token.Pos
	ast.Inspect(fd.Body, func(m ast.Node) bool {
		switch x := m.(type) {
		case *ast.IfStmt:
			cond := exprString(x.Cond)
			// (a)
			ast.Inspect(x.Cond, func(k ast.Node) bool {
				if c, ok := k.(*ast.CallExpr); ok {
					if sel, ok := c.Fun.(*ast.SelectorExpr); ok && sel.Sel.Name == "IsConstantRef" {
						if id, ok := ast.Unparen(sel.X).(*ast.Ident); ok && resolvedVars[objOf(info, id)] && appendsTo(x.Body, "Assignments") {
							fixed = true
						}
					}
				}
				return true
			})
			if strings.Contains(cond, "IsConcrete") && !concretePos.IsValid() {
				concretePos = x.Pos()
			}
		case *ast.CallExpr:
			if sel, ok := x.Fun.(*ast.SelectorExpr); ok && sel.Sel.Name == "IsStructGeneratedFromDisjunction" && !branchTestPos.IsValid() {
				branchTestPos = x.Pos()
			}
		}
		return true
	})
	// (b) a variable or condition derived from IsStructGeneratedFromDisjunction guards an append to the options that comes
	// before the concrete-scalar test
	if branchTestPos.IsValid() && concretePos.IsValid() && branchTestPos < concretePos {
		branches = true
	}
	r.Count("hunted clauses of builder derivation (3rd round)", 3)
	r.Check(fixed, "skeleton/ref-to-constant-ref-is-fixed", "ast.BuilderGenerator.structObjectToBuilder fixes references to constant references", fd.Pos(), "a field whose resolved type is a constant reference gets a constructor constant",
		"structObjectToBuilder only looks for constant references on the field itself: with `Kind: \"a\"|\"b\"; KA: Kind & \"a\"; Main: {k: KA}` the field k — fixed by the schema — becomes an option, and the Python builder starts from k == ''")
	r.Check(branches, "skeleton/union-wrapper-branches-are-options", "ast.BuilderGenerator.structObjectToBuilder treats the fields of a union wrapper as branches", fd.Pos(), "the struct-generated-from-disjunction test comes before concrete scalars are turned into constructor constants",
		"structObjectToBuilder turns every concrete scalar field into a constructor constant, also in a struct generated from a disjunction: `x: \"auto\" | int` gives the builder StringOrInt64 constructor{String = \"auto\"} option{Int64}, and Int64(5).Build() is encoded \"auto\"")
	// Go constructor
	gfn := ctx.LookupMethod("internal/jennies/golang", "RawTypes", "defaultsForStructRec")
	gfd, _ := ctx.DeclOf(gfn)
	if gfd == nil {
		r.Undecided("anchor lost: golang.RawTypes.defaultsForStructRec")
		return
	}
	skips := false
	var loop *ast.RangeStmt
	ast.Inspect(gfd.Body, func(m ast.Node) bool {
		if rs, ok := m.(*ast.RangeStmt); ok && loop == nil && strings.HasSuffix(exprString(rs.X), ".Struct.Fields") {
			loop = rs
		}
		return true
	})
	derived := map[string]bool{}
	ast.Inspect(gfd.Body, func(m ast.Node) bool {
		if as, ok := m.(*ast.AssignStmt); ok && len(as.Lhs) == 1 && len(as.Rhs) == 1 && strings.Contains(exprString(as.Rhs[0]), "IsStructGeneratedFromDisjunction") {
			if strings.HasPrefix(exprString(as.Rhs[0]), "objectType.") {
				derived[exprString(as.Lhs[0])] = true
			}
		}
		return true
	})
	if loop != nil {
		for _, st := range loop.Body.List {
			is, ok := st.(*ast.IfStmt)
			if !ok || !endsInExit(is.Body) {
				continue
			}
			cond := exprString(is.Cond)
			for v := range derived {
				if strings.Contains(cond, v) {
					skips = true
				}
			}
			if strings.Contains(cond, "objectType.IsStructGeneratedFromDisjunction") {
				skips = true
			}
		}
	}
	r.Check(skips, "skeleton/union-wrapper-branches-are-options", "golang.RawTypes.defaultsForStructRec does not preset the branches of a union wrapper", gfd.Pos(), "the fields of a struct generated from a disjunction are skipped unless an enclosing default names them",
		"NewStringOrInt64() presets the constant branch (`String: &\"auto\"`): MarshalJSON writes the first branch that is set, so a wrapper whose Int64 branch is set afterwards is still encoded \"auto\"")
}

// c16FourthHunt — fourth hunt:
//   - (finding) the branches of a union wrapper go straight to an option typed by the branch: a branch that refers to
//     a *constant* (`Auto | int`, `Auto: "auto"`) gives an argument "of type Auto", which no language can write. The
//     branch path of structObjectToBuilder has to ask what the reference resolves to (fieldIsRefToConcrete);
//   - a field typed by a constant reference gets neither an option nor a constructor constant: structObjectToBuilder
//     relies on each language's type constructor. TypeScript's (defaultValuesForStructType) skips optional fields, so
//     its skip has to leave constant references out — or the derivation has to stop relying on it.
func c16FourthHunt(ctx *Ctx, r *Report) {
	fn := ctx.LookupMethod("internal/ast", "BuilderGenerator", "structObjectToBuilder")
	fd, p := ctx.DeclOf(fn)
	if fd == nil {
		r.Undecided("anchor lost: BuilderGenerator.structObjectToBuilder")
		return
	}
	info := p.TypesInfo
	n := 0
	// (a)
	var branchVar types.Object
	ast.Inspect(fd.Body, func(m ast.Node) bool {
		as, ok := m.(*ast.AssignStmt)
		if !ok || len(as.Lhs) != 1 || len(as.Rhs) != 1 {
			return true
		}
		if c, ok := ast.Unparen(as.Rhs[0]).(*ast.CallExpr); ok {
			if f := callee(info, c); f != nil && f.Name() == "IsStructGeneratedFromDisjunction" {
				if id, ok := as.Lhs[0].(*ast.Ident); ok {
					branchVar = objOf(info, id)
				}
			}
		}
		return true
	})
	if branchVar == nil {
		r.Undecided("anchor changed: structObjectToBuilder no longer tells the structs generated from disjunctions apart")
	} else {
		ast.Inspect(fd.Body, func(m ast.Node) bool {
			is, ok := m.(*ast.IfStmt)
			if !ok {
				return true
			}
			id, ok := ast.Unparen(is.Cond).(*ast.Ident)
			if !ok || objOf(info, id) != branchVar {
				return true
			}
			asks := false
			ast.Inspect(is.Body, func(k ast.Node) bool {
				if c, ok := k.(*ast.CallExpr); ok {
					if f := callee(info, c); f != nil && (f.Name() == "fieldIsRefToConcrete" || f.Name() == "IsConcreteScalar") {
						asks = true
					}
				}
				return true
			})
			n++
			r.Check(asks, "derive/union-branch-constant-reference", "structObjectToBuilder branch path handles references to constants", is.Pos(), "the branch path asks whether the branch refers to a constant",
				"the fields of a union wrapper go straight to structFieldToOption: `Auto: \"auto\"; x: Auto | int` gives AutoOrInt64 the option Auto(Auto ref pkgu.Auto) — an argument typed by a constant; Go: `func (builder *AutoOrInt64Builder) Auto(auto Auto)` — Auto is not a type, the package does not compile")
			return true
		})
	}
	// (b)
	skipsConstantRefs := false
	ast.Inspect(fd.Body, func(m ast.Node) bool {
		is, ok := m.(*ast.IfStmt)
		if !ok || !strings.HasSuffix(exprString(is.Cond), "field.Type.IsConstantRef()") {
			return true
		}
		if len(is.Body.List) == 1 {
			if br, ok := is.Body.List[0].(*ast.BranchStmt); ok && br.Tok == token.CONTINUE {
				skipsConstantRefs = true
			}
		}
		return true
	})
	tfn := ctx.LookupMethod("internal/jennies/typescript", "RawTypes", "defaultValuesForStructType")
	tfd, tp := ctx.DeclOf(tfn)
	if tfd == nil {
		r.Undecided("anchor lost: typescript.RawTypes.defaultValuesForStructType")
	} else if skipsConstantRefs {
		tinfo := tp.TypesInfo
		guards := 0
		ast.Inspect(tfd.Body, func(m ast.Node) bool {
			is, ok := m.(*ast.IfStmt)
			if !ok || !strings.Contains(exprString(is.Cond), ".Required") || !endsInExit(is.Body) {
				return true
			}
			guards++
			excludes := false
			ast.Inspect(is.Cond, func(k ast.Node) bool {
				if c, ok := k.(*ast.CallExpr); ok {
					if f := callee(tinfo, c); f != nil && f.Name() == "IsConstantRef" {
						excludes = true
					}
				}
				return true
			})
			n++
			r.Check(excludes, "skeleton/typescript-optional-constant-ref-initialised", "typescript.defaultValuesForStructType skips optional fields", is.Pos(), "except those that refer to a constant, which nothing else sets",
				"structObjectToBuilder derives nothing for a constant reference and relies on the type's own constructor, while the TypeScript defaults leave every optional field out: `opt?: Kind & \"b\"` has no option, no constructor constant and no initialisation — new MainBuilder().build() lacks opt, which the Go / Python / Java builders set to \"b\"")
			return true
		})
		if guards == 0 {
			// every field is initialised: nothing to ask
			n++
		}
	} else {
		// the derivation no longer skips constant references: it covers them itself
		n++
	}
	r.Count("hunted clauses of the derivation (4th hunt)", n)
	r.Floor("hunted clauses of the derivation (4th hunt)", 2)
}

// c16FifthHunt — fifth hunt of C16:
//   - (finding, shared with C06/C02) the Go builder of an object that is a struct through a *nullable* reference;
//   - Java writes the constants a builder assigns with formatRefType: what it returns for a destination that is neither
//     an enum nor a union wrapper has to be a literal of the destination's scalar kind (`1L` for a Long, `2.0` for a
//     Double) — formatRefType formats no raw value itself, and what it delegates to consults the scalar kind;
//   - the Java templates "assignment_setup" (which declares `<name>Resource` and reads the map of builders) and
//     "assignment_value" (which reads `<name>Resource`) have to derive <name> the same way — from the argument.
func c16FifthHunt(ctx *Ctx, r *Report) {
	n := c06GoNamedOptionalBuilder(ctx, r)
	// (b)
	if fn := ctx.LookupMethod("internal/jennies/java", "typeFormatter", "formatRefType"); fn == nil {
		r.Undecided("anchor lost: java.typeFormatter.formatRefType")
	} else if fd, p := ctx.DeclOf(fn); fd != nil {
		info := p.TypesInfo
		raw := false
		consults := false
		ast.Inspect(fd.Body, func(m ast.Node) bool {
			rs, ok := m.(*ast.ReturnStmt)
			if !ok || len(rs.Results) != 1 {
				return true
			}
			c, ok := ast.Unparen(rs.Results[0]).(*ast.CallExpr)
			if !ok {
				return true
			}
			f := callee(info, c)
			if f == nil {
				return true
			}
			if f.Pkg() != nil && f.Pkg().Path() == "fmt" {
				raw = true
				return true
			}
			if gd, _ := ctx.DeclOf(f); gd != nil {
				ast.Inspect(gd.Body, func(q ast.Node) bool {
					if sel, ok := q.(*ast.SelectorExpr); ok && sel.Sel.Name == "ScalarKind" {
						consults = true
					}
					return true
				})
			}
			return true
		})
		n++
		r.Check(!raw && consults, "kinds/java-literals-typed", "java.typeFormatter.formatRefType writes a value assigned by a builder", fd.Pos(), "as a literal of the scalar kind of its destination",
			"formatRefType writes the value with fmt's %#v whatever the destination: the constructor constant of `Main: {version: 1}` becomes `this.internal.version = 1;` on a `Long` field (incompatible types: int cannot be converted to Long), `ratio: 2.0` becomes `= 2;` on a Double — the builder does not compile")
	}
	// (c)
	if ts, err := loadTemplates(ctx, "java"); err != nil {
		r.Undecided("cannot parse java templates: %v", err)
	} else {
		setup, value := ts.trees["assignment_setup"], ts.trees["assignment_value"]
		if setup == nil || value == nil {
			r.Undecided("anchor lost: java templates assignment_setup / assignment_value")
		} else {
			read := c16NamesBefore(value.Root, []string{"Resource"})
			declared := c16NamesBefore(setup.Root, []string{"Resource", ".entrySet"})
			agree := len(read) > 0 && len(declared) > 0
			for name := range declared {
				if !read[name] {
					agree = false
				}
			}
			var got []string
			for name := range declared {
				got = append(got, name)
			}
			sort.Strings(got)
			n++
			r.Check(agree, "skeleton/java-map-of-builders-named-after-argument", "java assignment_setup names the map it builds from a map of builders", token.NoPos, "the way assignment_value reads it",
				fmt.Sprintf("assignment_setup declares and fills `<name>Resource` from `<name>.entrySet()` with <name> = %v while assignment_value reads it under %v: `Main: {panel_map: [string]: Inner}` gives `panel_mapResource` filled from `panel_map` (the argument is `panelMap`) and `this.internal.panelMap = panelMapResource;` — cannot find symbol", got, keysOf(read)))
		}
	}
	r.Count("hunted clauses of the builder rules (5th hunt)", n)
	r.Floor("hunted clauses of the builder rules (5th hunt)", 3)
}

// c16NamesBefore lists the pipelines whose output is directly followed by one of the given pieces of text; a variable
// stands for the pipeline it was declared with.
func c16NamesBefore(root parse.Node, followers []string) map[string]bool {
	vars := map[string]string{}
	walkTmpl(root, func(m parse.Node) bool {
		if a, ok := m.(*parse.ActionNode); ok && a.Pipe != nil && len(a.Pipe.Decl) == 1 {
			s := a.Pipe.String()
			if i := strings.Index(s, ":="); i >= 0 {
				vars[a.Pipe.Decl[0].Ident[0]] = strings.TrimSpace(s[i+2:])
			}
		}
		return true
	})
	out := map[string]bool{}
	walkTmpl(root, func(m parse.Node) bool {
		l, ok := m.(*parse.ListNode)
		if !ok || l == nil {
			return true
		}
		for i, node := range l.Nodes {
			a, ok := node.(*parse.ActionNode)
			if !ok || a.Pipe == nil || len(a.Pipe.Decl) > 0 || i+1 >= len(l.Nodes) {
				continue
			}
			t, ok := l.Nodes[i+1].(*parse.TextNode)
			if !ok {
				continue
			}
			for _, f := range followers {
				if strings.HasPrefix(string(t.Text), f) {
					s := a.Pipe.String()
					if v, isVar := vars[s]; isVar {
						s = v
					}
					out[s] = true
				}
			}
		}
		return true
	})
	return out
}

// c16SixthHunt — sixth hunt of C16 (three findings, each spanning the builder templates of several languages):
//   - a language whose chain does not turn `null | T` into an optional T (TypeScript) loses the constraints of
//     `nb?: null | (int & >5)`: the derivation reads constraints of scalars (and of references to scalars) only;
//   - the constraints of a scalar reached through a reference to a *named optional* (`MaybeNum: null | (int & >5)`) are
//     attached to an argument that admits null, unconditionally: `n(None)` raises TypeError in Python;
//   - Java declares the fields of a union wrapper `protected` (they are set through factory methods) and the builder of an
//     alias of that union living in another package assigns them directly.
func c16SixthHunt(ctx *Ctx, r *Report) {
	n := 0
	fn := ctx.LookupMethod("internal/ast", "BuilderGenerator", "constrainedFieldToOption")
	fd, _ := ctx.DeclOf(fn)
	if fd == nil {
		r.Undecided("anchor lost: ast.BuilderGenerator.constrainedFieldToOption")
	} else {
		throughUnions, looksAtNullable := false, false
		ast.Inspect(fd.Body, func(m ast.Node) bool {
			if sel, ok := m.(*ast.SelectorExpr); ok {
				switch sel.Sel.Name {
				case "IsDisjunction", "AsDisjunction", "NonNullTypes":
					throughUnions = true
				case "Nullable":
					looksAtNullable = true
				}
			}
			return true
		})
		// premise of the first clause, read from the chains: a language that does not run DisjunctionWithNullToOptional
		// before the builders are derived still holds `null | T` as a union
		var without []string
		for _, lang := range []string{"golang", "java", "php", "python", "typescript"} {
			p := ctx.Pkg("internal/jennies/" + lang)
			if p == nil {
				continue
			}
			runs := false
			for _, f := range p.Syntax {
				ast.Inspect(f, func(m ast.Node) bool {
					if cl, ok := m.(*ast.CompositeLit); ok && strings.HasSuffix(exprString(cl.Type), "DisjunctionWithNullToOptional") {
						runs = true
					}
					return true
				})
			}
			if !runs {
				without = append(without, lang)
			}
		}
		n++
		r.Check(len(without) == 0 || throughUnions, "derive/constraints-through-nullable-unions", "ast.constrainedFieldToOption derives the constraints of a union of null and a constrained scalar", fd.Pos(), "in every language (the chain makes it an optional scalar, or the derivation looks through the union)",
			fmt.Sprintf("the chains of %v do not turn `null | T` into an optional T, and the derivation reads the constraints of scalars and of references to scalars only: `Main: {nb?: null | (int & >5), plain: int & >5}` gives TypeScript an option nb(nb: null | number) that accepts 3, while plain is constrained and the four other languages derive [nb > 5]", without))
		n++
		r.Check(looksAtNullable, "derive/nullable-constraint-arguments-guarded", "ast.constrainedFieldToOption attaches the constraints of a scalar reached through a reference", fd.Pos(), "knowing whether that scalar admits null",
			"the constraints of the resolved scalar are copied onto the assignment without looking at its nullability: `MaybeNum: null | (int & >5); Main: {n: MaybeNum}` gives Python `def n(self, n: MaybeNum)` starting with `if not n > 5` — Main().n(None), a value the field accepts, raises TypeError: '>' not supported between 'NoneType' and 'int'")
	}
	if ts, err := loadTemplates(ctx, "java"); err != nil {
		r.Undecided("cannot parse java templates: %v", err)
	} else if tree := ts.trees["types"]; tree == nil {
		r.Undecided("anchor lost: java template types")
	} else {
		protected := false
		walkTmpl(tree.Root, func(m parse.Node) bool {
			if in, ok := m.(*parse.IfNode); ok && in.Pipe != nil && strings.Contains(in.Pipe.String(), "HasFactoryMethods") && strings.Contains(tmplTextFull(in.List), "protected") {
				protected = true
			}
			return true
		})
		n++
		r.Check(!protected, "skeleton/java-union-fields-reachable-by-builders", "java class template declares the fields of a union wrapper", token.NoPos, "so that a builder of another package can set them",
			"the fields of a class with factory methods are `protected`, and the builder of an alias of it living in another package assigns them directly: package other `U: string | int`, package pkgm `AU: other.U` — `class AU extends demo.other.U {}` and AUBuilder's `this.internal.string = …`: string has protected access in U, the builder does not compile")
	}
	r.Count("hunted clauses of the builder rules (6th hunt)", n)
	r.Floor("hunted clauses of the builder rules (6th hunt)", 3)
}
