package main

// Front-end F-tmpl: cog's Go text/template files parsed into trees.

import (
	"fmt"
	"os"
	"path/filepath"
	"sort"
	"strings"
	"text/template/parse"
)

type tmplSet struct {
	lang  string
	trees map[string]*parse.Tree // define name (or file-relative name) -> tree
	file  map[string]string      // tree name -> file (repo-relative)
	files int
}

func loadTemplates(ctx *Ctx, lang string) (*tmplSet, error) {
	dir := filepath.Join(ctx.Repo, "internal/jennies", lang, "templates")
	ts := &tmplSet{lang: lang, trees: map[string]*parse.Tree{}, file: map[string]string{}}
	err := filepath.Walk(dir, func(path string, info os.FileInfo, err error) error {
		if err != nil || info.IsDir() || !strings.HasSuffix(path, ".tmpl") {
			return err
		}
		data, err := os.ReadFile(path)
		if err != nil {
			return err
		}
		rel, _ := filepath.Rel(ctx.Repo, path)
		name, _ := filepath.Rel(dir, path)
		set := map[string]*parse.Tree{}
		t := parse.New(name)
		t.Mode = parse.SkipFuncCheck
		if _, err := t.Parse(string(data), "", "", set); err != nil {
			return fmt.Errorf("%s: %w", rel, err)
		}
		ts.files++
		for n, tr := range set {
			if tr == nil || tr.Root == nil {
				continue
			}
			ts.trees[n] = tr
			ts.file[n] = rel
		}
		return nil
	})
	if err != nil {
		return nil, err
	}
	return ts, nil
}

func (ts *tmplSet) names() []string {
	var out []string
	for n := range ts.trees {
		out = append(out, n)
	}
	sort.Strings(out)
	return out
}

// walkTmpl visits every node of a template tree.
func walkTmpl(n parse.Node, visit func(parse.Node) bool) {
	if n == nil || isNilNode(n) {
		return
	}
	if !visit(n) {
		return
	}
	switch x := n.(type) {
	case *parse.ListNode:
		for _, c := range x.Nodes {
			walkTmpl(c, visit)
		}
	case *parse.ActionNode:
		walkTmpl(x.Pipe, visit)
	case *parse.PipeNode:
		for _, d := range x.Decl {
			walkTmpl(d, visit)
		}
		for _, c := range x.Cmds {
			walkTmpl(c, visit)
		}
	case *parse.CommandNode:
		for _, a := range x.Args {
			walkTmpl(a, visit)
		}
	case *parse.IfNode:
		walkTmpl(x.Pipe, visit)
		walkTmpl(x.List, visit)
		walkTmpl(x.ElseList, visit)
	case *parse.RangeNode:
		walkTmpl(x.Pipe, visit)
		walkTmpl(x.List, visit)
		walkTmpl(x.ElseList, visit)
	case *parse.WithNode:
		walkTmpl(x.Pipe, visit)
		walkTmpl(x.List, visit)
		walkTmpl(x.ElseList, visit)
	case *parse.TemplateNode:
		walkTmpl(x.Pipe, visit)
	case *parse.ChainNode:
		walkTmpl(x.Node, visit)
	}
}

func isNilNode(n parse.Node) bool {
	switch x := n.(type) {
	case *parse.ListNode:
		return x == nil
	case *parse.PipeNode:
		return x == nil
	}
	return false
}

// tmplText concatenates the literal text of a subtree, with every action
// replaced by the placeholder ⟦…⟧.
func tmplText(n parse.Node) string {
	var b strings.Builder
	var rec func(parse.Node)
	rec = func(n parse.Node) {
		if n == nil || isNilNode(n) {
			return
		}
		switch x := n.(type) {
		case *parse.TextNode:
			b.Write(x.Text)
		case *parse.ListNode:
			for _, c := range x.Nodes {
				rec(c)
			}
		case *parse.IfNode:
			rec(x.List)
			rec(x.ElseList)
		case *parse.RangeNode:
			rec(x.List)
			rec(x.ElseList)
		case *parse.WithNode:
			rec(x.List)
			rec(x.ElseList)
		case *parse.ActionNode, *parse.TemplateNode:
			b.WriteString("⟦" + n.String() + "⟧")
		}
	}
	rec(n)
	return b.String()
}

// line number of a node in its file (1-based); 0 if unknown.
func (ts *tmplSet) posOf(ctx *Ctx, tree string, n parse.Node) string {
	f := ts.file[tree]
	if f == "" {
		return "-"
	}
	data, err := os.ReadFile(filepath.Join(ctx.Repo, f))
	if err != nil {
		return f
	}
	off := int(n.Position())
	if off > len(data) {
		off = len(data)
	}
	return fmt.Sprintf("%s:%d", f, 1+strings.Count(string(data[:off]), "\n"))
}

// ifChain flattens `if A … else if B … else C` into (condition, body) pairs; the
// final else has a nil condition.
type tmplBranch struct {
	cond *parse.PipeNode
	body *parse.ListNode
}

func ifChain(n *parse.IfNode) []tmplBranch {
	var out []tmplBranch
	for cur := n; cur != nil; {
		out = append(out, tmplBranch{cur.Pipe, cur.List})
		if cur.ElseList == nil {
			break
		}
		// `else if` is encoded as an else list holding a single IfNode
		if len(cur.ElseList.Nodes) == 1 {
			if next, ok := cur.ElseList.Nodes[0].(*parse.IfNode); ok {
				cur = next
				continue
			}
		}
		out = append(out, tmplBranch{nil, cur.ElseList})
		break
	}
	return out
}
