package main

import (
	"encoding/json"
	"fmt"
	"go/ast"
	"go/token"
	"go/types"
	"os"
	"path/filepath"
	"sort"
	"strings"
	"time"

	"golang.org/x/tools/go/packages"
)

const modulePath = "github.com/grafana/cog"

// Ctx is the loaded, type-checked view of /repo's current working tree.
type Ctx struct {
	Repo   string
	Verif  string
	Tier   string
	Fset   *token.FileSet
	Pkgs   []*packages.Package // cog packages under analysis (non-test, pipeline + cmd)
	ByPath map[string]*packages.Package
	Start  time.Time

	// lazily built
	funcDecls map[*types.Func]*ast.FuncDecl
	declPkg   map[*types.Func]*packages.Package
}

// excluded package path prefixes: not part of the shipped pipeline.
var excludedPkgs = []string{
	modulePath + "/testdata",
	modulePath + "/examples",
	modulePath + "/internal/testutils",
}

func isExcluded(path string) bool {
	for _, p := range excludedPkgs {
		if path == p || strings.HasPrefix(path, p+"/") {
			return true
		}
	}
	return false
}

func loadRepo(repo, tier string, extraEnv ...string) (*Ctx, error) {
	start := time.Now()
	fset := token.NewFileSet()
	env := append(os.Environ(), "GOFLAGS=-mod=mod", "GOPROXY=off", "GOSUMDB=off", "GOTOOLCHAIN=local", "GOWORK=off")
	env = append(env, extraEnv...)
	cfg := &packages.Config{
		Mode:  packages.LoadSyntax,
		Dir:   repo,
		Fset:  fset,
		Env:   env,
		Tests: false,
	}
	pkgs, err := packages.Load(cfg, "./...")
	if err != nil {
		return nil, fmt.Errorf("packages.Load: %w", err)
	}
	ctx := &Ctx{Repo: repo, Tier: tier, Fset: fset, ByPath: map[string]*packages.Package{}, Start: start}
	var errs []string
	for _, p := range pkgs {
		if isExcluded(p.PkgPath) {
			continue
		}
		for _, e := range p.Errors {
			errs = append(errs, p.PkgPath+": "+e.Error())
		}
		if p.Types == nil || p.TypesInfo == nil {
			errs = append(errs, p.PkgPath+": no type information")
			continue
		}
		ctx.Pkgs = append(ctx.Pkgs, p)
		ctx.ByPath[p.PkgPath] = p
	}
	sort.Slice(ctx.Pkgs, func(i, j int) bool { return ctx.Pkgs[i].PkgPath < ctx.Pkgs[j].PkgPath })
	if len(errs) > 0 {
		return nil, fmt.Errorf("load/type-check errors in /repo: %s", strings.Join(errs, "; "))
	}
	if len(ctx.Pkgs) < 20 {
		return nil, fmt.Errorf("only %d cog packages loaded (expected >= 20)", len(ctx.Pkgs))
	}
	return ctx, nil
}

// Pkg returns the package with the module-relative path (e.g. "internal/ast").
func (c *Ctx) Pkg(rel string) *packages.Package {
	if rel == "" || rel == "." {
		return c.ByPath[modulePath]
	}
	return c.ByPath[modulePath+"/"+rel]
}

func (c *Ctx) RelPkg(path string) string {
	if path == modulePath {
		return "."
	}
	return strings.TrimPrefix(path, modulePath+"/")
}

func (c *Ctx) Pos(p token.Pos) string {
	if !p.IsValid() {
		return "-"
	}
	pos := c.Fset.Position(p)
	rel, err := filepath.Rel(c.Repo, pos.Filename)
	if err != nil {
		rel = pos.Filename
	}
	return fmt.Sprintf("%s:%d", rel, pos.Line)
}

// indexDecls maps every function object to its declaration.
func (c *Ctx) indexDecls() {
	if c.funcDecls != nil {
		return
	}
	c.funcDecls = map[*types.Func]*ast.FuncDecl{}
	c.declPkg = map[*types.Func]*packages.Package{}
	for _, p := range c.Pkgs {
		for _, f := range p.Syntax {
			for _, d := range f.Decls {
				fd, ok := d.(*ast.FuncDecl)
				if !ok {
					continue
				}
				if obj, ok := p.TypesInfo.Defs[fd.Name].(*types.Func); ok {
					c.funcDecls[obj] = fd
					c.declPkg[obj] = p
				}
			}
		}
	}
}

func (c *Ctx) DeclOf(fn *types.Func) (*ast.FuncDecl, *packages.Package) {
	c.indexDecls()
	if fn == nil {
		return nil, nil
	}
	fn = fn.Origin()
	return c.funcDecls[fn], c.declPkg[fn]
}

// AllFuncDecls iterates over every function declaration of the analysed packages.
func (c *Ctx) AllFuncDecls(visit func(p *packages.Package, fd *ast.FuncDecl, obj *types.Func)) {
	c.indexDecls()
	type ent struct {
		obj *types.Func
		fd  *ast.FuncDecl
	}
	var all []ent
	for o, fd := range c.funcDecls {
		all = append(all, ent{o, fd})
	}
	sort.Slice(all, func(i, j int) bool { return all[i].fd.Pos() < all[j].fd.Pos() })
	for _, e := range all {
		visit(c.declPkg[e.obj], e.fd, e.obj)
	}
}

// FuncName gives a stable, line-free name: relpkg.Recv.Name
func (c *Ctx) FuncName(fn *types.Func) string {
	if fn == nil {
		return "?"
	}
	pkg := "?"
	if fn.Pkg() != nil {
		pkg = c.RelPkg(fn.Pkg().Path())
	}
	sig, _ := fn.Type().(*types.Signature)
	if sig != nil && sig.Recv() != nil {
		t := sig.Recv().Type()
		if pt, ok := t.(*types.Pointer); ok {
			t = pt.Elem()
		}
		if nt, ok := t.(*types.Named); ok {
			return pkg + "." + nt.Obj().Name() + "." + fn.Name()
		}
	}
	return pkg + "." + fn.Name()
}

// LookupType finds a named type in a cog package.
func (c *Ctx) LookupType(relPkg, name string) *types.Named {
	p := c.Pkg(relPkg)
	if p == nil {
		return nil
	}
	obj := p.Types.Scope().Lookup(name)
	if obj == nil {
		return nil
	}
	tn, ok := obj.(*types.TypeName)
	if !ok {
		return nil
	}
	nt, _ := tn.Type().(*types.Named)
	return nt
}

// LookupFunc finds a package-level function.
func (c *Ctx) LookupFunc(relPkg, name string) *types.Func {
	p := c.Pkg(relPkg)
	if p == nil {
		return nil
	}
	fn, _ := p.Types.Scope().Lookup(name).(*types.Func)
	return fn
}

// LookupMethod finds a method (pointer or value receiver) on a named type.
func (c *Ctx) LookupMethod(relPkg, typeName, method string) *types.Func {
	nt := c.LookupType(relPkg, typeName)
	if nt == nil {
		return nil
	}
	for i := 0; i < nt.NumMethods(); i++ {
		if nt.Method(i).Name() == method {
			return nt.Method(i)
		}
	}
	return nil
}

// ---------------------------------------------------------------------------
// Reports

type Obligation struct {
	Rule      string `json:"rule"`
	Construct string `json:"construct"`
	Pos       string `json:"pos,omitempty"`
	Verdict   string `json:"verdict"` // discharged | violated | known
	Detail    string `json:"detail,omitempty"`
}

func (o Obligation) Key() string { return o.Rule + " " + o.Construct }

type Report struct {
	Property    string
	Tier        string
	Level       string
	Explanation string
	NotCovered  string
	Trusted     []string
	Assumptions []string
	Exhaustive  bool

	Obls      []Obligation
	Analysed  map[string]int
	Notes     []string
	undecided []string
	ctx       *Ctx
}

func newReport(ctx *Ctx, prop string) *Report {
	return &Report{Property: prop, Tier: ctx.Tier, Level: "other", Analysed: map[string]int{}, ctx: ctx}
}

func (r *Report) OK(rule, construct string, pos token.Pos, detail string) {
	r.Obls = append(r.Obls, Obligation{rule, construct, r.ctx.Pos(pos), "discharged", detail})
}

func (r *Report) Bad(rule, construct string, pos token.Pos, detail string) {
	r.Obls = append(r.Obls, Obligation{rule, construct, r.ctx.Pos(pos), "violated", detail})
}

// Check records a discharged or violated obligation depending on ok.
func (r *Report) Check(ok bool, rule, construct string, pos token.Pos, okDetail, badDetail string) bool {
	if ok {
		r.OK(rule, construct, pos, okDetail)
	} else {
		r.Bad(rule, construct, pos, badDetail)
	}
	return ok
}

func (r *Report) Undecided(format string, a ...any) {
	r.undecided = append(r.undecided, fmt.Sprintf(format, a...))
}

func (r *Report) Note(format string, a ...any) {
	r.Notes = append(r.Notes, fmt.Sprintf(format, a...))
}

func (r *Report) Count(key string, n int) { r.Analysed[key] += n }

// Floor is the vacuity guard: fewer than min instances of what the rule is
// about means the rule no longer sees the code it was written for.
func (r *Report) Floor(key string, min int) {
	if r.Analysed[key] < min {
		r.Undecided("vacuity guard: %s = %d, below the floor %d confirmed by hand", key, r.Analysed[key], min)
	}
}

// ---------------------------------------------------------------------------
// Known findings

type finding struct {
	kind      string // finding | fixed
	property  string
	rule      string
	construct string
	text      string
	used      bool
}

func loadFindings(path string) ([]*finding, error) {
	data, err := os.ReadFile(path)
	if err != nil {
		if os.IsNotExist(err) {
			return nil, nil
		}
		return nil, err
	}
	var out []*finding
	for _, line := range strings.Split(string(data), "\n") {
		line = strings.TrimSpace(line)
		if line == "" || strings.HasPrefix(line, "#") {
			continue
		}
		f := &finding{}
		switch {
		case strings.HasPrefix(line, "finding:"):
			f.kind = "finding"
			line = strings.TrimSpace(strings.TrimPrefix(line, "finding:"))
		case strings.HasPrefix(line, "fixed:"):
			f.kind = "fixed"
			f.text = strings.TrimSpace(strings.TrimPrefix(line, "fixed:"))
			out = append(out, f)
			continue
		default:
			return nil, fmt.Errorf("known_findings: unparsable line %q", line)
		}
		// property=<id> rule=<rule> construct=<construct> :: text
		head, text, _ := strings.Cut(line, "::")
		f.text = strings.TrimSpace(text)
		for _, kv := range strings.Fields(head) {
			k, v, ok := strings.Cut(kv, "=")
			if !ok {
				continue
			}
			switch k {
			case "property":
				f.property = v
			case "rule":
				f.rule = v
			case "construct":
				f.construct = v
			}
		}
		if f.property == "" || f.rule == "" || f.construct == "" {
			return nil, fmt.Errorf("known_findings: incomplete line %q", line)
		}
		out = append(out, f)
	}
	return out, nil
}

// ---------------------------------------------------------------------------
// Finish: findings, evidence, exit status

func (r *Report) Finish(verif string) int {
	findings, err := loadFindings(filepath.Join(verif, "known_findings.txt"))
	if err != nil {
		r.Undecided("%v", err)
	}
	// Construct names may contain spaces in the report; the findings file uses
	// '_' for spaces.
	norm := func(s string) string { return strings.ReplaceAll(s, " ", "_") }
	nViol, nKnown, nOK := 0, 0, 0
	var violLines, knownLines []string
	for i := range r.Obls {
		o := &r.Obls[i]
		if o.Verdict != "violated" {
			nOK++
			continue
		}
		matched := false
		for _, f := range findings {
			if f.kind == "finding" && f.property == r.Property && f.rule == o.Rule && f.construct == norm(o.Construct) {
				matched = true
				f.used = true
				o.Verdict = "known"
				knownLines = append(knownLines, fmt.Sprintf("KNOWN-FINDING: property=%s rule=%s construct=%s at %s — %s", r.Property, o.Rule, norm(o.Construct), o.Pos, f.text))
				break
			}
		}
		if matched {
			nKnown++
			continue
		}
		nViol++
		violLines = append(violLines, fmt.Sprintf("  violated: rule=%s construct=%s at %s — %s", o.Rule, norm(o.Construct), o.Pos, o.Detail))
	}
	for _, f := range findings {
		if f.kind == "finding" && f.property == r.Property && !f.used {
			r.Note("stale known finding (construct no longer reported): rule=%s construct=%s", f.rule, f.construct)
		}
	}

	if os.Getenv("COG_DUMP") != "" {
		for _, o := range r.Obls {
			fmt.Printf("OBL %s | %s | %s | %s | %s\n", o.Verdict, o.Rule, o.Construct, o.Pos, o.Detail)
		}
	}
	wall := time.Since(r.ctx.Start).Seconds()
	// samples: every violated/known plus up to 12 discharged, spread over rules
	var samples []Obligation
	perRule := map[string]int{}
	for _, o := range r.Obls {
		if o.Verdict != "discharged" {
			samples = append(samples, o)
			continue
		}
		if perRule[o.Rule] < 3 && len(samples) < 40 {
			perRule[o.Rule]++
			samples = append(samples, o)
		}
	}
	rules := map[string]int{}
	for _, o := range r.Obls {
		rules[o.Rule]++
	}
	expl := r.Explanation
	if r.NotCovered != "" {
		expl += " NOT COVERED: " + r.NotCovered
	}
	cov := map[string]any{
		"explanation":          expl,
		"obligations":          len(r.Obls),
		"discharged":           nOK,
		"known_findings":       nKnown,
		"violated":             nViol,
		"obligations_per_rule": rules,
		"analysed":             r.Analysed,
		"samples":              samples,
		"checker_cmd":          fmt.Sprintf("./check %s %s", r.Property, r.Tier),
		"trusted_base":         append([]string{"go/types + go/packages (x/tools v0.29.0) as the model of the program", "cogcheck's own rule tables (see DESIGN.md)"}, r.Trusted...),
		"exhaustive":           r.Exhaustive,
		"undecided":            nonNilStrs(r.undecided),
		"notes":                nonNilStrs(r.Notes),
	}
	if r.Assumptions == nil {
		r.Assumptions = []string{}
	}
	if r.undecided == nil {
		r.undecided = []string{}
	}
	if r.Notes == nil {
		r.Notes = []string{}
	}
	ev := map[string]any{
		"property_id": r.Property,
		"tier":        r.Tier,
		"seed":        0,
		"level":       r.Level,
		"coverage":    cov,
		"assumptions": r.Assumptions,
		"wall_s":      wall,
		"violations":  nViol,
	}
	evDir := filepath.Join(verif, "evidence")
	_ = os.MkdirAll(evDir, 0o755)
	data, _ := json.MarshalIndent(ev, "", " ")
	evPath := filepath.Join(evDir, r.Property+".json")
	if err := os.WriteFile(evPath, append(data, '\n'), 0o644); err != nil {
		fmt.Printf("UNDECIDED property=%s reason=cannot write evidence: %v\n", r.Property, err)
		return 2
	}

	// human-readable summary
	keys := make([]string, 0, len(r.Analysed))
	for k := range r.Analysed {
		keys = append(keys, k)
	}
	sort.Strings(keys)
	fmt.Printf("== %s (%s): %d obligations, %d discharged, %d known findings, %d violated; %.1fs\n", r.Property, r.Tier, len(r.Obls), nOK, nKnown, nViol, wall)
	for _, k := range keys {
		fmt.Printf("   analysed %-44s %d\n", k, r.Analysed[k])
	}
	rk := make([]string, 0, len(rules))
	for k := range rules {
		rk = append(rk, k)
	}
	sort.Strings(rk)
	for _, k := range rk {
		fmt.Printf("   rule %-48s %d obligations\n", k, rules[k])
	}
	for _, n := range r.Notes {
		fmt.Printf("   note: %s\n", n)
	}
	for _, l := range knownLines {
		fmt.Println(l)
	}
	if len(r.undecided) > 0 {
		for _, u := range r.undecided {
			fmt.Printf("UNDECIDED property=%s reason=%s\n", r.Property, u)
		}
	}
	if nViol > 0 {
		replay := filepath.Join(evDir, r.Property+".violations.txt")
		_ = os.WriteFile(replay, []byte(strings.Join(violLines, "\n")+"\n"), 0o644)
		for _, l := range violLines {
			fmt.Println(l)
		}
		fmt.Printf("VIOLATION property=%s replay=%s\n", r.Property, replay)
		return 1
	}
	_ = os.Remove(filepath.Join(evDir, r.Property+".violations.txt"))
	if len(r.undecided) > 0 {
		return 2
	}
	return 0
}

func nonNilStrs(s []string) []string {
	if s == nil {
		return []string{}
	}
	return s
}
