package main

// C08 — validation and strict decoding; C13 — equality.
// Engine E3 on templates: the three recursive Go templates reach every depth.

import (
	"fmt"
	"go/ast"
	"go/constant"
	"go/parser"
	"go/token"
	"go/types"
	"regexp"
	"sort"
	"strings"
	"text/template/parse"

	"golang.org/x/tools/go/packages"
)

func init() {
	register("C08", checkC08)
	register("C13", checkC13)
}

type recTemplate struct {
	define     string // name of the recursive define
	typeKey    string // dict key carrying the type
	delegate   string // method the referenced-struct branch must call
	leafMarker string
}

var recValidate = recTemplate{"type_validate_check", "Type", ".Validate()", "type_constraints"}
var recStrict = recTemplate{"strict_unmarshal_field_type", "InputType", ".UnmarshalJSONStrict(", "json.Unmarshal("}
var recEquality = recTemplate{"type_equality_check", "Type", ".Equals(", "return false"}

// dictArgs extracts the key → value(source text) pairs of a `dict "K" v …` pipeline.
func dictArgs(p *parse.PipeNode) map[string]string {
	out := map[string]string{}
	if p == nil || len(p.Cmds) != 1 {
		return out
	}
	args := p.Cmds[0].Args
	if len(args) == 1 {
		if inner, ok := args[0].(*parse.PipeNode); ok {
			return dictArgs(inner) // parenthesised pipeline
		}
	}
	if len(args) == 0 {
		return out
	}
	if id, ok := args[0].(*parse.IdentifierNode); !ok || id.Ident != "dict" {
		return out
	}
	for i := 1; i+1 < len(args); i += 2 {
		if k, ok := args[i].(*parse.StringNode); ok {
			out[k.Text] = args[i+1].String()
		}
	}
	return out
}

// varDecls collects `$x := <pipeline>` declarations inside a subtree.
func varDecls(n parse.Node) map[string]string {
	out := map[string]string{}
	walkTmpl(n, func(m parse.Node) bool {
		if an, ok := m.(*parse.ActionNode); ok && len(an.Pipe.Decl) == 1 {
			rhs := strings.TrimSpace(strings.SplitN(an.Pipe.String(), ":=", 2)[len(strings.SplitN(an.Pipe.String(), ":=", 2))-1])
			out[an.Pipe.Decl[0].Ident[0]] = rhs
		}
		return true
	})
	return out
}

func resolveVar(v string, decls map[string]string) string {
	for i := 0; i < 3; i++ {
		if !strings.HasPrefix(v, "$") {
			return v
		}
		name, rest, _ := strings.Cut(v, ".")
		d, ok := decls[name]
		if !ok {
			return v
		}
		if rest != "" {
			v = d + "." + rest
		} else {
			v = d
		}
	}
	return v
}

// recursiveCalls returns the dict arguments of every recursive {{template}} call in a branch.
func recursiveCalls(body parse.Node, define string) []map[string]string {
	var out []map[string]string
	decls := varDecls(body)
	walkTmpl(body, func(m parse.Node) bool {
		if tn, ok := m.(*parse.TemplateNode); ok && tn.Name == define {
			args := dictArgs(tn.Pipe)
			for k, v := range args {
				args[k] = resolveVar(v, decls)
			}
			out = append(out, args)
		}
		return true
	})
	return out
}

func checkRecursiveTemplate(ctx *Ctx, r *Report, ts *tmplSet, rt recTemplate, validationOnlyFilter bool) {
	tree := ts.trees[rt.define]
	if tree == nil {
		r.Undecided("anchor lost: template %q", rt.define)
		return
	}
	// top-level if chain
	var top *parse.IfNode
	for _, n := range tree.Root.Nodes {
		if in, ok := n.(*parse.IfNode); ok {
			top = in
			break
		}
	}
	if top == nil {
		r.Undecided("anchor changed: template %q has no top-level if-chain", rt.define)
		return
	}
	branches := ifChain(top)
	r.Count("branches of recursive templates", len(branches))
	find := func(pred func(cond string) bool) *tmplBranch {
		for i := range branches {
			if branches[i].cond != nil && pred(branches[i].cond.String()) {
				return &branches[i]
			}
		}
		return nil
	}
	file := ts.file[rt.define]
	// array
	if b := find(func(c string) bool { return strings.Contains(c, "resolvesToArray") }); b == nil {
		r.Bad("traverse/template-reach", rt.define+" array branch", token.NoPos, file+": no branch for arrays: elements are not reached")
	} else {
		ok := false
		for _, call := range recursiveCalls(b.body, rt.define) {
			if strings.Contains(call[rt.typeKey], "Array.ValueType") {
				ok = true
			}
		}
		// arrays of scalars may be handled wholesale by a leaf operation
		r.Check(ok, "traverse/template-reach", rt.define+" array branch", token.NoPos, "recurses into the array's value type",
			file+": the array branch does not recurse with the array's value type: what holds at depth 0 is not checked for array elements")
	}
	// map
	if b := find(func(c string) bool { return strings.Contains(c, "resolvesToMap") }); b == nil {
		r.Bad("traverse/template-reach", rt.define+" map branch", token.NoPos, file+": no branch for maps: values are not reached")
	} else {
		ok := false
		for _, call := range recursiveCalls(b.body, rt.define) {
			if strings.Contains(call[rt.typeKey], "Map.ValueType") {
				ok = true
			}
		}
		r.Check(ok, "traverse/template-reach", rt.define+" map branch", token.NoPos, "recurses into the map's value type",
			file+": the map branch does not recurse with the map's value type: map values are not checked")
	}
	// nullable (validation, equality)
	if rt.define != recStrict.define {
		// the only values the nullable branch may leave to the other branches are references to enum members, which are
		// declared by value (skeleton/nil-test-excludes-constant-ref)
		if b := find(func(c string) bool {
			c = strings.Join(strings.Fields(c), " ")
			return c == ".Nullable" || c == "and .Nullable (not .Type.IsConstantRef)"
		}); b == nil {
			r.Bad("traverse/template-reach", rt.define+" nullable branch", token.NoPos, file+": no branch for nullable values")
		} else {
			ok := false
			for _, call := range recursiveCalls(b.body, rt.define) {
				if call["Nullable"] == "false" && call[rt.typeKey] == "."+rt.typeKey {
					ok = true
				}
			}
			r.Check(ok, "traverse/template-reach", rt.define+" nullable branch", token.NoPos, "recurses on the same type with Nullable=false under a nil guard",
				file+": the nullable branch does not recurse on the same type with Nullable=false: optional values are not checked at all (or recursion never terminates)")
		}
		// struct: ranges over all fields
		if b := find(func(c string) bool {
			return strings.Contains(c, ".IsStruct") && !strings.Contains(c, "resolvesToStruct")
		}); b == nil {
			r.Bad("traverse/template-reach", rt.define+" struct branch", token.NoPos, file+": no branch for inline structs")
		} else {
			var rng *parse.RangeNode
			walkTmpl(b.body, func(m parse.Node) bool {
				if rn, ok := m.(*parse.RangeNode); ok && rng == nil {
					rng = rn
				}
				return true
			})
			okRange := rng != nil && strings.Contains(rng.Pipe.String(), "Struct.Fields")
			r.Check(okRange, "traverse/template-reach", rt.define+" struct fields", token.NoPos, "ranges over .Type.Struct.Fields",
				file+": the struct branch does not range over all of the struct's fields")
			if okRange {
				// filters inside the range
				var filters []string
				recursed := false
				for _, n := range rng.List.Nodes {
					switch x := n.(type) {
					case *parse.IfNode:
						filters = append(filters, x.Pipe.String())
						for _, call := range recursiveCalls(x.List, rt.define) {
							if strings.HasSuffix(call[rt.typeKey], ".Type") {
								recursed = true
							}
						}
					case *parse.TemplateNode:
						if x.Name == rt.define && strings.HasSuffix(dictArgs(x.Pipe)[rt.typeKey], ".Type") {
							recursed = true
						}
					}
				}
				okFilter := true
				for _, f := range filters {
					if !(validationOnlyFilter && strings.Contains(f, "resolvesToConstraints")) {
						okFilter = false
					}
				}
				r.Check(recursed && okFilter, "traverse/template-reach", rt.define+" every field", token.NoPos, "recurses with each field's type (filters: "+strings.Join(filters, "; ")+")",
					fmt.Sprintf("%s: fields are filtered by %v before recursing (or the recursion does not use the field's type): a difference / violation in a skipped field goes unnoticed", file, filters))
			}
		}
	}
	// referenced struct: delegate to the referee's method
	if b := find(func(c string) bool {
		return strings.Contains(c, "resolvesToStruct") || strings.Contains(c, "typeHasEqualityFunc")
	}); b == nil {
		r.Bad("traverse/template-reach", rt.define+" referenced struct branch", token.NoPos, file+": no branch for references to structs")
	} else {
		r.Check(strings.Contains(tmplText(b.body), rt.delegate), "traverse/template-reach", rt.define+" referenced struct branch", token.NoPos, "delegates to the referee's "+rt.delegate,
			file+": the branch for references to structs does not call "+rt.delegate+" on the referee: nested objects are not checked")
	}
	// referenced scalar (validation only): constraints live on the alias
	if rt.define == recValidate.define {
		b := find(func(c string) bool { return strings.Contains(c, ".IsRef") && strings.Contains(c, "IsScalar") })
		okRefScalar := false
		if b != nil {
			walkTmpl(b.body, func(m parse.Node) bool {
				if tn, ok := m.(*parse.TemplateNode); ok && tn.Name == rt.leafMarker {
					constraints := dictArgs(tn.Pipe)["Constraints"]
					// from the resolved type: directly, or through a variable of the branch that holds it
					if strings.Contains(constraints, "resolveRefs") || (strings.HasPrefix(constraints, "$") && strings.Contains(tmplTextFull(b.body), strings.SplitN(constraints, ".", 2)[0]+" := resolveRefs")) {
						okRefScalar = true
					}
				}
				return true
			})
		}
		r.Check(okRefScalar, "traverse/template-reach", rt.define+" referenced scalar branch", token.NoPos, "constraints of a referenced scalar alias are emitted from the resolved type",
			file+": no branch emits the constraints of a referenced scalar alias: they are never validated")
	}
	// sentinel else
	last := branches[len(branches)-1]
	sentinel := ""
	if last.cond == nil {
		sentinel = strings.TrimSpace(tmplText(last.body))
	}
	okSentinel := last.cond == nil && sentinel != "" && !strings.HasPrefix(sentinel, "//") && !strings.HasPrefix(sentinel, "/*") && strings.Contains(sentinel, "unimplemented")
	r.Check(okSentinel, "skeleton/sentinel-else", rt.define+" final else", token.NoPos, "the chain ends in uncommented text that is not valid Go, so an unhandled kind fails goimports and the run",
		file+": the kind dispatch no longer ends in an uncommented sentinel: an unhandled kind silently produces a method that does nothing for that field")
}

func checkC08(ctx *Ctx, r *Report) {
	r.Explanation = "Generator-side necessary conditions, decided on the parsed Go templates: (1) the recursive validation and strict-decoding templates reach every depth — array and map branches recurse with the value type, the nullable branch recurses on the same type with Nullable=false, the struct branch ranges over all fields (filtered only by resolvesToConstraints, whose Go definition must cover every kind the template emits a check for), references to structs delegate to the referee's method, and the dispatch ends in an uncommented sentinel; (2) the constraint-operator table (every operator a parser produces is translated; shared with C09); (3) strict decoder skeleton — each declared key is deleted from the raw map inside its per-field block and every remaining key is reported; the 'missing' branch is emitted exactly under Required ∧ Default == nil, the 'null' branch exactly under Required ∧ ¬Nullable."
	r.NotCovered = "'if and only if' on concrete documents, the error paths reported, behaviour of encoding/json; these need the generated code to run."
	r.Exhaustive = true
	ts, err := loadTemplates(ctx, "golang")
	if err != nil {
		r.Undecided("cannot parse golang templates: %v", err)
		return
	}
	r.Count("template files parsed", ts.files)
	checkRecursiveTemplate(ctx, r, ts, recValidate, true)
	checkRecursiveTemplate(ctx, r, ts, recStrict, false)
	checkLoopDepth(ctx, r, ts, recValidate)
	checkLoopDepth(ctx, r, ts, recStrict)
	checkTemporariesDepthNamed(ctx, r, ts, recStrict)
	checkTemporariesDepthNamed(ctx, r, ts, recValidate)
	r.Floor("temporaries declared by recursive templates", 2)
	r.Floor("depth-named loops in recursive templates", 4)
	r.Floor("branches of recursive templates", 14)
	c08ResolvesToConstraints(ctx, r)
	c13NilTestExcludesConstantRefs(ctx, r, ts, recValidate.define)
	c08StrictSkeleton(ctx, r, ts)
	c08StrictElementNull(ctx, r, ts)
	c08FifthHunt(ctx, r, ts)
	c08SixthHunt(ctx, r, ts)
	c12UnionWrapperClassified(ctx, r)
	c08WholesaleLeafOnly(ctx, r)
	c09OperatorTable(ctx, r)
	c09BoundAgreement(ctx, r)
	c09RatExactness(ctx, r)
	c08RuneLengths(ctx, r, ts)
	inProgressRestored(ctx, r, []string{"internal/jennies/golang/validation.go"}, 1)
	c01SiblingReplacements(ctx, r)
	c05GeneratedNamesUnique(ctx, r)
	c01StrictDecoderNulls(ctx, r)
	c08CueConstraintSiblings(ctx, r)
	c09CueNumberConstraints(ctx, r)
	c09CueConstraintsThroughReferences(ctx, r)
	c08TypeListThroughWalkers(ctx, r)
	c08UnionReuseComparesBranches(ctx, r)
	c10CueEmptyCollectionDefault(ctx, r)
	c08CollapsedUnionKeepsConstraints(ctx, r)
	c08StrictUnionBranches(ctx, r)
	_ = c10DefaultCarried(ctx, r) // a union replaced without its default is a required field the strict decoder demands
}

func checkC13(ctx *Ctx, r *Report) {
	r.Explanation = "Generator-side necessary conditions for the generated Equals, decided on the parsed template: the recursive equality template reaches every depth (array and map value types, nullable values with a nil-ness comparison, every field of inline structs without any filter, references to structs through the referee's Equals), every leaf-comparing branch emits `return false`, collections compare their lengths, and the dispatch ends in an uncommented sentinel; the equality method is generated for every struct object when the option is on."
	r.NotCovered = "reflexivity/symmetry/transitivity and equality ⇔ JSON equality on concrete values; these need generated code to run."
	r.Exhaustive = true
	ts, err := loadTemplates(ctx, "golang")
	if err != nil {
		r.Undecided("cannot parse golang templates: %v", err)
		return
	}
	r.Count("template files parsed", ts.files)
	checkRecursiveTemplate(ctx, r, ts, recEquality, false)
	r.Floor("branches of recursive templates", 8)
	checkLoopDepth(ctx, r, ts, recEquality)
	r.Floor("depth-named loops in recursive templates", 2)
	// every branch with a comparison emits `return false`; arrays/maps compare lengths; nullable compares nil-ness
	tree := ts.trees[recEquality.define]
	if tree == nil {
		return
	}
	var top *parse.IfNode
	for _, n := range tree.Root.Nodes {
		if in, ok := n.(*parse.IfNode); ok {
			top = in
			break
		}
	}
	c13NilSymmetry(ctx, r, ts, ifChain(top))
	c13OperandSymmetry(ctx, r, ts, ifChain(top))
	c13HuntedRules(ctx, r, ts, ifChain(top))
	c13NilTestExcludesConstantRefs(ctx, r, ts, recEquality.define)
	c13NumericUnionBranches(ctx, r, ts)
	c13FourthHunt(ctx, r, ts, ifChain(top))
	c13FifthHunt(ctx, r, ts, true)
	for i, b := range ifChain(top) {
		if b.cond == nil {
			continue
		}
		txt := tmplText(b.body)
		cond := b.cond.String()
		cons := fmt.Sprintf("type_equality_check branch #%d (%s)", i+1, cond)
		if strings.Contains(cond, ".IsStruct") && !strings.Contains(cond, "resolvesToStruct") {
			continue // pure recursion
		}
		r.Check(strings.Contains(txt, "return false"), "skeleton/equality-leaf", cons, token.NoPos, "a difference leads to `return false`",
			ts.file[recEquality.define]+": this branch never returns false: values differing here compare equal")
		if strings.Contains(cond, "resolvesToArray") || strings.Contains(cond, "resolvesToMap") {
			r.Check(regexp.MustCompile(`len\([^)]*\) != len\(`).MatchString(txt), "skeleton/equality-leaf", cons+" lengths", token.NoPos, "lengths are compared before elements",
				ts.file[recEquality.define]+": collections are compared element-wise without comparing their lengths: a longer collection equals its prefix")
		}
		if strings.TrimSpace(cond) == ".Nullable" {
			r.Check(strings.Contains(txt, "== nil &&") && strings.Contains(txt, "!= nil"), "skeleton/equality-leaf", cons+" nil-ness", token.NoPos, "nil-ness of both sides is compared",
				ts.file[recEquality.define]+": optional values are compared without comparing nil-ness")
		}
	}
	// the top-level method returns true only at the end
	var method *parse.Tree
	for _, n := range ts.names() {
		if strings.Contains(tmplText(ts.trees[n].Root), ") Equals(other ") && strings.Contains(ts.file[n], "struct_equality_method") && n != recEquality.define {
			method = ts.trees[n]
		}
	}
	if method == nil {
		r.Undecided("anchor lost: struct_equality_method template")
		return
	}
	txt := tmplText(method.Root)
	r.Check(strings.Contains(txt, "type_equality_check") && strings.Contains(txt, "return true"), "skeleton/equality-leaf", "Equals method skeleton", token.NoPos, "Equals runs the recursive check on the object's type and returns true afterwards", "the emitted Equals no longer runs the recursive comparison before returning true")
	// generated for every struct object
	p := ctx.Pkg("internal/jennies/golang")
	fn := ctx.LookupMethod("internal/jennies/golang", "equalityMethods", "generateForObject")
	fd, _ := ctx.DeclOf(fn)
	if p == nil || fd == nil {
		r.Undecided("anchor lost: golang.equalityMethods.generateForObject")
		return
	}
	info := p.TypesInfo
	var guards []string
	for _, st := range fd.Body.List {
		if is, ok := st.(*ast.IfStmt); ok && endsInExit(is.Body) {
			if rs, ok := is.Body.List[len(is.Body.List)-1].(*ast.ReturnStmt); ok && len(rs.Results) == 1 && isNilIdent(info, rs.Results[0]) {
				guards = append(guards, exprString(is.Cond))
			}
		}
	}
	r.Check(len(guards) == 1 && strings.HasSuffix(guards[0], ".Type.IsStruct()") && strings.HasPrefix(guards[0], "!") && !strings.ContainsAny(guards[0], "|&"), "skeleton/equality-leaf", "Equals generated for every struct", fd.Pos(), "the only objects skipped are non-structs", fmt.Sprintf("equality methods are skipped under %v: some struct objects get no Equals (compile error in callers) or a partial one", guards))
}

// c08ResolvesToConstraints: the Go predicate that prunes fields in the validation template
// returns true for every kind the template can emit a check for.
func c08ResolvesToConstraints(ctx *Ctx, r *Report) {
	p := ctx.Pkg("internal/jennies/golang")
	if p == nil {
		r.Undecided("package internal/jennies/golang not found")
		return
	}
	info := p.TypesInfo
	var lit *ast.FuncLit
	for _, f := range p.Syntax {
		ast.Inspect(f, func(n ast.Node) bool {
			if kv, ok := n.(*ast.KeyValueExpr); ok {
				if bl, ok := kv.Key.(*ast.BasicLit); ok && bl.Value == `"resolvesToConstraints"` {
					if fl, ok := kv.Value.(*ast.FuncLit); ok {
						lit = fl
					}
				}
			}
			return true
		})
	}
	var body ast.Node
	// prefer the overriding definition: `"resolvesToConstraints": <ident>` where ident is a local func variable
	for _, f := range p.Syntax {
		ast.Inspect(f, func(n ast.Node) bool {
			kv, ok := n.(*ast.KeyValueExpr)
			if !ok {
				return true
			}
			bl, ok := kv.Key.(*ast.BasicLit)
			if !ok || bl.Value != `"resolvesToConstraints"` {
				return true
			}
			id, ok := kv.Value.(*ast.Ident)
			if !ok {
				return true
			}
			obj := objOf(info, id)
			ast.Inspect(f, func(m ast.Node) bool {
				if as, ok := m.(*ast.AssignStmt); ok && len(as.Lhs) == 1 && len(as.Rhs) == 1 && isIdentOf(info, as.Lhs[0], obj) {
					if fl, ok := as.Rhs[0].(*ast.FuncLit); ok {
						body = fl.Body
					}
				}
				return true
			})
			return true
		})
	}
	if body != nil {
		lit = nil
	} else if lit != nil {
		body = lit.Body
	} else {
		// method value / named function
		for _, f := range p.Syntax {
			for _, d := range f.Decls {
				if fd, ok := d.(*ast.FuncDecl); ok && strings.EqualFold(fd.Name.Name, "resolvesToConstraints") {
					body = fd.Body
				}
			}
		}
	}
	if body == nil {
		r.Undecided("anchor lost: the resolvesToConstraints template helper")
		return
	}
	txt := ""
	ast.Inspect(body, func(n ast.Node) bool {
		if c, ok := n.(*ast.CallExpr); ok {
			txt += exprString(c.Fun) + " "
		}
		if s, ok := n.(*ast.SelectorExpr); ok {
			txt += s.Sel.Name + " "
		}
		return true
	})
	_ = info
	// sibling agreement on references: the template handles references that resolve to arrays,
	// maps and structs; the predicate's reference case must therefore look through the reference
	// and recurse for arrays and maps (not only test for a struct)
	refCaseRecurses := false
	ast.Inspect(body, func(n ast.Node) bool {
		is, ok := n.(*ast.IfStmt)
		if !ok {
			return true
		}
		if c, ok := ast.Unparen(is.Cond).(*ast.CallExpr); !ok || !strings.HasSuffix(exprString(c.Fun), ".IsRef") {
			return true
		}
		calls := ""
		ast.Inspect(is.Body, func(m ast.Node) bool {
			if c, ok := m.(*ast.CallExpr); ok {
				calls += exprString(c.Fun) + " "
			}
			return true
		})
		if strings.Contains(calls, "resolvesToConstraints") && strings.Contains(calls, "IsArray") && strings.Contains(calls, "IsMap") && strings.Contains(calls, "IsScalar") {
			refCaseRecurses = true
		}
		return true
	})
	r.Check(refCaseRecurses, "kinds/constraints-predicate", "resolvesToConstraints reference case", body.Pos(), "references to arrays, maps and scalars are looked through",
		"for a reference the predicate does not look through to arrays, maps and scalars: constraints declared on (the elements of) an alias are pruned from Validate()")
	// … and not answer "yes" for a container without looking at its elements: the template then emits a loop whose body is
	// empty — `for i1 := range x { }` does not compile (i1 declared and not used) while goimports accepts it
	overApprox := ""
	ast.Inspect(body, func(n ast.Node) bool {
		is, ok := n.(*ast.IfStmt)
		if !ok {
			return true
		}
		cs := exprString(is.Cond)
		if !(strings.Contains(cs, ".IsArray()") || strings.Contains(cs, ".IsMap()")) || strings.Contains(cs, ".IsStruct()") || strings.Contains(cs, ".IsRef()") {
			return true
		}
		for _, st := range is.Body.List {
			if rs, ok := st.(*ast.ReturnStmt); ok && len(rs.Results) == 1 {
				if tv, ok := info.Types[rs.Results[0]]; ok && tv.Value != nil && tv.Value.String() == "true" && overApprox == "" {
					overApprox = cs
				}
			}
		}
		return true
	})
	r.Check(overApprox == "", "kinds/constraints-predicate", "resolvesToConstraints container cases recurse", body.Pos(), "arrays and maps are answered from their elements",
		"under `"+overApprox+"` the predicate answers true without looking at the elements: for a list / map whose elements hold no constraint the validation template emits an empty loop — `for i1 := range resource.Tags { }` — which does not compile (declared and not used) although the run, goimports included, succeeds")
	// one case per kind: `if typeDef.Is<Kind>() { … }`; container kinds must recurse
	cases := map[string]string{}
	ast.Inspect(body, func(n ast.Node) bool {
		is, ok := n.(*ast.IfStmt)
		if !ok {
			return true
		}
		c, ok := ast.Unparen(is.Cond).(*ast.CallExpr)
		if !ok {
			return true
		}
		sel, ok := c.Fun.(*ast.SelectorExpr)
		if !ok || !strings.HasPrefix(sel.Sel.Name, "Is") {
			return true
		}
		if _, isParam := ast.Unparen(sel.X).(*ast.Ident); !isParam {
			return true
		}
		calls := ""
		ast.Inspect(is.Body, func(m ast.Node) bool {
			if cc, ok := m.(*ast.CallExpr); ok {
				calls += exprString(cc.Fun) + " "
			}
			if s, ok := m.(*ast.SelectorExpr); ok {
				calls += s.Sel.Name + " "
			}
			return true
		})
		cases[strings.TrimPrefix(sel.Sel.Name, "Is")] = calls
		return true
	})
	_ = txt
	for _, kind := range []struct {
		name, kind, must string
	}{
		{"arrays", "Array", "resolvesToConstraints"}, {"maps", "Map", "resolvesToConstraints"}, {"structs", "Struct", "resolvesToConstraints"},
		{"scalars with constraints", "Scalar", "Constraints"}, {"constant references", "ConstantRef", "IsEnum"}, {"composable slots", "ComposableSlot", ""},
	} {
		got, ok := cases[kind.kind]
		r.Check(ok && strings.Contains(got, kind.must), "kinds/constraints-predicate", "resolvesToConstraints covers "+kind.name, body.Pos(), "the predicate has a case for "+kind.name,
			"resolvesToConstraints has no (recursing) case for "+kind.name+": fields of that kind are pruned from Validate() although the template would emit a check for them")
	}
}

// c08StrictSkeleton: per-field block and remaining-keys loop of the strict decoder.
func c08StrictSkeleton(ctx *Ctx, r *Report, ts *tmplSet) {
	var tree *parse.Tree
	var name string
	for _, n := range ts.names() {
		if strings.Contains(ts.file[n], "struct.strict.json_unmarshal") && n != recStrict.define {
			tree, name = ts.trees[n], n
		}
	}
	if tree == nil {
		r.Undecided("anchor lost: struct.strict.json_unmarshal template")
		return
	}
	var rng *parse.RangeNode
	walkTmpl(tree.Root, func(m parse.Node) bool {
		if rn, ok := m.(*parse.RangeNode); ok && rng == nil && strings.Contains(rn.Pipe.String(), "Struct.Fields") {
			rng = rn
		}
		return true
	})
	file := ts.file[name]
	if rng == nil {
		r.Bad("skeleton/strict-decoder", "per-field range", token.NoPos, file+": the strict decoder no longer ranges over the struct's fields")
		return
	}
	body := tmplText(rng.List)
	r.Check(strings.Contains(body, "delete(fields,"), "skeleton/strict-decoder", "declared keys are consumed", token.NoPos, "each declared key is deleted from the raw map in its block", file+": declared keys are not removed from the raw map: every document is rejected for 'unexpected field' (or unknown keys cannot be told apart)")
	after := tmplText(tree.Root)
	idx := strings.LastIndex(after, "delete(fields,")
	if idx < 0 {
		idx = 0
	}
	rest := after[idx:]
	r.Check(strings.Contains(rest, "range fields") && strings.Contains(rest, "unexpected field"), "skeleton/strict-decoder", "remaining keys are reported", token.NoPos, "after the per-field blocks every remaining key yields an 'unexpected field' error", file+": keys left in the raw map after the declared fields are no longer reported: undeclared fields are accepted")
	// conditions of the two else branches
	conds := map[string]string{}
	walkTmpl(rng.List, func(m parse.Node) bool {
		if in, ok := m.(*parse.IfNode); ok {
			txt := tmplText(in.List)
			if strings.Contains(txt, "required field is null") {
				conds["null"] = in.Pipe.String()
			}
			if strings.Contains(txt, "required field is missing") {
				conds["missing"] = in.Pipe.String()
			}
		}
		return true
	})
	norm := func(s string) string { return strings.Join(strings.Fields(s), " ") }
	// Required ∧ ¬Nullable, the nullability being that of the field's type or of the type a reference leads to: the
	// condition is a conjunction that starts with these two tests, and whose other conjuncts speak of nullability only
	nullCond := norm(conds["null"])
	nullOK := false
	if rest, ok := strings.CutPrefix(nullCond, "and $field.Required (not $field.Type.Nullable)"); ok {
		nullOK = true
		for _, conjunct := range splitTopLevel(strings.TrimSpace(rest)) {
			if !strings.HasPrefix(conjunct, "(not ") || !strings.Contains(conjunct, "Nullable") {
				nullOK = false
			}
		}
	}
	r.Check(nullOK, "skeleton/strict-decoder", "null rejected iff required and not nullable", token.NoPos, "condition: "+conds["null"],
		file+": the 'required field is null' error is emitted under `"+conds["null"]+"` instead of Required ∧ ¬Nullable")
	r.Check(norm(conds["missing"]) == "and $field.Required (eq $field.Type.Default nil)", "skeleton/strict-decoder", "missing rejected iff required without default", token.NoPos, "condition: "+conds["missing"],
		file+": the 'required field is missing' error is emitted under `"+conds["missing"]+"` instead of Required ∧ Default == nil")
	r.Check(strings.Contains(after, "return errs"), "skeleton/strict-decoder", "errors are returned", token.NoPos, "collected errors are returned", file+": the strict decoder no longer returns the errors it collected")
}

// checkLoopDepth: the recursive templates name the loop variables of the Go code they emit after the
// recursion depth (`for key{{ $depth }} := range …`). A recursive call made inside such a loop must
// pass a depth strictly above the one used in the name — `(add1 S)` for the very expression S that
// suffixes the loop variable — otherwise the nested loop shadows the variable and every check emitted
// below it reads the wrong element.
var loopHeadRe = regexp.MustCompile(`for\s+(\w+)$`)

func checkLoopDepth(ctx *Ctx, r *Report, ts *tmplSet, rt recTemplate) {
	tree := ts.trees[rt.define]
	if tree == nil {
		return // reported by checkRecursiveTemplate
	}
	file := ts.file[rt.define]
	loops := 0
	var visitList func(l *parse.ListNode, suffix string, loopVar string)
	visitNode := func(n parse.Node, suffix, loopVar string) {}
	visitList = func(l *parse.ListNode, suffix string, loopVar string) {
		if l == nil {
			return
		}
		for i, n := range l.Nodes {
			if tx, ok := n.(*parse.TextNode); ok && i+2 < len(l.Nodes) {
				if m := loopHeadRe.FindStringSubmatch(strings.TrimRight(string(tx.Text), " ")); m != nil {
					if an, ok := l.Nodes[i+1].(*parse.ActionNode); ok && len(an.Pipe.Decl) == 0 {
						if nx, ok := l.Nodes[i+2].(*parse.TextNode); ok && strings.HasPrefix(strings.TrimLeft(string(nx.Text), " "), ":= range") {
							suffix, loopVar = strings.TrimSpace(an.Pipe.String()), m[1]
							loops++
						}
					}
				}
			}
			visitNode(n, suffix, loopVar)
		}
	}
	visitNode = func(n parse.Node, suffix, loopVar string) {
		switch x := n.(type) {
		case *parse.IfNode:
			visitList(x.List, suffix, loopVar)
			visitList(x.ElseList, suffix, loopVar)
		case *parse.RangeNode:
			visitList(x.List, suffix, loopVar)
			visitList(x.ElseList, suffix, loopVar)
		case *parse.WithNode:
			visitList(x.List, suffix, loopVar)
			visitList(x.ElseList, suffix, loopVar)
		case *parse.TemplateNode:
			if x.Name != rt.define || suffix == "" {
				return
			}
			got := strings.Join(strings.Fields(dictArgs(x.Pipe)["Depth"]), " ")
			want := "add1 " + suffix
			got = strings.TrimSuffix(strings.TrimPrefix(got, "("), ")")
			if strings.HasPrefix(got, "$") && got != suffix {
				// `$next := add1 $depth` declared in the same define
				got = strings.Join(strings.Fields(resolveVar(got, varDecls(tree.Root))), " ")
			}
			if got == "add "+suffix+" 1" || got == "add 1 "+suffix {
				got = want
			}
			r.Check(got == want, "skeleton/loop-depth-fresh", fmt.Sprintf("%s call inside `for %s%s`", rt.define, loopVar, suffix), token.NoPos,
				"the nested call receives "+want+": its loop variables differ from "+loopVar+suffix,
				fmt.Sprintf("%s: inside the loop over `%s{{ %s }}` the recursive call passes Depth=%s instead of %s: for a collection nested in this one the emitted inner loop can reuse the same variable name and shadow the outer one, so nested elements are read through the wrong index/key", ts.posOf(ctx, rt.define, x), loopVar, suffix, got, want))
		}
	}
	visitList(tree.Root, "", "")
	r.Count("depth-named loops in recursive templates", loops)
	_ = file
}

// ---------------------------------------------------------------------------
// nil-ness symmetry in the equality template

var ifLineRe = regexp.MustCompile(`(?m)^\s*if (.*?) \{`)

// evalNilCond evaluates an emitted Go condition over the nil-ness of S and O. Atoms other than
// `S == nil`, `S != nil`, `O == nil`, `O != nil` make it undecidable (ok=false).
func evalNilCond(e ast.Expr, sNil, oNil bool) (val bool, ok bool) {
	switch x := ast.Unparen(e).(type) {
	case *ast.UnaryExpr:
		if x.Op == token.NOT {
			v, ok := evalNilCond(x.X, sNil, oNil)
			return !v, ok
		}
	case *ast.BinaryExpr:
		switch x.Op {
		case token.LAND, token.LOR:
			a, ok1 := evalNilCond(x.X, sNil, oNil)
			b, ok2 := evalNilCond(x.Y, sNil, oNil)
			if x.Op == token.LAND {
				return a && b, ok1 && ok2
			}
			return a || b, ok1 && ok2
		case token.EQL, token.NEQ:
			// X == nil / X != nil
			if id, isID := ast.Unparen(x.X).(*ast.Ident); isID {
				if n, isNil := ast.Unparen(x.Y).(*ast.Ident); isNil && n.Name == "nil" {
					var isNilVal bool
					switch id.Name {
					case "S":
						isNilVal = sNil
					case "O":
						isNilVal = oNil
					default:
						return false, false
					}
					if x.Op == token.EQL {
						return isNilVal, true
					}
					return !isNilVal, true
				}
			}
			// (bool) == (bool)
			a, ok1 := evalNilCond(x.X, sNil, oNil)
			b, ok2 := evalNilCond(x.Y, sNil, oNil)
			if ok1 && ok2 {
				if x.Op == token.EQL {
					return a == b, true
				}
				return a != b, true
			}
		}
	}
	return false, false
}

// c13NilSymmetry: wherever the equality template opens a `if <self> != nil {` block (the values are
// only compared when self is set), the text emitted before it in the same branch contains an `if`
// that is true exactly when the nil-ness of self and other differ, and that returns false.
func c13NilSymmetry(ctx *Ctx, r *Report, ts *tmplSet, branches []tmplBranch) {
	guards := 0
	for i, b := range branches {
		if b.cond == nil {
			continue
		}
		txt := tmplText(b.body)
		txt = strings.ReplaceAll(txt, "⟦{{.SelfName}}⟧", "S")
		txt = strings.ReplaceAll(txt, "⟦{{.OtherName}}⟧", "O")
		locs := ifLineRe.FindAllStringSubmatchIndex(txt, -1)
		for _, loc := range locs {
			cond := txt[loc[2]:loc[3]]
			if strings.Join(strings.Fields(cond), " ") != "S != nil" {
				continue
			}
			guards++
			cons := fmt.Sprintf("type_equality_check branch #%d (%s) nil guard", i+1, strings.TrimSpace(b.cond.String()))
			found := false
			why := "no `if` precedes the guard"
			for _, prev := range locs {
				if prev[0] >= loc[0] {
					break
				}
				pc := txt[prev[2]:prev[3]]
				e, err := parser.ParseExpr(pc)
				if err != nil {
					why = "the preceding condition `" + pc + "` is not a Go expression over the two values"
					continue
				}
				xor := true
				decided := true
				for _, sn := range []bool{true, false} {
					for _, on := range []bool{true, false} {
						v, ok := evalNilCond(e, sn, on)
						if !ok {
							decided = false
						}
						if v != (sn != on) {
							xor = false
						}
					}
				}
				if !decided {
					why = "the preceding condition `" + pc + "` is not a combination of nil tests on the two values (comparing the pointers themselves is not a nil-ness test)"
					continue
				}
				if !xor {
					why = "the preceding condition `" + pc + "` is not true exactly when one side is nil and the other is not"
					continue
				}
				// its body returns false
				rest := txt[prev[1]:loc[0]]
				if strings.HasPrefix(strings.TrimSpace(rest), "return false") {
					found = true
				} else {
					why = "the nil-ness test does not return false"
				}
			}
			r.Check(found, "skeleton/nilness-symmetric", cons, token.NoPos, "preceded by a test that returns false exactly when one side is nil and the other is not",
				ts.file[recEquality.define]+": the block comparing the values is entered when self is set, but "+why+": a set value and an unset one compare equal in one direction (or Equals dereferences a nil pointer)")
		}
	}
	r.Count("nil guards in the equality template", guards)
	r.Floor("nil guards in the equality template", 3)
}

// c08WholesaleLeafOnly: the strict decoder hands arrays / maps "of scalars" to encoding/json as a whole
// instead of walking them. The helpers deciding that (resolvesToArrayOfScalars / resolvesToMapOfScalars)
// may only accept leaf kinds: a composite kind accepted there is decoded without any strictness below it.
func c08WholesaleLeafOnly(ctx *Ctx, r *Report) {
	p := ctx.Pkg("internal/jennies/golang")
	if p == nil {
		return
	}
	info := p.TypesInfo
	n := 0
	for _, f := range p.Syntax {
		ast.Inspect(f, func(m ast.Node) bool {
			kv, ok := m.(*ast.KeyValueExpr)
			if !ok {
				return true
			}
			key, ok := kv.Key.(*ast.BasicLit)
			if !ok || !(strings.Contains(key.Value, "OfScalars")) {
				return true
			}
			lit, ok := kv.Value.(*ast.FuncLit)
			if !ok {
				return true
			}
			name := strings.Trim(key.Value, "\"")
			// placeholders panic; the real helper calls Is{Array,Map}OfKinds
			var call *ast.CallExpr
			ast.Inspect(lit.Body, func(k ast.Node) bool {
				if c, ok := k.(*ast.CallExpr); ok {
					if fn := callee(info, c); fn != nil && (fn.Name() == "IsArrayOfKinds" || fn.Name() == "IsMapOfKinds") {
						call = c
					}
				}
				return true
			})
			if call == nil {
				return true
			}
			n++
			var extra []string
			for _, a := range call.Args[1:] {
				s := exprString(a)
				if !strings.HasSuffix(s, "KindScalar") && !strings.HasSuffix(s, "KindEnum") {
					extra = append(extra, s)
				}
			}
			r.Check(len(extra) == 0 && !call.Ellipsis.IsValid(), "kinds/wholesale-leaf-only", "golang strict decoder helper "+name, call.Pos(), "only leaf kinds (scalar, enum) are decoded wholesale",
				fmt.Sprintf("%s accepts %v: collections of these kinds are handed to encoding/json as a whole, so unknown keys, missing required fields and nulls below them are no longer reported", name, extra))
			return true
		})
	}
	r.Count("wholesale-decoding helpers", n)
	r.Floor("wholesale-decoding helpers", 2)
}

// c13OperandSymmetry: every recursive call of the equality template hands down two operand expressions; the one for
// `other` must be the one for `self` with SelfName replaced by OtherName (variables resolved through their
// declarations). A copy-paste that builds the second operand from SelfName makes the emitted code compare a value with
// itself: differing values compare equal. The map branch must also establish that the key exists on the other side:
// indexing a Go map with a missing key yields the zero value, which compares equal to a present zero.
func c13OperandSymmetry(ctx *Ctx, r *Report, ts *tmplSet, branches []tmplBranch) {
	n := 0
	swap := func(x string) string {
		return strings.ReplaceAll(x, ".SelfName", ".OtherName")
	}
	for i, b := range branches {
		for j, args := range recursiveCalls(b.body, recEquality.define) {
			self, other := args["SelfName"], args["OtherName"]
			if self == "" && other == "" {
				continue
			}
			n++
			cons := fmt.Sprintf("type_equality_check branch #%d call #%d operands", i+1, j+1)
			r.Check(swap(self) == other && self != other, "skeleton/equality-operands", cons, token.NoPos, "the second operand is the first one with SelfName replaced by OtherName",
				fmt.Sprintf("%s: the recursive comparison receives SelfName=%s and OtherName=%s: the second is not the mirror image of the first — the emitted code compares a value with (part of) itself, and values that differ there compare equal", ts.file[recEquality.define], self, other))
		}
		if b.cond != nil && strings.Contains(b.cond.String(), "resolvesToMap") {
			txt := tmplText(b.body)
			r.Check(regexp.MustCompile(`,\s*\w+\s*:?=\s*[^\n]*⟦[^⟧]*OtherName[^⟧]*⟧[^\n]*\[key`).MatchString(txt) || strings.Contains(txt, "ok :="), "skeleton/equality-map-presence", "type_equality_check map branch tests key presence", token.NoPos, "the key is looked up on the other side with a presence test",
				ts.file[recEquality.define]+": the map branch ranges over self's keys and compares self[k] with other[k] after a length test only: a key missing from `other` reads as the zero value, so {\"x\":0}.Equals({\"y\":5}) is true (and the reverse is false): Equals is not symmetric and differing values compare equal")
		}
	}
	r.Count("operand pairs of recursive equality calls", n)
	r.Floor("operand pairs of recursive equality calls", 4)
}

// inProgressRestored: a set that marks "currently being followed" (entries are inserted before a descent and deleted
// afterwards) must be restored on every way out: a `defer delete(S, k)` placed right after the insertion, or a delete in
// front of every later return. An entry left behind turns the marker into a memory: the next, unrelated question about the
// same reference gets the answer reserved for cycles (here: "holds no constraint", "has no default").
// files: module-relative path prefixes of the files this property is concerned with.
func inProgressRestored(ctx *Ctx, r *Report, files []string, floor int) {
	n := 0
	ctx.AllFuncDecls(func(p *packages.Package, fd *ast.FuncDecl, obj *types.Func) {
		if fd.Body == nil {
			return
		}
		rel := ctx.Pos(fd.Pos())
		match := false
		for _, f := range files {
			if strings.HasPrefix(rel, f) {
				match = true
			}
		}
		if !match {
			return
		}
		info := p.TypesInfo
		// function bodies: the declaration and each literal are separate return scopes
		var scopes []*ast.BlockStmt
		scopes = append(scopes, fd.Body)
		ast.Inspect(fd.Body, func(m ast.Node) bool {
			if fl, ok := m.(*ast.FuncLit); ok {
				scopes = append(scopes, fl.Body)
			}
			return true
		})
		for _, body := range scopes {
			inScope := func(visit func(ast.Node) bool) {
				ast.Inspect(body, func(m ast.Node) bool {
					if fl, ok := m.(*ast.FuncLit); ok && fl.Body != body {
						return false
					}
					return visit(m)
				})
			}
			// deletes and insertions per set
			type ev struct {
				pos      token.Pos
				deferred bool
			}
			dels := map[string][]ev{}
			ins := map[string][]token.Pos{}
			inScope(func(m ast.Node) bool {
				switch x := m.(type) {
				case *ast.DeferStmt:
					if id, ok := x.Call.Fun.(*ast.Ident); ok && id.Name == "delete" && len(x.Call.Args) == 2 {
						dels[exprString(x.Call.Args[0])] = append(dels[exprString(x.Call.Args[0])], ev{x.Pos(), true})
					}
					return false
				case *ast.ExprStmt:
					if c, ok := x.X.(*ast.CallExpr); ok {
						if id, ok := c.Fun.(*ast.Ident); ok && id.Name == "delete" && len(c.Args) == 2 {
							dels[exprString(c.Args[0])] = append(dels[exprString(c.Args[0])], ev{x.Pos(), false})
						}
					}
				case *ast.AssignStmt:
					if len(x.Lhs) == 1 {
						if ix, ok := x.Lhs[0].(*ast.IndexExpr); ok {
							if _, isMap := info.TypeOf(ix.X).Underlying().(*types.Map); isMap {
								ins[exprString(ix.X)] = append(ins[exprString(ix.X)], x.Pos())
							}
						}
					}
				}
				return true
			})
			var sets []string
			for s := range dels {
				if len(ins[s]) > 0 {
					sets = append(sets, s)
				}
			}
			// a set declared outside a function literal, filled inside it, whose hit makes the literal return a constant answer
			// outlives each question put to the literal: it needs the removal even if today's code has none
			if body != fd.Body {
				inScope(func(m ast.Node) bool {
					is, ok := m.(*ast.IfStmt)
					if !ok || is.Init == nil || len(is.Body.List) != 1 {
						return true
					}
					as, ok := is.Init.(*ast.AssignStmt)
					if !ok || len(as.Rhs) != 1 {
						return true
					}
					ix, ok := ast.Unparen(as.Rhs[0]).(*ast.IndexExpr)
					if !ok {
						return true
					}
					rs, ok := is.Body.List[0].(*ast.ReturnStmt)
					if !ok || len(rs.Results) != 1 {
						return true
					}
					if tv, ok := info.Types[rs.Results[0]]; !ok || tv.Value == nil {
						return true
					}
					name := exprString(ix.X)
					id, ok := ast.Unparen(ix.X).(*ast.Ident)
					if !ok || len(ins[name]) == 0 || len(dels[name]) > 0 {
						return true
					}
					if o := objOf(info, id); o != nil && (o.Pos() < body.Pos() || o.Pos() > body.End()) {
						n++
						r.Bad("typestate/in-progress-restored", fmt.Sprintf("%s restores %s", ctx.FuncName(obj), name), ins[name][0],
							fmt.Sprintf("%s: the set %s is declared outside the function literal that fills it and a hit answers `%s` for good, but entries are never removed: the first question about a reference leaves its mark, the next one about the same reference — asked for another field — is answered as if it were a cycle (the check for that field is never generated)", ctx.FuncName(obj), name, exprString(rs.Results[0])))
					}
					return true
				})
			}
			sort.Strings(sets)
			for _, s := range sets {
				n++
				first := ins[s][0]
				why := ""
				hasDefer := false
				for _, d := range dels[s] {
					if d.deferred {
						hasDefer = true
						// no return between the insertion and the defer
						inScope(func(m ast.Node) bool {
							if rs, ok := m.(*ast.ReturnStmt); ok && rs.Pos() > first && rs.Pos() < d.pos {
								why = "a return sits between the insertion and the deferred delete"
							}
							return true
						})
					}
				}
				if !hasDefer {
					// every return after the insertion is directly preceded by a delete of the set
					parents := parentMap(fd)
					inScope(func(m ast.Node) bool {
						rs, ok := m.(*ast.ReturnStmt)
						if !ok || rs.Pos() < first {
							return true
						}
						preceded := false
						if blk, ok := parents[rs].(*ast.BlockStmt); ok {
							for i, st := range blk.List {
								if st == ast.Stmt(rs) && i > 0 {
									if es, ok := blk.List[i-1].(*ast.ExprStmt); ok {
										if c, ok := es.X.(*ast.CallExpr); ok {
											if id, ok := c.Fun.(*ast.Ident); ok && id.Name == "delete" && len(c.Args) == 2 && exprString(c.Args[0]) == s {
												preceded = true
											}
										}
									}
								}
							}
						}
						if !preceded && why == "" {
							why = fmt.Sprintf("the return at %s leaves the entry behind (the set is only cleaned on other ways out)", ctx.Pos(rs.Pos()))
						}
						return true
					})
				}
				r.Check(why == "", "typestate/in-progress-restored", fmt.Sprintf("%s restores %s", ctx.FuncName(obj), s), first, "the entry is removed on every way out (deferred delete right after the insertion, or a delete in front of every return)",
					fmt.Sprintf("%s marks a reference in %s while it follows it, and %s: the next question about the same reference — asked for another field — is answered as if it were a cycle", ctx.FuncName(obj), s, why))
			}
		}
	})
	r.Count("in-progress sets (inserted before a descent, deleted after)", n)
	r.Floor("in-progress sets (inserted before a descent, deleted after)", floor)
}

// c08CueConstraintSiblings: the CUE front-end has one constraint extractor per scalar family (strings, numbers). A value
// with a default (`T & bound | *d`) reaches them as a single expression carrying a default; an extractor that splits the
// expression on `&` without first removing the default finds one part and returns no constraint. Sibling agreement: every
// declare…Constraints function asks the value for its default and replaces the value by an operand of its expression
// before extracting.
func c08CueConstraintSiblings(ctx *Ctx, r *Report) {
	p := ctx.Pkg("internal/simplecue")
	if p == nil {
		r.Undecided("anchor lost: internal/simplecue")
		return
	}
	info := p.TypesInfo
	n := 0
	for _, file := range p.Syntax {
		for _, d := range file.Decls {
			fd, ok := d.(*ast.FuncDecl)
			if !ok || fd.Body == nil || !strings.HasPrefix(fd.Name.Name, "declare") || !strings.HasSuffix(fd.Name.Name, "Constraints") {
				continue
			}
			n++
			var param types.Object
			for _, f := range fd.Type.Params.List {
				for _, nm := range f.Names {
					if t := info.TypeOf(nm); t != nil && strings.HasSuffix(t.String(), "cue.Value") {
						param = info.Defs[nm]
					}
				}
			}
			asksDefault, reassigns := false, false
			ast.Inspect(fd.Body, func(m ast.Node) bool {
				switch x := m.(type) {
				case *ast.CallExpr:
					if sel, ok := x.Fun.(*ast.SelectorExpr); ok && sel.Sel.Name == "Default" {
						if id, ok := ast.Unparen(sel.X).(*ast.Ident); ok && objOf(info, id) == param {
							asksDefault = true
						}
					}
				case *ast.AssignStmt:
					if x.Tok == token.ASSIGN {
						for _, l := range x.Lhs {
							if id, ok := l.(*ast.Ident); ok && objOf(info, id) == param {
								reassigns = true
							}
						}
					}
				}
				return true
			})
			r.Check(asksDefault && reassigns, "siblings/cue-constraints-default", "simplecue."+fd.Name.Name+" removes the default before extracting", fd.Pos(), "asks for the default and continues on an operand of the expression",
				fmt.Sprintf("simplecue.%s extracts constraints from the value as it is: for `T & bound | *default` CUE hands over one expression with a default, the split on `&` finds a single part and the bound is dropped — the generated Validate() accepts what the schema forbids (the sibling extractor strips the default first)", fd.Name.Name))
		}
	}
	r.Count("constraint extractors of the CUE front-end", n)
	r.Floor("constraint extractors of the CUE front-end", 2)
}

// c08RuneLengths: string length bounds count characters (JSON Schema minLength / maxLength, CUE MinRunes / MaxRunes): both
// operators must be emitted on `len([]rune(x))`. A byte length rejects multi-byte strings that are within the bound.
func c08RuneLengths(ctx *Ctx, r *Report, ts *tmplSet) {
	n := 0
	for _, name := range ts.names() {
		if !strings.Contains(ts.file[name], "struct_validation_method") {
			continue
		}
		walkTmpl(ts.trees[name].Root, func(m parse.Node) bool {
			in, ok := m.(*parse.IfNode)
			if !ok {
				return true
			}
			cond := in.Pipe.String()
			op := ""
			for _, o := range []string{"minLength", "maxLength"} {
				if strings.Contains(cond, `"`+o+`"`) && strings.Contains(cond, "eq") {
					op = o
				}
			}
			if op == "" {
				return true
			}
			n++
			body := ""
			walkTmpl(in.List, func(q parse.Node) bool {
				if an, ok := q.(*parse.ActionNode); ok {
					body += an.String() + "\n"
				}
				return true
			})
			r.Check(strings.Contains(body, "[]rune("), "skeleton/length-in-runes", "go validation template "+op, token.NoPos, "the operand is len([]rune(x))",
				ts.file[name]+": the "+op+" check is not emitted on the number of runes: a byte length rejects strings with multi-byte characters that are within the bound (\"café\" with maxLength 4) or accepts too-short ones")
			return true
		})
	}
	r.Count("string length operators in the Go validation template", n)
	r.Floor("string length operators in the Go validation template", 2)
}

// checkTemporariesDepthNamed: a recursive template emits Go statements into one function body; a temporary declared with
// `:=` next to a recursive call is declared again by the nested expansion, inside the loop of the outer one — the inner
// declaration shadows the outer variable for the rest of the loop body (the strict decoder indexed the *inner*, empty,
// `partialArray`). Every temporary of such a template that outlives a statement must carry the depth in its name: the
// identifier in front of `:=` / after `var` is (or ends in) a template action. Declarations scoped to an if statement
// (`if err := …; err != nil`) do not outlive it and are exempt.
var plainDeclRe = regexp.MustCompile(`(?m)(^|[^\w⟧.])([A-Za-z_]\w*)\s*:=`)

func checkTemporariesDepthNamed(ctx *Ctx, r *Report, ts *tmplSet, rt recTemplate) {
	tree := ts.trees[rt.define]
	if tree == nil {
		return
	}
	actionRe := regexp.MustCompile(`⟦[^⟧]*⟧`)
	n := 0
	// every list of the template that contains a recursive call, innermost first: its own text lines
	var visit func(l *parse.ListNode)
	visit = func(l *parse.ListNode) {
		if l == nil {
			return
		}
		recurses := false
		for _, nd := range l.Nodes {
			switch x := nd.(type) {
			case *parse.IfNode:
				visit(x.List)
				visit(x.ElseList)
			case *parse.RangeNode:
				visit(x.List)
				visit(x.ElseList)
			case *parse.WithNode:
				visit(x.List)
				visit(x.ElseList)
			case *parse.TemplateNode:
				if x.Name == rt.define {
					recurses = true
				}
			}
		}
		if !recurses {
			return
		}
		// the text of this list only (nested lists are replaced by nothing)
		var b strings.Builder
		for _, nd := range l.Nodes {
			switch x := nd.(type) {
			case *parse.TextNode:
				b.Write(x.Text)
			case *parse.ActionNode:
				if len(x.Pipe.Decl) == 0 {
					b.WriteString("⟦" + strings.ReplaceAll(x.Pipe.String(), ":=", "≔") + "⟧")
				}
			}
		}
		_ = actionRe
		for _, line := range strings.Split(b.String(), "\n") {
			if !strings.Contains(line, ":=") {
				continue
			}
			trimmed := strings.TrimSpace(line)
			if strings.HasPrefix(trimmed, "if ") || strings.HasPrefix(trimmed, "} else if ") || strings.HasPrefix(trimmed, "for ") {
				continue // scoped to the statement (loop variables are checked by skeleton/loop-depth-fresh)
			}
			n++
			m := plainDeclRe.FindStringSubmatch(line)
			plain := ""
			if m != nil {
				plain = m[2]
			}
			// a name that is a template action must depend on the depth
			if plain == "" {
				if am := regexp.MustCompile(`⟦([^⟧]*)⟧\s*:=`).FindStringSubmatch(line); am != nil {
					expr := resolveVar(strings.TrimSpace(am[1]), varDecls(tree.Root))
					if !strings.Contains(strings.ToLower(expr), "depth") {
						plain = am[1] + " (= " + expr + ", which does not depend on the depth)"
					}
				}
			}
			r.Check(plain == "", "skeleton/temporaries-depth-named", fmt.Sprintf("%s declares `%s`", rt.define, trimmed), token.NoPos, "the declared name carries a template action (the depth)",
				fmt.Sprintf("%s: the recursive template declares the temporary `%s` under a fixed name next to a recursive call: the expansion for a nested list / map declares it again inside the outer loop and shadows it — the outer collection is then read through the inner, empty, variable (index out of range / unexpected end of JSON input on valid documents)", ts.file[rt.define], plain))
		}
	}
	visit(tree.Root)
	r.Count("temporaries declared by recursive templates", n)
}

// c08TypeListThroughWalkers: a JSON Schema node whose `type` is a list (`["string","null"]`) carries its bounds, format
// and default next to that list. The branch of each non-null type must be produced by the walker of that type (which
// reads those keywords), not by a bare scalar constructor fed with the type name alone.
func c08TypeListThroughWalkers(ctx *Ctx, r *Report) {
	fn := ctx.LookupMethod("internal/jsonschema", "generator", "walkScalarDisjunction")
	fd, p := ctx.DeclOf(fn)
	if fd == nil {
		r.Undecided("anchor lost: jsonschema.generator.walkScalarDisjunction")
		return
	}
	info := p.TypesInfo
	n := 0
	ast.Inspect(fd.Body, func(m ast.Node) bool {
		cc, ok := m.(*ast.CaseClause)
		if !ok || cc.List == nil {
			return true
		}
		names := ""
		for _, e := range cc.List {
			names += exprString(e) + " "
		}
		if strings.Contains(names, "typeNull") && len(cc.List) == 1 {
			return true
		}
		n++
		walks, bare := false, ""
		for _, st := range cc.Body {
			ast.Inspect(st, func(q ast.Node) bool {
				c, ok := q.(*ast.CallExpr)
				if !ok {
					return true
				}
				f := callee(info, c)
				if f == nil {
					return true
				}
				if f.Pkg() == p.Types && strings.HasPrefix(f.Name(), "walk") {
					walks = true
				}
				if f.Pkg() != nil && f.Pkg().Path() == astPkgPath {
					switch f.Name() {
					case "String", "Bool", "NewScalar", "Bytes":
						bare = exprString(c)
					}
				}
				return true
			})
		}
		r.Check(walks && bare == "", "frontier/type-list-through-walkers", "jsonschema.walkScalarDisjunction case "+strings.TrimSpace(names), cc.Pos(), "the branch is produced by the walker of that type",
			fmt.Sprintf("walkScalarDisjunction builds the branch for %s with %s from the type name alone: minLength / minimum / format / default written next to `\"type\": [...]` never reach the IR — Validate() accepts what the schema forbids", strings.TrimSpace(names), bare))
		return true
	})
	r.Count("non-null cases of JSON Schema type lists", n)
	r.Floor("non-null cases of JSON Schema type lists", 1)
}

// c08UnionReuseComparesBranches: DisjunctionToType names the struct it generates for a union after the *kinds* of its
// branches (`StringOrInt64`) and, when an object of that name was already generated, returns a reference to it. Two unions
// of the same kinds but different bounds then share one type — and one Validate(), built from the first. The shortcut
// must compare the branches (constraints included) of the union at hand with those of the object it reuses.
func c08UnionReuseComparesBranches(ctx *Ctx, r *Report) {
	fn := ctx.LookupMethod("internal/ast/compiler", "DisjunctionToType", "processDisjunction")
	fd, _ := ctx.DeclOf(fn)
	if fd == nil {
		r.Undecided("anchor lost: DisjunctionToType.processDisjunction")
		return
	}
	n := 0
	ast.Inspect(fd.Body, func(m ast.Node) bool {
		is, ok := m.(*ast.IfStmt)
		if !ok || !strings.Contains(exprString(is.Cond), "HasNewObject") {
			return true
		}
		n++
		compares := false
		ast.Inspect(is, func(q ast.Node) bool {
			if s, ok := q.(*ast.SelectorExpr); ok {
				switch s.Sel.Name {
				case "Equal", "Equals", "Constraints", "DeepEqual":
					compares = true
				}
			}
			return true
		})
		r.Check(compares, "traverse/union-reuse-compares-branches", "DisjunctionToType reuses a generated union type", is.Pos(), "after comparing the branches of both unions",
			"DisjunctionToType reuses the object generated for an earlier union as soon as the *name* (built from the branch kinds) matches: `big?: (string & MinRunes(4)) | (int & >=10)` and `small?: (string & MaxRunes(2)) | (int & <=5)` both become *StringOrInt64 with the Validate() of the first — valid values of `small` are rejected, invalid ones accepted")
		return true
	})
	r.Count("reuse shortcuts of DisjunctionToType", n)
	r.Floor("reuse shortcuts of DisjunctionToType", 1)
}

// c13HuntedRules: three clauses of the equality template found violated by bug hunting. (a) `any` reached through a
// reference: the branch that compares with reflect.DeepEqual must be selected on the *resolved* type, otherwise the value
// is compared with `!=` (panics on maps and slices). (b) a reference to a named nullable scalar is a pointer type of its
// own (`type MaybeStr *string`): the scalar branch must compare what the pointers point to. (c) time.Time fields must not
// be compared with `!=` (it compares the *Location pointer too): recorded finding.
func c13HuntedRules(ctx *Ctx, r *Report, ts *tmplSet, branches []tmplBranch) {
	if len(branches) == 0 {
		return
	}
	file := ts.file[recEquality.define]
	// (a)
	anyCond := ""
	for _, b := range branches {
		if b.cond != nil && strings.Contains(tmplText(b.body), "DeepEqual") {
			anyCond = b.cond.String()
		}
	}
	r.Count("hunted clauses of the equality template", 3)
	r.Check(regexp.MustCompile(`\(resolveRefs [^)]*\)\.IsAny`).MatchString(anyCond), "skeleton/equality-any-through-reference", "type_equality_check DeepEqual branch condition", token.NoPos, "selected on the resolved type",
		file+": the branch comparing with reflect.DeepEqual is selected by `"+anyCond+"`, which is false for a *reference* to an `any` type: the value is then compared with `!=` — Equals panics (comparing uncomparable type map[string]interface {}) on its own receiver")
	// (b), (c): the scalar branch
	for _, b := range branches {
		if b.cond == nil || !strings.Contains(b.cond.String(), "resolvesToScalar") {
			continue
		}
		txt := tmplText(b.body)
		r.Check(strings.Contains(txt, "== nil) != (") || (strings.Contains(txt, "Nullable") && strings.Contains(txt, "!= nil && *")), "skeleton/equality-named-nullable-scalar", "type_equality_check scalar branch handles named nullable scalars", token.NoPos, "pointed-to values are compared",
			file+": the scalar branch compares a reference to a named nullable scalar (`type MaybeStr *string`) with `!=`, i.e. by pointer identity: two values decoded from the same document are unequal")
		// bytes are declared []byte: a slice is only comparable to nil
		bytesBranch := false
		for _, b2 := range branches {
			if b2.cond != nil && strings.Contains(b2.cond.String(), "bytes") && strings.Contains(tmplText(b2.body), "bytes.Equal(") {
				bytesBranch = true
			}
		}
		r.Check(bytesBranch || strings.Contains(txt, "bytes.Equal("), "skeleton/equality-bytes", "type_equality_check compares bytes with bytes.Equal", token.NoPos, "a branch for the bytes kind uses bytes.Equal",
			file+": the scalar branch compares every scalar with `!=`, the bytes kind included, which the type formatter declares []byte: `resource.B != other.B` — invalid operation: slice can only be compared to nil — the package does not type-check with generate_equal")
		r.Check(strings.Contains(txt, ".Equal("), "skeleton/equality-time", "type_equality_check scalar branch handles time.Time", token.NoPos, "date-time values are compared with Equal",
			file+": date-time fields are declared time.Time and compared with `!=`, which also compares the *Location pointers: two values decoded from the same document are unequal as soon as the offset is not UTC or a whole hour (+05:30)")
	} // (d) a field referring to a constant is declared with the constant's own type (formatField drops the pointer):
	// the struct branch must not walk it as nullable
	if p := ctx.Pkg("internal/jennies/golang"); p != nil {
		substitutes := false
		for _, f := range p.Syntax {
			for _, d := range f.Decls {
				fd, ok := d.(*ast.FuncDecl)
				if !ok || fd.Name.Name != "formatField" || fd.Body == nil {
					continue
				}
				ast.Inspect(fd.Body, func(n ast.Node) bool {
					if c, ok := n.(*ast.CallExpr); ok {
						if fn := callee(p.TypesInfo, c); fn != nil && fn.Name() == "IsConcreteScalar" {
							substitutes = true
						}
					}
					return true
				})
			}
		}
		r.Count("hunted clauses of the equality template", 1)
		for _, b := range branches {
			if b.cond == nil || !strings.Contains(b.cond.String(), ".Type.IsStruct") {
				continue
			}
			for _, args := range recursiveCalls(b.body, recEquality.define) {
				nullable := args["Nullable"]
				r.Check(!substitutes || strings.Contains(nullable, "IsConcreteScalar"), "skeleton/equality-constant-field-not-pointer", "type_equality_check struct branch: Nullable of a field", token.NoPos,
					"the field's nullability excludes references to constants, as golang.formatField does (Nullable="+nullable+")",
					file+": golang.formatField declares a field referring to a constant with the constant's own type (`K string`, never a pointer), but the struct branch walks the field with Nullable="+nullable+": for an optional `k?: #K` the method emits `resource.K == nil` and `*resource.K` — the package does not type-check with generate_equal")
			}
		}
	}
	// (e) a reference to an alias of a nullable type (`type MaybeE = *E`) is a pointer although the reference is not nullable
	aliasAt, arrayAt, scalarAt, deepCond := -1, -1, -1, (*parse.PipeNode)(nil)
	for i, b := range branches {
		if b.cond == nil {
			continue
		}
		c := b.cond.String()
		switch {
		case strings.Contains(c, "resolveNullableAlias") && aliasAt < 0:
			aliasAt = i
		case strings.Contains(c, "resolvesToArray") && arrayAt < 0:
			arrayAt = i
		case strings.Contains(c, "resolvesToScalar") && scalarAt < 0:
			scalarAt = i
		}
		if strings.Contains(tmplText(b.body), "DeepEqual") && deepCond == nil {
			deepCond = b.cond
		}
	}
	r.Count("hunted clauses of the equality template", 2)
	aliasOK := aliasAt >= 0 && (arrayAt < 0 || aliasAt < arrayAt) && (scalarAt < 0 || aliasAt < scalarAt)
	if aliasOK {
		calls := recursiveCalls(branches[aliasAt].body, recEquality.define)
		aliasOK = len(calls) > 0
		for _, args := range calls {
			if !strings.Contains(args["Type"], "resolveNullableAlias") || args["Nullable"] != "true" {
				aliasOK = false
			}
		}
	}
	r.Check(aliasOK, "skeleton/equality-nullable-alias", "type_equality_check follows aliases of nullable types", token.NoPos, "a branch placed before the collection and scalar branches compares the value as the nullable type the alias goes through",
		file+": no branch (ahead of the array, map and scalar branches) re-enters the comparison with the nullable type a reference goes through (`MaybeE: E | null` is declared `type MaybeE = *E`): a field `level: #MaybeE` is compared with `!=` on the pointers — two values decoded from the same document are unequal — and through an alias of a nullable array or struct the method does not type-check")
	// (f) DeepEqual tells nil from empty: it is only for the reference that closes a recursive collection, never for the levels above
	deepOK := deepCond != nil
	if deepCond != nil {
		walkTmpl(deepCond, func(n parse.Node) bool {
			cmd, ok := n.(*parse.CommandNode)
			if !ok || len(cmd.Args) == 0 {
				return true
			}
			id, _ := cmd.Args[0].(*parse.IdentifierNode)
			if id == nil || id.Ident == "and" {
				return true
			}
			// a command other than `and` holding isRecursiveCollection directly (in a nested pipe) is an unguarded use
			for _, a := range cmd.Args[1:] {
				if pn, ok := a.(*parse.PipeNode); ok && len(pn.Cmds) == 1 && len(pn.Cmds[0].Args) > 0 {
					if in, _ := pn.Cmds[0].Args[0].(*parse.IdentifierNode); in != nil && in.Ident == "isRecursiveCollection" {
						deepOK = false
					}
				}
			}
			return true
		})
		// and the `and` that holds it also tests .Type.IsRef
		walkTmpl(deepCond, func(n parse.Node) bool {
			cmd, ok := n.(*parse.CommandNode)
			if !ok || len(cmd.Args) == 0 {
				return true
			}
			id, _ := cmd.Args[0].(*parse.IdentifierNode)
			if id == nil || id.Ident != "and" {
				return true
			}
			holds, isRef := false, false
			for _, a := range cmd.Args[1:] {
				if strings.Contains(a.String(), "isRecursiveCollection") {
					holds = true
				}
				if strings.TrimSpace(a.String()) == ".Type.IsRef" {
					isRef = true
				}
			}
			if holds && !isRef {
				deepOK = false
			}
			return true
		})
		if id, _ := deepCond.Cmds[0].Args[0].(*parse.IdentifierNode); id != nil && id.Ident == "isRecursiveCollection" {
			deepOK = false
		}
	}
	r.Check(deepOK, "skeleton/equality-deepequal-at-reference", "type_equality_check DeepEqual branch: recursive collections", token.NoPos, "isRecursiveCollection selects the DeepEqual branch only for a reference",
		file+": the reflect.DeepEqual branch is selected by isRecursiveCollection on any type, inline arrays and maps included: an optional `forest?: [...#Tree]` (omitempty) is compared with DeepEqual, which tells nil from empty — two values encoding to the same JSON are unequal; only the reference closing the loop needs DeepEqual")
}

// c08CollapsedUnionKeepsConstraints: DisjunctionToType replaces a union whose branches all resolve to one scalar
// kind (`-1 | (int & >0)`, `"a" | string`) by one bare scalar of that kind. The branches can carry constraints and
// constants: the scalar that replaces them has to receive them (in some form Validate() can check), or values that
// no branch accepts pass validation. The rule: in the branch taken under hasOnlySingleTypeScalars, the constraints of
// the branches are read.
func c08CollapsedUnionKeepsConstraints(ctx *Ctx, r *Report) {
	fn := ctx.LookupMethod("internal/ast/compiler", "DisjunctionToType", "processDisjunction")
	fd, p := ctx.DeclOf(fn)
	if fd == nil || fd.Body == nil {
		r.Undecided("anchor lost: DisjunctionToType.processDisjunction")
		return
	}
	info := p.TypesInfo
	n := 0
	ast.Inspect(fd.Body, func(m ast.Node) bool {
		is, ok := m.(*ast.IfStmt)
		if !ok {
			return true
		}
		c, ok := ast.Unparen(is.Cond).(*ast.CallExpr)
		if !ok {
			return true
		}
		if f := callee(info, c); f == nil || f.Name() != "hasOnlySingleTypeScalars" {
			return true
		}
		n++
		reads := false
		ast.Inspect(is.Body, func(q ast.Node) bool {
			if sel, ok := q.(*ast.SelectorExpr); ok && sel.Sel.Name == "Constraints" {
				reads = true
			}
			return true
		})
		r.Check(reads, "normalform/collapsed-union-keeps-constraints", "DisjunctionToType single-kind shortcut carries the branches' constraints", is.Pos(), "the constraints of the branches are read when the union is collapsed",
			"a union whose branches all resolve to one scalar kind is replaced by a brand new bare scalar: the constraints and constants of the branches are dropped, `limit: -1 | (int & >0)` becomes `Limit int64` with no check at all — Validate() accepts -5 and 0, which no branch accepts")
		return false
	})
	r.Count("single-kind shortcuts of DisjunctionToType", n)
	r.Floor("single-kind shortcuts of DisjunctionToType", 1)
}

// c08StrictUnionBranches: the strict decoder of a union of "scalars" decodes branch by branch; a branch can be a list
// or a map of objects, whose elements have strict decoders of their own. The template has to hand such a branch to
// strict_unmarshal_field_type (which walks the elements) — json.Unmarshal accepts undeclared fields, missing required
// fields and nulls inside them.
func c08StrictUnionBranches(ctx *Ctx, r *Report) {
	ts, err := loadTemplates(ctx, "golang")
	if err != nil {
		r.Undecided("templates of golang: %v", err)
		return
	}
	name := "types/disjunction_of_scalars.strict.json_unmarshal.tmpl"
	tree := ts.trees[name]
	if tree == nil {
		r.Undecided("anchor lost: golang template %s", name)
		return
	}
	strict, underTest := false, false
	walkTmpl(tree.Root, func(n parse.Node) bool {
		in, ok := n.(*parse.IfNode)
		if !ok {
			return true
		}
		cond := in.Pipe.String()
		if !(strings.Contains(cond, "resolvesToArrayOfScalars") || strings.Contains(cond, "resolvesToMapOfScalars")) {
			return true
		}
		underTest = true
		walkTmpl(in.List, func(q parse.Node) bool {
			if tn, ok := q.(*parse.TemplateNode); ok && tn.Name == "strict_unmarshal_field_type" {
				strict = true
			}
			return true
		})
		return true
	})
	r.Count("strict decoders of unions of scalars", 1)
	r.Check(underTest && strict, "skeleton/strict-union-branches-strict", "golang disjunction_of_scalars strict decoder: lists and maps of objects", token.NoPos, ts.file[name]+": a branch that is a list or map of objects goes through strict_unmarshal_field_type",
		ts.file[name]+": every branch of the union is decoded with json.Unmarshal: for `source: string | [...#Item]` the elements of the list are never checked — undeclared fields, missing required fields and nulls are accepted inside them, while the same faults in a plain `[...#Item]` are rejected")
}

// c13NilTestExcludesConstantRefs: a reference to a member of an enum (`Kind & "a"`) is declared with the enum's type,
// never as a pointer — also when the field is optional. The branch of a recursive Go template that handles "the value is
// nullable" by comparing it with nil must not take such a type: its condition names IsConstantRef.
func c13NilTestExcludesConstantRefs(ctx *Ctx, r *Report, ts *tmplSet, define string) {
	tree := ts.trees[define]
	if tree == nil {
		r.Undecided("anchor lost: golang template %q", define)
		return
	}
	var top *parse.IfNode
	for _, n := range tree.Root.Nodes {
		if in, ok := n.(*parse.IfNode); ok {
			top = in
			break
		}
	}
	if top == nil {
		r.Undecided("anchor changed: golang template %q has no dispatch", define)
		return
	}
	n := 0
	for _, b := range ifChain(top) {
		if b.cond == nil {
			continue
		}
		cond := b.cond.String()
		// the generic nullable branch: driven by the Nullable argument, not by what the type resolves to
		if !strings.Contains(cond, ".Nullable") || strings.Contains(cond, "IsRef") || strings.Contains(cond, "resolve") {
			continue
		}
		if !strings.Contains(tmplText(b.body), "nil") {
			continue
		}
		n++
		r.Check(strings.Contains(cond, "IsConstantRef"), "skeleton/nil-test-excludes-constant-ref", define+" nullable branch ("+cond+")", token.NoPos, ts.file[define]+": the branch comparing with nil does not take references to enum members",
			ts.file[define]+": the nullable branch of "+define+" compares every nullable value with nil, references to an enum member included: `t?: #E & \"a\"` is declared `T E` and the generated method tests `resource.T == nil` — mismatched types E and untyped nil, the package does not compile")
	}
	r.Count("nullable branches of "+define, n)
	r.Floor("nullable branches of "+define, 1)
}

// c13NumericUnionBranches: a union wrapper holds one pointer per branch. With two numeric branches (`int | float`) the
// same number can sit in either: {"v":1} is decoded into Int64 and {"v":1.0} into Float64, and both are written `1`.
// "Two values that encode to the same JSON are equal" then needs one of: the decoder puts a number in a branch chosen
// by its value, the encoder tells the branches apart, or Equals compares across numeric branches. Whichever it is, it is
// logic about numeric kinds in the templates of the union wrappers or in the equality template; none of them having any
// is sufficient for the defect. (This is a coarse necessary condition: it says nothing on whether such logic is right.)
func c13NumericUnionBranches(ctx *Ctx, r *Report, ts *tmplSet) {
	numeric := regexp.MustCompile(`(?i)numeric|number|float|int64|integer`)
	found := ""
	examined := 0
	for _, name := range ts.names() {
		file := ts.file[name]
		if !strings.Contains(file, "disjunction_of_scalars") && name != recEquality.define {
			continue
		}
		examined++
		text := tmplText(ts.trees[name].Root)
		walkTmpl(ts.trees[name].Root, func(n parse.Node) bool {
			if an, ok := n.(*parse.ActionNode); ok {
				text += " " + an.String()
			}
			return true
		})
		if numeric.MatchString(text) {
			found = file
		}
	}
	if examined < 3 {
		r.Undecided("anchor lost: templates of the scalar union wrappers / equality (%d found)", examined)
		return
	}
	r.Count("templates deciding the branch, encoding and equality of scalar unions", examined)
	r.Check(found != "", "skeleton/numeric-union-branches", "golang scalar union wrappers treat numeric branches", token.NoPos, "some template of the wrappers or of Equals looks at numeric kinds ("+found+")",
		"neither the decoder, the encoder nor Equals of a union of scalars has any logic about numeric kinds: with `v: int | float`, {\"v\":1} is decoded into the Int64 branch and {\"v\":1.0} into the Float64 branch, both are encoded {\"v\":1}, and Equals — which compares branch by branch — says they differ")
}

// c08StrictElementNull: `null` is a value of an element of a list or map only when the element type is nullable. The
// strict decoder tests `null` for the fields of a struct (required ∧ ¬nullable); for elements, the recursive template
// "strict_unmarshal_field_type" must refuse a raw `null` whenever it is reached at depth > 1 for a type that is not
// nullable — json.Unmarshal(null) is a silent no-op for every Go type, UnmarshalJSONStrict("null") returns nil. The rule
// looks for that refusal: a conditional on the depth and on the non-nullability of the input type whose text compares
// the raw input with "null" and reports an error. (The wholesale shortcuts for lists / maps of scalars skip the
// elements altogether; they are only sound for nullable elements — same clause.)
func c08StrictElementNull(ctx *Ctx, r *Report, ts *tmplSet) {
	tree := ts.trees[recStrict.define]
	if tree == nil {
		r.Undecided("anchor lost: template %q", recStrict.define)
		return
	}
	refuses := false
	walkTmpl(tree.Root, func(n parse.Node) bool {
		in, ok := n.(*parse.IfNode)
		if !ok {
			return true
		}
		cond := in.Pipe.String()
		if !strings.Contains(cond, ".Depth") || !strings.Contains(cond, "not") || !strings.Contains(cond, "Nullable") {
			return true
		}
		text := tmplText(in.List)
		if strings.Contains(text, `"null"`) && strings.Contains(text, "errs = append") {
			refuses = true
		}
		return true
	})
	r.Count("element-level null tests of the strict decoder template", 1)
	r.Check(refuses, "skeleton/strict-element-null-rejected", "strict_unmarshal_field_type refuses null for non-nullable elements", token.NoPos, ts.file[recStrict.define]+": a raw `null` reached at depth > 1 for a non-nullable type is reported",
		ts.file[recStrict.define]+": the null test only exists for the fields of a struct: `tags: [...string]` accepts [\"a\", null] (stored \"\"), `limits: [string]: int` accepts {\"cpu\": null} (stored 0), `opts: [...#Opt]` accepts [null] — documents the schema rejects")
}

// c13FourthHunt — fourth hunt:
//   - what the Go type formatter *declares* `any` holds maps and slices once decoded; `!=` on such interface values
//     panics. Every scalar kind doFormatType turns into `any` (today: null) is named by the condition of the branch of
//     the equality template that compares with reflect.DeepEqual;
//   - a dataquery slot is an interface value; the branch that calls its Equals tests it against nil first;
//   - (finding) the Equals of a dataquery variant names the package `variants` in literal text: nothing imports it.
func c13FourthHunt(ctx *Ctx, r *Report, ts *tmplSet, branches []tmplBranch) {
	n := 0
	// (a)
	fn := ctx.LookupMethod("internal/jennies/golang", "typeFormatter", "doFormatType")
	fd, _ := ctx.DeclOf(fn)
	p := ctx.Pkg("internal/jennies/golang")
	if fd == nil || p == nil {
		r.Undecided("anchor lost: golang.typeFormatter.doFormatType")
	} else {
		info := p.TypesInfo
		var kinds []string
		ast.Inspect(fd.Body, func(m ast.Node) bool {
			is, ok := m.(*ast.IfStmt)
			if !ok {
				return true
			}
			be, ok := ast.Unparen(is.Cond).(*ast.BinaryExpr)
			if !ok || be.Op != token.EQL {
				return true
			}
			kindOf := func(e ast.Expr) string {
				if sel, ok := ast.Unparen(e).(*ast.SelectorExpr); ok {
					if c, ok := info.Uses[sel.Sel].(*types.Const); ok && strings.HasPrefix(c.Name(), "Kind") {
						return c.Name()
					}
				}
				return ""
			}
			k := kindOf(be.Y)
			if k == "" {
				k = kindOf(be.X)
			}
			if k == "" {
				return true
			}
			becomesAny := false
			ast.Inspect(is.Body, func(q ast.Node) bool {
				if as, ok := q.(*ast.AssignStmt); ok && len(as.Rhs) == 1 && kindOf(as.Rhs[0]) == "KindAny" {
					becomesAny = true
				}
				return true
			})
			if becomesAny {
				kinds = append(kinds, k)
			}
			return true
		})
		if len(kinds) == 0 {
			r.Undecided("anchor changed: golang.doFormatType turns no scalar kind into any")
		}
		var deep *tmplBranch
		for i := range branches {
			if branches[i].cond != nil && strings.Contains(tmplText(branches[i].body), "DeepEqual") {
				deep = &branches[i]
				break
			}
		}
		if deep == nil {
			r.Undecided("anchor changed: no branch of type_equality_check compares with reflect.DeepEqual")
		} else {
			for _, k := range kinds {
				pred := "Is" + strings.TrimPrefix(k, "Kind")
				n++
				r.Check(strings.Contains(deep.cond.String(), "."+pred), "skeleton/go-declared-any-compared-deeply", "type_equality_check compares the kind "+k+", declared any", token.NoPos, "the reflect.DeepEqual branch is selected by "+pred,
					ts.file[recEquality.define]+": doFormatType declares a scalar of kind "+k+" `any`, and the equality template sends it to the `!=` branch of scalars: `n: null` decoded from {\"n\":{\"k\":1}} makes a.Equals(a) panic — comparing uncomparable type map[string]interface {}")
			}
		}
	}
	// (b)
	slots := 0
	for i, b := range branches {
		if b.cond == nil || !strings.Contains(b.cond.String(), "IsDataqueryComposableSlot") {
			continue
		}
		slots++
		txt := tmplText(b.body)
		if !strings.Contains(txt, ".Equals(") {
			continue
		}
		n++
		r.Check(strings.Contains(txt, "== nil") || strings.Contains(txt, "!= nil"), "skeleton/go-slot-equality-nil-guarded", fmt.Sprintf("type_equality_check branch #%d calls Equals on a dataquery slot", i+1), token.NoPos, "after a comparison with nil",
			ts.file[recEquality.define]+": the slot is declared variants.Dataquery, an interface, and its Equals is called unconditionally: {\"title\":\"t\"} decoded twice (slot absent) makes a.Equals(b) panic — nil pointer dereference; same for a null element in a list of slots")
	}
	if slots == 0 {
		r.Undecided("anchor changed: no branch of type_equality_check for dataquery slots")
	}
	// (c)
	found := false
	for _, name := range ts.names() {
		if !strings.Contains(ts.file[name], "dataquery_equality_method") {
			continue
		}
		found = true
		literal := regexp.MustCompile(`\bvariants\.`).MatchString(tmplText(ts.trees[name].Root))
		n++
		r.Check(!literal, "skeleton/go-dataquery-equals-imports-variants", "golang dataquery_equality_method.tmpl names the variants package", token.NoPos, "through an action that registers the import",
			ts.file[name]+": `variants.Dataquery` is literal text and nothing registers <package_root>/cog/variants in the file's imports (goimports runs with FormatOnly): a dataquery variant generated with generate_equal does not compile — undefined: variants — unless a slot field of the same file happens to import it")
	}
	if !found {
		r.Undecided("anchor lost: golang dataquery_equality_method template")
	}
	r.Count("hunted clauses of Equals (4th hunt)", n)
	r.Floor("hunted clauses of Equals (4th hunt)", 3)
}

// splitTopLevel splits the arguments of a pipeline written as text at the spaces that are not inside parentheses.
func splitTopLevel(s string) []string {
	var out []string
	depth, start := 0, 0
	for i, c := range s {
		switch c {
		case '(':
			depth++
		case ')':
			depth--
		case ' ':
			if depth == 0 {
				if i > start {
					out = append(out, s[start:i])
				}
				start = i + 1
			}
		}
	}
	if start < len(s) {
		out = append(out, s[start:])
	}
	return out
}

// c08FifthHunt — fifth hunt:
//   - a fractional bound of an integer (`minimum: 0.5`) admits the integers from 1: the OpenAPI front-end rounds it
//     up for a lower bound and down for an upper bound (it truncated towards zero: `>= 0`), the JSON Schema front-end
//     takes operator and argument of every bound from a helper that knows whether the bound is an integer (it kept the
//     float: `resource.Level >= 0.5` on an int64 does not compile);
//   - JSON Schema: a reference is all the IR keeps of a schema that has `$ref`; walkRef leaves with an error when bounds
//     are written next to it (2019-09 and later apply them together with the referred schema);
//   - nullability can sit on the type a reference leads to (`MaybeName: string | null`): the strict decoder consults it
//     before it answers `required field is null`, and Validate tests such an alias — a pointer — against nil before it
//     looks at what it points to.
func c08FifthHunt(ctx *Ctx, r *Report, ts *tmplSet) {
	n := 0
	// (a)
	if fn := ctx.LookupFunc("internal/openapi", "getConstraints"); fn == nil {
		r.Undecided("anchor lost: openapi.getConstraints")
	} else if fd, p := ctx.DeclOf(fn); fd != nil {
		info := p.TypesInfo
		calls := map[string]bool{}
		ast.Inspect(fd.Body, func(m ast.Node) bool {
			if c, ok := m.(*ast.CallExpr); ok {
				if f := callee(info, c); f != nil && f.Pkg() != nil && f.Pkg().Path() == "math" {
					calls[f.Name()] = true
				}
			}
			return true
		})
		n++
		r.Check(calls["Ceil"] && calls["Floor"], "frontier/integer-bounds-rounded", "openapi.getConstraints reads the bounds of an integer", fd.Pos(), "a fractional lower bound is rounded up, a fractional upper bound down",
			"getConstraints hands the bound of an integer to a conversion that truncates towards zero: `level: {type: integer, minimum: 0.5}` is checked with `>= 0` and `floor: {maximum: -0.5}` with `<= 0` — Validate() accepts {\"level\":0}, which the schema forbids")
	}
	if fp := ctx.Pkg("internal/jsonschema"); fp == nil {
		r.Undecided("anchor lost: internal/jsonschema")
	} else if fd := c12Method(fp, "walkNumber"); fd == nil {
		r.Undecided("anchor lost: jsonschema.generator.walkNumber")
	} else {
		info := fp.TypesInfo
		knowsIntegers := func(f *types.Func) bool {
			hfd, _ := ctx.DeclOf(f)
			if hfd == nil || hfd.Body == nil {
				return false
			}
			found := false
			ast.Inspect(hfd.Body, func(k ast.Node) bool {
				if c, ok := k.(*ast.CallExpr); ok {
					if cf := callee(info, c); cf != nil && cf.FullName() == "(*math/big.Rat).IsInt" {
						found = true
					}
				}
				return true
			})
			return found
		}
		// variables holding the operator given by such a helper
		ops := map[types.Object]bool{}
		ast.Inspect(fd.Body, func(m ast.Node) bool {
			if as, ok := m.(*ast.AssignStmt); ok && len(as.Rhs) == 1 && len(as.Lhs) >= 1 {
				if c, ok := ast.Unparen(as.Rhs[0]).(*ast.CallExpr); ok && knowsIntegers(callee(info, c)) {
					if id, ok := as.Lhs[0].(*ast.Ident); ok && namedName(info.TypeOf(id)) == "Op" {
						ops[objOf(info, id)] = true
					}
				}
			}
			return true
		})
		bounds, fixed := 0, 0
		ast.Inspect(fd.Body, func(m ast.Node) bool {
			cl, ok := m.(*ast.CompositeLit)
			if !ok || namedName(info.TypeOf(cl)) != "TypeConstraint" {
				return true
			}
			for _, el := range cl.Elts {
				kv, ok := el.(*ast.KeyValueExpr)
				if !ok || exprString(kv.Key) != "Op" {
					continue
				}
				if sel, ok := ast.Unparen(kv.Value).(*ast.SelectorExpr); ok {
					// a constant operator
					if strings.HasSuffix(sel.Sel.Name, "ThanOp") || strings.HasSuffix(sel.Sel.Name, "ThanEqualOp") {
						bounds++
						fixed++
					}
					continue
				}
				if id, ok := ast.Unparen(kv.Value).(*ast.Ident); ok && ops[objOf(info, id)] {
					bounds++
				}
			}
			return true
		})
		if bounds == 0 {
			r.Undecided("anchor changed: jsonschema.walkNumber builds no bound")
		} else {
			n++
			r.Check(fixed == 0, "frontier/integer-bounds-rounded", "jsonschema.walkNumber reads the bounds of a number", fd.Pos(), "operator and argument of every bound come from a helper that knows whether the bound is an integer",
				fmt.Sprintf("%d of the %d bounds of walkNumber keep their operator whatever the bound: `{\"type\": \"integer\", \"minimum\": 0.5}` reaches the IR as `>= 0.5` on an int64 — `resource.Level >= 0.5` does not compile (0.5 truncated to int64); the integers the schema admits are those from 1", fixed, bounds))
		}
		// (b)
		if rfd := c12Method(fp, "walkRef"); rfd == nil {
			r.Undecided("anchor lost: jsonschema.generator.walkRef")
		} else {
			refuses := false
			ast.Inspect(rfd.Body, func(m ast.Node) bool {
				is, ok := m.(*ast.IfStmt)
				if !ok || len(is.Body.List) == 0 {
					return true
				}
				rs, ok := is.Body.List[len(is.Body.List)-1].(*ast.ReturnStmt)
				if !ok || len(rs.Results) != 2 || isNilIdent(info, rs.Results[1]) {
					return true
				}
				keywords := map[string]bool{}
				ast.Inspect(is.Cond, func(k ast.Node) bool {
					if sel, ok := k.(*ast.SelectorExpr); ok {
						keywords[sel.Sel.Name] = true
					}
					return true
				})
				if keywords["Minimum"] && keywords["Maximum"] && keywords["MinLength"] && keywords["MaxLength"] {
					refuses = true
				}
				return true
			})
			n++
			r.Check(refuses, "frontier/ref-sibling-bounds-refused", "jsonschema.walkRef meets bounds written next to $ref", rfd.Pos(), "it leaves with an error",
				"walkRef builds a reference and reads nothing but `default` from the schema that holds `$ref`: `\"limit\": {\"$ref\": \"#/$defs/Count\", \"maximum\": 10}` loses its maximum — Validate() accepts {\"limit\":11}, which the schema (2020-12: siblings of $ref apply) forbids")
		}
	}
	// (c)
	for _, name := range ts.names() {
		if !strings.Contains(ts.file[name], "struct.strict.json_unmarshal") {
			continue
		}
		walkTmpl(ts.trees[name].Root, func(m parse.Node) bool {
			in, ok := m.(*parse.IfNode)
			if !ok || !strings.Contains(tmplText(in.List), "required field is null") {
				return true
			}
			cond := in.Pipe.String()
			n++
			r.Check(strings.Contains(cond, "resolveNullableAlias") || strings.Contains(cond, "resolveRefs"), "skeleton/strict-null-through-reference", "strict decoder answers `required field is null`", token.NoPos, "after asking the type a reference leads to",
				ts.file[name]+": `required field is null` is decided on the reference alone (`"+cond+"`): `nickname` (required) referring to `MaybeName: {type: string, nullable: true}` refuses {\"nickname\":null}, which the schema admits")
			return true
		})
	}
	if tree := ts.trees[recValidate.define]; tree == nil {
		r.Undecided("anchor lost: golang template %q", recValidate.define)
	} else {
		guarded := false
		walkTmpl(tree.Root, func(m parse.Node) bool {
			in, ok := m.(*parse.IfNode)
			if !ok {
				return true
			}
			cond := in.Pipe.String()
			if strings.Contains(cond, ".Nullable") && strings.Contains(tmplText(in.List), "!= nil") {
				// inside the referenced-scalar branch: the test is on a variable holding the resolved type
				if strings.Contains(cond, "$resolved") || strings.Contains(cond, "resolveRefs") {
					guarded = true
				}
			}
			return true
		})
		n++
		r.Check(guarded, "skeleton/validate-nullable-alias-guarded", recValidate.define+" checks a reference to a nullable scalar alias", token.NoPos, "under a nil test decided on the resolved type",
			ts.file[recValidate.define]+": the constraints of a referenced scalar alias are written as if the alias were the scalar: `type MaybeName *string` with minLength 2 gives `len([]rune(resource.Nickname))` — cannot convert resource.Nickname (variable of type MaybeName) to type []rune, the package does not compile")
	}
	r.Count("hunted clauses of validation and strict decoding (5th hunt)", n)
	r.Floor("hunted clauses of validation and strict decoding (5th hunt)", 5)
}

// c13FifthHunt — fifth hunt of C13:
//   - the Go type formatter declares an enum with the type of its members whatever its nullability (`type Color
//     string`): the only pointer a reference to an enum that accepts null goes through is its own. What tells the
//     templates that a reference is "held through a named nullable type" (languages.Context.ResolveNullableAlias, the
//     `$resolved.Nullable` sub-branch of the scalar/enum leaf of the equality template) has to leave enums out;
//   - the templates call the standard packages by name and the import map binds one package per name: the name every
//     standard package is imported under (read from the `importStdPkg` actions of the templates and from the literal
//     calls to the import map) has to be in the list formatImportAlias consults, and every schema package has to be
//     imported through formatImportAlias;
//   - (finding) the float leaves are compared with `!=`: -0.0 and 0.0 are equal and are encoded `-0` and `0`.
func c13FifthHunt(ctx *Ctx, r *Report, ts *tmplSet, floats bool) {
	n := 0
	p := ctx.Pkg("internal/jennies/golang")
	if p == nil {
		r.Undecided("anchor lost: internal/jennies/golang")
		return
	}
	info := p.TypesInfo
	// (a)
	enumIgnoresNullability := false
	if fd, _ := ctx.DeclOf(ctx.LookupMethod("internal/jennies/golang", "typeFormatter", "formatEnumDef")); fd == nil {
		r.Undecided("anchor lost: golang.typeFormatter.formatEnumDef")
	} else {
		enumIgnoresNullability = true
		ast.Inspect(fd.Body, func(m ast.Node) bool {
			if sel, ok := m.(*ast.SelectorExpr); ok && sel.Sel.Name == "Nullable" {
				enumIgnoresNullability = false
			}
			return true
		})
	}
	if enumIgnoresNullability {
		if fd, lp := ctx.DeclOf(ctx.LookupMethod("internal/languages", "Context", "ResolveNullableAlias")); fd == nil {
			r.Undecided("anchor lost: languages.Context.ResolveNullableAlias")
		} else {
			_ = lp
			// every `return` of a nullable type found on the way is guarded by a condition that leaves enums out
			ok, seen := true, 0
			parents := parentMap(fd)
			ast.Inspect(fd.Body, func(m ast.Node) bool {
				ret, isRet := m.(*ast.ReturnStmt)
				if !isRet || len(ret.Results) != 1 {
					return true
				}
				if _, zero := ast.Unparen(ret.Results[0]).(*ast.CompositeLit); zero {
					return true
				}
				seen++
				guarded := false
				for q := parents[m]; q != nil; q = parents[q] {
					if is, isIf := q.(*ast.IfStmt); isIf && strings.Contains(exprString(is.Cond), "Nullable") && strings.Contains(exprString(is.Cond), "IsEnum") {
						guarded = true
					}
				}
				if !guarded {
					ok = false
				}
				return true
			})
			n++
			r.Check(ok && seen > 0, "skeleton/go-nullable-enum-not-a-pointer", "languages.ResolveNullableAlias answers for an enum that accepts null", fd.Pos(), "enums are left out: they are declared with the type of their members",
				"ResolveNullableAlias answers `held through the nullable type of the object referred to` for an enum that accepts null, which Go declares `type Color string`: Equals of `Obj{color: $ref Color}` with Color `enum: [red, green, null]` tests `(*resource.Color) == nil` and compares `*(*resource.Color)` — mismatched types Color and untyped nil, the package does not compile")
		}
		tree := ts.trees[recEquality.define]
		if tree == nil {
			r.Undecided("anchor lost: template %s", recEquality.define)
		} else {
			ok, seen := true, 0
			walkTmpl(tree.Root, func(m parse.Node) bool {
				in, isIf := m.(*parse.IfNode)
				if !isIf || in.Pipe == nil {
					return true
				}
				c := in.Pipe.String()
				if strings.Contains(c, "$resolved.Nullable") {
					seen++
					if !strings.Contains(c, "not $resolved.IsEnum") {
						ok = false
					}
				}
				return true
			})
			n++
			r.Check(ok && seen > 0, "skeleton/go-nullable-enum-not-a-pointer", "type_equality_check compares a reference to a named nullable scalar", token.NoPos, "the test leaves enums out",
				"the scalar/enum leaf of type_equality_check takes a reference that resolves to a nullable type for a named pointer (`type MaybeStr *string`) and compares `*a != *b` after a nil test; an enum that accepts null is declared `type Color string`: `*resource.Color == nil` does not compile")
		}
	}
	// (b)
	needed := map[string]string{} // name → where it is imported
	for _, name := range ts.names() {
		walkTmpl(ts.trees[name].Root, func(m parse.Node) bool {
			c, ok := m.(*parse.CommandNode)
			if !ok || len(c.Args) != 2 {
				return true
			}
			id, ok := c.Args[0].(*parse.IdentifierNode)
			if !ok || id.Ident != "importStdPkg" {
				return true
			}
			if s, ok := c.Args[1].(*parse.StringNode); ok {
				needed[s.Text[strings.LastIndex(s.Text, "/")+1:]] = ts.file[name]
			}
			return true
		})
	}
	var mappers []*ast.CallExpr
	for _, f := range p.Syntax {
		ast.Inspect(f, func(m ast.Node) bool {
			c, ok := m.(*ast.CallExpr)
			if !ok || len(c.Args) != 2 {
				return true
			}
			fn := callee(info, c)
			if fn == nil || fn.Name() != "Add" || fn.Pkg() == nil || !strings.HasSuffix(fn.Pkg().Path(), "internal/jennies/common") {
				return true
			}
			if tv, ok := info.Types[c.Args[0]]; ok && tv.Value != nil && tv.Value.Kind() == constant.String {
				needed[constant.StringVal(tv.Value)] = ctx.Pos(c.Pos())
				return true
			}
			if pc, ok := ast.Unparen(c.Args[1]).(*ast.CallExpr); ok {
				if pf := callee(info, pc); pf != nil && pf.Name() == "importPath" && c13ImportMapIsPrinted(info, f, c) {
					mappers = append(mappers, c)
				}
			}
			return true
		})
	}
	reserved := map[string]bool{}
	var aliasFn *types.Func
	if fn := ctx.LookupFunc("internal/jennies/golang", "formatImportAlias"); fn != nil {
		aliasFn = fn
		if fd, _ := ctx.DeclOf(fn); fd != nil {
			ast.Inspect(fd.Body, func(m ast.Node) bool {
				c, ok := m.(*ast.CallExpr)
				if !ok {
					return true
				}
				if g := callee(info, c); g != nil && g.Pkg() == p.Types {
					if gd, _ := ctx.DeclOf(g); gd != nil {
						ast.Inspect(gd.Body, func(q ast.Node) bool {
							if cc, ok := q.(*ast.CaseClause); ok {
								for _, e := range cc.List {
									if tv, ok := info.Types[e]; ok && tv.Value != nil && tv.Value.Kind() == constant.String {
										reserved[constant.StringVal(tv.Value)] = true
									}
								}
							}
							return true
						})
					}
				}
				return true
			})
		}
	}
	var names []string
	for name := range needed {
		names = append(names, name)
	}
	sort.Strings(names)
	for _, name := range names {
		n++
		r.Check(reserved[name], "kinds/go-schema-packages-spare-standard-imports", "golang imports the standard package "+name, token.NoPos, "a schema package of that name is imported under another one (formatImportAlias)",
			fmt.Sprintf("the generated Go code imports the standard package %q under its own name (%s) and calls it by that name; the import map binds one package per name and formatImportAlias does not set a schema package called %q apart: next to `package %s; #Mirror: {…}`, the import of the standard library replaces the one of the schema package and `%s.Mirror` is undefined", name, needed[name], name, name, name))
	}
	r.Count("standard packages imported by the Go output", len(names))
	r.Floor("standard packages imported by the Go output", 6)
	for _, c := range mappers {
		through := false
		if ac, ok := ast.Unparen(c.Args[0]).(*ast.CallExpr); ok {
			if f := callee(info, ac); f != nil && f == aliasFn {
				through = true
			}
		}
		n++
		r.Check(through, "kinds/go-schema-packages-spare-standard-imports", "golang."+c13FuncName(enclosingFuncDecl(p, c.Pos()))+" imports a schema package", c.Pos(), "under the name formatImportAlias gives",
			"a schema package is imported under its own name: when it is called like a standard package the generated code imports (reflect, errors, fmt, …) the two imports take the same name, the last one wins and the references already written point into the wrong package")
	}
	r.Count("imports of schema packages (Go)", len(mappers))
	r.Floor("imports of schema packages (Go)", 3)
	// (c)
	if tree := ts.trees[recEquality.define]; tree != nil && floats {
		full := tmplTextFull(tree.Root)
		n++
		r.Check(strings.Contains(full, "Signbit") || strings.Contains(full, "Float64bits") || strings.Contains(full, "Float32bits"), "skeleton/go-float-equality-follows-encoding", "type_equality_check compares float leaves", token.NoPos, "the sign of zero is compared too",
			"every scalar leaf is compared with `!=`, floats included: decode(`{\"f\":-0.0}`).Equals(decode(`{\"f\":0}`)) is true in both directions and json.Marshal writes {\"f\":-0} and {\"f\":0}")
	}
	r.Count("hunted clauses of the equality rules (5th hunt)", n)
	r.Floor("hunted clauses of the equality rules (5th hunt)", 11)
}

func c13FuncName(fd *ast.FuncDecl) string {
	if fd == nil {
		return "?"
	}
	if fd.Recv != nil && len(fd.Recv.List) == 1 {
		return strings.TrimPrefix(exprString(fd.Recv.List[0].Type), "*") + "." + fd.Name.Name
	}
	return fd.Name.Name
}

// c13ImportMapIsPrinted: the import map `m` of `m.Add(…)` is printed (`m.String()`) or handed to a template
// (`"Imports": m`): the converter keeps a map it never prints to name the types it writes in the code it emits
// as text — the imports of that code are the user's.
func c13ImportMapIsPrinted(info *types.Info, file *ast.File, add *ast.CallExpr) bool {
	sel, ok := ast.Unparen(add.Fun).(*ast.SelectorExpr)
	if !ok {
		return true
	}
	id, ok := ast.Unparen(sel.X).(*ast.Ident)
	if !ok {
		return true
	}
	obj := info.Uses[id]
	if obj == nil {
		return true
	}
	printed := false
	ast.Inspect(file, func(m ast.Node) bool {
		switch x := m.(type) {
		case *ast.CallExpr:
			// m.String()
			if s, ok := ast.Unparen(x.Fun).(*ast.SelectorExpr); ok && s.Sel.Name == "String" {
				if r, ok := ast.Unparen(s.X).(*ast.Ident); ok && info.Uses[r] == obj {
					printed = true
				}
			}
		case *ast.KeyValueExpr:
			// "Imports": m — handed to a template
			if r, ok := ast.Unparen(x.Value).(*ast.Ident); ok && info.Uses[r] == obj {
				printed = true
			}
		}
		return true
	})
	return printed
}

// c08SixthHunt — sixth hunt of C08: a field typed by a named optional of a struct (`#MaybeInner: #Inner | null`, declared
// `type MaybeInner = *Inner`) holds a pointer although the reference itself is not nullable. The struct-reference
// branches of the validation template and of the strict decoder ask resolveNullableAlias: Validate tests the pointer for
// nil before it validates what it points to, the decoder allocates the struct at the end of the alias.
func c08SixthHunt(ctx *Ctx, r *Report, ts *tmplSet) {
	n := 0
	for _, site := range []struct {
		define, cond, needs, rule, what, failure string
	}{
		{"type_validate_check", "resolvesToStruct .Type", "!= nil", "skeleton/validate-named-optional-struct-guarded", "type_validate_check validates a reference to a struct",
			"the struct-reference branch of type_validate_check calls Validate() on the field whatever it holds: for `#MaybeInner: #Inner | null; Root: {mi: #MaybeInner}` (`type MaybeInner = *Inner`) the accepted document {\"mi\": null} makes Root.Validate() panic with a nil pointer dereference"},
		{"strict_unmarshal_field_type", "resolvesToStruct .InputType", "&", "skeleton/strict-named-optional-struct-allocated", "strict_unmarshal_field_type decodes a reference to a struct",
			"the struct-reference branch of the strict decoder allocates `Ref{}` for the object the field names: for a named optional (`type MaybeInner = *Inner`) it writes `resource.Mi = MaybeInner{}` — invalid composite literal type, the package does not compile"},
	} {
		tree := ts.trees[site.define]
		if tree == nil {
			r.Undecided("anchor lost: template %s", site.define)
			continue
		}
		var branch *parse.ListNode
		walkTmpl(tree.Root, func(m parse.Node) bool {
			in, ok := m.(*parse.IfNode)
			if !ok {
				return true
			}
			for _, br := range ifChain(in) {
				if br.cond != nil && br.body != nil && strings.Contains(br.cond.String(), site.cond) && strings.Contains(br.cond.String(), "IsRef") && branch == nil {
					branch = br.body
				}
			}
			return true
		})
		if branch == nil {
			r.Undecided("anchor lost: the struct-reference branch of %s", site.define)
			continue
		}
		asks := false
		walkTmpl(branch, func(m parse.Node) bool {
			switch x := m.(type) {
			case *parse.IfNode:
				if x.Pipe != nil && (strings.Contains(x.Pipe.String(), "resolveNullableAlias") || strings.Contains(x.Pipe.String(), "$throughOptional") || strings.Contains(x.Pipe.String(), "$alias")) && strings.Contains(tmplText(x.List), site.needs) {
					asks = true
				}
			}
			return true
		})
		full := tmplTextFull(branch)
		n++
		r.Check(asks && strings.Contains(full, "resolveNullableAlias"), site.rule, site.what, token.NoPos, "a reference that goes through a named optional is recognised (resolveNullableAlias)", site.failure)
	}
	r.Count("hunted clauses of the decoding rules (6th hunt)", n)
	r.Floor("hunted clauses of the decoding rules (6th hunt)", 2)
}
