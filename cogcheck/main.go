package main

import (
	"flag"
	"fmt"
	"os"
	"runtime/debug"
	"sort"
)

type checkFn func(ctx *Ctx, r *Report)

var registry = map[string]checkFn{}

func register(id string, fn checkFn) { registry[id] = fn }

func main() {
	prop := flag.String("property", "", "property id (C01..C20)")
	tier := flag.String("tier", "quick", "quick|thorough")
	repo := flag.String("repo", "/repo", "path of the grafana/cog working tree")
	verif := flag.String("verif", "/verif", "path of the verification directory (evidence, findings)")
	list := flag.Bool("list", false, "list registered properties")
	flag.Parse()

	if *list {
		ids := make([]string, 0, len(registry))
		for id := range registry {
			ids = append(ids, id)
		}
		sort.Strings(ids)
		for _, id := range ids {
			fmt.Println(id)
		}
		return
	}
	fn, ok := registry[*prop]
	if !ok {
		fmt.Printf("UNDECIDED property=%s reason=no such check\n", *prop)
		os.Exit(2)
	}
	os.Exit(run(*prop, *tier, *repo, *verif, fn))
}

func run(prop, tier, repo, verif string, fn checkFn) (code int) {
	defer func() {
		if rec := recover(); rec != nil {
			fmt.Printf("UNDECIDED property=%s reason=checker panic: %v\n%s\n", prop, rec, debug.Stack())
			code = 2
		}
	}()
	ctx, err := loadRepo(repo, tier)
	if err != nil {
		fmt.Printf("UNDECIDED property=%s reason=%v\n", prop, err)
		return 2
	}
	ctx.Verif = verif
	r := newReport(ctx, prop)
	r.Count("packages", len(ctx.Pkgs))
	fn(ctx, r)
	return r.Finish(verif)
}
