package main

// C18 — copies are faithful and independent. Engine E2 "copycheck".

import (
	"fmt"
	"go/ast"
	"go/token"
	"go/types"
	"sort"
	"strings"

	"golang.org/x/tools/go/packages"
)

func init() { register("C18", checkC18) }

const astPkgPath = modulePath + "/internal/ast"
const toolsPkgPath = modulePath + "/internal/tools"
const omapPkgPath = modulePath + "/internal/orderedmap"

// copyMethod describes one DeepCopy method.
type copyMethod struct {
	pkg  *packages.Package
	fd   *ast.FuncDecl
	obj  *types.Func
	recv *types.Named
}

// findCopyMethods: every method named DeepCopy declared in cog whose result is
// its receiver type (value, slice of it or slice of pointers to it).
func findCopyMethods(ctx *Ctx) []copyMethod {
	var out []copyMethod
	ctx.AllFuncDecls(func(p *packages.Package, fd *ast.FuncDecl, obj *types.Func) {
		if fd.Recv == nil || fd.Body == nil || obj.Name() != "DeepCopy" {
			return
		}
		sig := obj.Type().(*types.Signature)
		nt := namedOf(sig.Recv().Type())
		if nt == nil || sig.Results().Len() != 1 || sig.Params().Len() != 0 {
			return
		}
		out = append(out, copyMethod{p, fd, obj, nt})
	})
	return out
}

func isCopyCall(info *types.Info, e ast.Expr) bool {
	call, ok := ast.Unparen(e).(*ast.CallExpr)
	if !ok {
		return false
	}
	fn := callee(info, call)
	if fn == nil || fn.Name() != "DeepCopy" {
		return false
	}
	sig := fn.Type().(*types.Signature)
	return sig.Recv() != nil && sig.Params().Len() == 0 && sig.Results().Len() == 1
}

type copyJudge struct {
	ctx    *Ctx
	info   *types.Info
	fd     *ast.FuncDecl
	defs   map[types.Object]ast.Expr // local := init
	ranges map[types.Object]ast.Expr // range value var -> ranged expression
	why    string
	pay    int
}

func newCopyJudge(ctx *Ctx, info *types.Info, fd *ast.FuncDecl) *copyJudge {
	j := &copyJudge{ctx: ctx, info: info, fd: fd, defs: map[types.Object]ast.Expr{}, ranges: map[types.Object]ast.Expr{}}
	ast.Inspect(fd.Body, func(n ast.Node) bool {
		switch x := n.(type) {
		case *ast.AssignStmt:
			if x.Tok == token.DEFINE && len(x.Lhs) == len(x.Rhs) {
				for i, l := range x.Lhs {
					if id, ok := l.(*ast.Ident); ok && info.Defs[id] != nil {
						j.defs[info.Defs[id]] = x.Rhs[i]
					}
				}
			}
		case *ast.RangeStmt:
			if id, ok := x.Value.(*ast.Ident); ok && info.Defs[id] != nil {
				j.ranges[info.Defs[id]] = x.X
			}
			if id, ok := x.Key.(*ast.Ident); ok && info.Defs[id] != nil {
				j.ranges[info.Defs[id]] = x.X
			}
		}
		return true
	})
	return j
}

func (j *copyJudge) fail(format string, a ...any) bool {
	if j.why == "" {
		j.why = fmt.Sprintf(format, a...)
	}
	return false
}

// fresh reports whether expression e, producing a value of type T, shares no
// mutable structure with the source (payload `any` values excepted).
func (j *copyJudge) fresh(e ast.Expr, T types.Type) bool {
	e = ast.Unparen(e)
	if T == nil {
		T = j.info.TypeOf(e)
	}
	if T == nil {
		return j.fail("untyped producer %s", exprString(e))
	}
	if !typeContainsRef(T) {
		return true
	}
	if isEmptyInterface(T) {
		// a payload (default, constant, hint, constraint argument): it can hold a list, a map or an IR node, so it goes
		// through the IR's value copier; constants and nil have nothing to share
		j.pay++
		if isNilIdent(j.info, e) {
			return true
		}
		if tv, ok := j.info.Types[e]; ok && tv.Value != nil {
			return true
		}
		if c, ok := e.(*ast.CallExpr); ok {
			if fn := callee(j.info, c); fn != nil && fn.Name() == "deepCopyValue" {
				return true
			}
		}
		return j.fail("payload %s is copied by assignment: a list, a map or an IR node held by it (an array default, the disjunction stored in a hint) stays shared between the copy and the original", exprString(e))
	}
	if isNilIdent(j.info, e) {
		return true
	}
	if ta, ok := e.(*ast.TypeAssertExpr); ok {
		// deepCopyValue(x).([]any)
		if c, ok := ast.Unparen(ta.X).(*ast.CallExpr); ok {
			if fn := callee(j.info, c); fn != nil && fn.Name() == "deepCopyValue" {
				return true
			}
		}
	}
	switch x := e.(type) {
	case *ast.CallExpr:
		if isCopyCall(j.info, x) {
			return true
		}
		if fn := callee(j.info, x); fn != nil && fn.Name() == "deepCopyValue" {
			return true
		}
		if isBuiltinCall(j.info, x, "make") || isBuiltinCall(j.info, x, "new") {
			return true
		}
		if isBuiltinCall(j.info, x, "append") {
			if len(x.Args) == 0 {
				return j.fail("empty append")
			}
			if !j.freshBase(x.Args[0]) {
				return j.fail("append onto %s, which is not fresh storage", exprString(x.Args[0]))
			}
			sl, ok := T.Underlying().(*types.Slice)
			if !ok {
				return j.fail("append result is not a slice")
			}
			if x.Ellipsis.IsValid() {
				if typeContainsRef(sl.Elem()) && !isEmptyInterface(sl.Elem()) {
					return j.fail("append(…, %s...) copies elements of type %s by value; they contain references", exprString(x.Args[len(x.Args)-1]), sl.Elem())
				}
				if isEmptyInterface(sl.Elem()) {
					j.pay++
					return j.fail("append(…, %s...) copies payload elements by assignment: lists, maps and IR nodes held by them stay shared", exprString(x.Args[len(x.Args)-1]))
				}
				return true
			}
			for _, a := range x.Args[1:] {
				if !j.fresh(a, sl.Elem()) {
					return false
				}
			}
			return true
		}
		// conversion
		if tv, ok := j.info.Types[x.Fun]; ok && tv.IsType() && len(x.Args) == 1 {
			return j.fresh(x.Args[0], T)
		}
		fn := callee(j.info, x)
		// tools.Map(src, func(x) O { return fresh })
		if fn != nil && funcIs(fn, toolsPkgPath, "Map") && len(x.Args) == 2 {
			return j.freshFuncResult(x.Args[1], 0)
		}
		// orderedmap.Map.Map(func(k, v) V { return fresh })
		if fn != nil && funcIs(fn, omapPkgPath, "Map.Map") && len(x.Args) == 1 {
			return j.freshFuncResult(x.Args[0], 0)
		}
		if fn != nil && funcIs(fn, toolsPkgPath, "ToPtr") && len(x.Args) == 1 {
			if pt, ok := T.Underlying().(*types.Pointer); ok {
				return j.fresh(x.Args[0], pt.Elem())
			}
		}
		return j.fail("value produced by call %s, which is not a recognised copying producer", exprString(x.Fun))
	case *ast.UnaryExpr:
		if x.Op == token.AND {
			pt, ok := T.Underlying().(*types.Pointer)
			if !ok {
				return j.fail("& in non-pointer position")
			}
			return j.freshAddr(x.X, pt.Elem())
		}
	case *ast.CompositeLit:
		return j.freshLit(x)
	case *ast.Ident:
		obj := objOf(j.info, x)
		if init, ok := j.defs[obj]; ok {
			return j.fresh(init, T)
		}
		if _, ok := j.ranges[obj]; ok {
			return j.fail("%s is an element of the source (%s) used by value; its type %s contains references", x.Name, exprString(j.ranges[obj]), T)
		}
		return j.fail("%s is not a locally produced fresh value", x.Name)
	case *ast.SelectorExpr:
		return j.fail("%s is taken from the source by value; its type %s contains references (pointers/slices/maps are shared)", exprString(x), T)
	case *ast.FuncLit:
		return true
	}
	return j.fail("unrecognised producer %s", exprString(e))
}

func (j *copyJudge) freshAddr(e ast.Expr, elemT types.Type) bool {
	e = ast.Unparen(e)
	switch x := e.(type) {
	case *ast.CompositeLit:
		return j.freshLit(x)
	case *ast.Ident:
		obj := objOf(j.info, x)
		if init, ok := j.defs[obj]; ok {
			return j.fresh(init, elemT)
		}
		if _, ok := j.ranges[obj]; ok {
			// &loopVar of a by-value element: the pointee is a fresh variable
			// but only shallowly copied.
			if !typeContainsRef(elemT) {
				return true
			}
			return j.fail("&%s points to a shallow copy of a source element whose type %s contains references", x.Name, elemT)
		}
	}
	return j.fail("address of %s: not a fresh local", exprString(e))
}

func (j *copyJudge) freshLit(lit *ast.CompositeLit) bool {
	lt := j.info.TypeOf(lit)
	switch u := lt.Underlying().(type) {
	case *types.Struct:
		for i, el := range lit.Elts {
			if kv, ok := el.(*ast.KeyValueExpr); ok {
				id, _ := kv.Key.(*ast.Ident)
				var ft types.Type
				if id != nil {
					if fv, ok := j.info.Uses[id].(*types.Var); ok {
						ft = fv.Type()
					}
				}
				if !j.fresh(kv.Value, ft) {
					return false
				}
			} else if i < u.NumFields() {
				if !j.fresh(el, u.Field(i).Type()) {
					return false
				}
			}
		}
		return true
	case *types.Slice:
		for _, el := range lit.Elts {
			v := el
			if kv, ok := el.(*ast.KeyValueExpr); ok {
				v = kv.Value
			}
			if !j.fresh(v, u.Elem()) {
				return false
			}
		}
		return true
	case *types.Map:
		for _, el := range lit.Elts {
			if kv, ok := el.(*ast.KeyValueExpr); ok {
				if !j.fresh(kv.Value, u.Elem()) {
					return false
				}
			}
		}
		return true
	}
	return j.fail("literal of unsupported type %s", lt)
}

// freshBase: first argument of append is nil, a fresh make/literal, a
// conversion of nil, or a not-yet-shared local/clone field.
func (j *copyJudge) freshBase(e ast.Expr) bool {
	e = ast.Unparen(e)
	if isNilIdent(j.info, e) {
		return true
	}
	switch x := e.(type) {
	case *ast.CallExpr:
		if isBuiltinCall(j.info, x, "make") {
			return true
		}
		if tv, ok := j.info.Types[x.Fun]; ok && tv.IsType() && len(x.Args) == 1 {
			return j.freshBase(x.Args[0])
		}
	case *ast.CompositeLit:
		return true
	case *ast.Ident:
		obj := objOf(j.info, x)
		if init, ok := j.defs[obj]; ok {
			return j.freshBase(init)
		}
		if v, ok := obj.(*types.Var); ok && !v.IsField() {
			// `var res T` zero local (not a parameter / receiver)
			if j.isZeroLocal(v) {
				return true
			}
		}
	case *ast.SelectorExpr:
		// clone.F where clone is a fresh local struct
		if id, ok := ast.Unparen(x.X).(*ast.Ident); ok {
			obj := objOf(j.info, id)
			if init, ok := j.defs[obj]; ok {
				if _, isLit := ast.Unparen(init).(*ast.CompositeLit); isLit {
					return true
				}
			}
			if v, ok := obj.(*types.Var); ok && j.isZeroLocal(v) {
				return true
			}
		}
	}
	return false
}

func (j *copyJudge) isZeroLocal(v *types.Var) bool {
	found := false
	ast.Inspect(j.fd.Body, func(n ast.Node) bool {
		if vs, ok := n.(*ast.ValueSpec); ok && len(vs.Values) == 0 {
			for _, nm := range vs.Names {
				if j.info.Defs[nm] == v {
					found = true
				}
			}
		}
		return true
	})
	return found
}

// freshFuncResult: fn is a func literal all of whose returns are fresh.
func (j *copyJudge) freshFuncResult(fn ast.Expr, idx int) bool {
	fl, ok := ast.Unparen(fn).(*ast.FuncLit)
	if !ok {
		return j.fail("mapper %s is not a function literal", exprString(fn))
	}
	sig, _ := j.info.TypeOf(fl).(*types.Signature)
	if sig == nil || sig.Results().Len() <= idx {
		return j.fail("mapper has no result")
	}
	resT := sig.Results().At(idx).Type()
	ok = true
	n := 0
	ast.Inspect(fl.Body, func(m ast.Node) bool {
		if inner, isLit := m.(*ast.FuncLit); isLit && inner != fl {
			return false
		}
		if rs, isRet := m.(*ast.ReturnStmt); isRet && len(rs.Results) > idx {
			n++
			if !j.fresh(rs.Results[idx], resT) {
				ok = false
			}
		}
		return true
	})
	if n == 0 {
		return j.fail("mapper never returns a value")
	}
	return ok
}

// mentionsField: does expression e read field f of the identifier src (or a
// range variable bound from src.f)?
func (j *copyJudge) mentionsField(e ast.Node, src types.Object, f *types.Var) bool {
	found := false
	var visit func(n ast.Node) bool
	seen := map[types.Object]bool{}
	visit = func(n ast.Node) bool {
		switch x := n.(type) {
		case *ast.SelectorExpr:
			if fv := fieldOf(j.info, x); fv == f {
				if id, ok := ast.Unparen(x.X).(*ast.Ident); ok && objOf(j.info, id) == src {
					found = true
				}
			}
		case *ast.Ident:
			obj := objOf(j.info, x)
			if obj != nil && !seen[obj] {
				seen[obj] = true
				if re, ok := j.ranges[obj]; ok {
					ast.Inspect(re, visit)
				}
				if de, ok := j.defs[obj]; ok {
					ast.Inspect(de, visit)
				}
			}
		}
		return !found
	}
	ast.Inspect(e, visit)
	return found
}

func checkC18(ctx *Ctx, r *Report) {
	r.Explanation = "Decided for every DeepCopy method of cog (enumerated by signature): (1) coverage — every declared field of the receiver struct is produced in the result from the same field of the source, on a path not guarded by anything but a nil/len test of that field; (2) alias freedom — a field whose type transitively contains a pointer, slice or map is produced by a recognised copying producer (DeepCopy call, &fresh local, fresh literal, make + element-wise loop, append onto fresh storage of reference-free elements, tools.Map / orderedmap.Map.Map with a copying mapper); (3) `any`-typed payloads (defaults, constants, hints, constraint arguments) are produced by the IR's value copier deepCopyValue, which has a case for JSON-like lists and objects and for every reference-carrying type cog stores in a hint; no code in cog stores through a type assertion / index of such a payload; (3b) Object.Equal does not tell nil from empty (a copy is equal to its original); (4) compiler.Passes.Process works on the copy only."
	r.NotCovered = "nil-vs-empty distinctions (a nil slice/map may become empty: equal under JSON, different under cmp.Equal — 'equal in every declared field' is read up to nil/empty); ad-hoc copies made without a DeepCopy method (see C07/C17 ownership rules); mutation of payloads through reflection."
	r.Exhaustive = true

	methods := findCopyMethods(ctx)
	r.Count("DeepCopy methods", len(methods))
	r.Floor("DeepCopy methods", 25)
	for _, m := range methods {
		c18Method(ctx, r, m)
	}
	r.Floor("fields checked for coverage", 80)
	c18Helpers(ctx, r)
	c18Payloads(ctx, r)
	c18ValueCopierTotal(ctx, r)
	c18EqualEquatesEmpty(ctx, r)
	checkProcessCopiesFirst(ctx, r, "copycheck/use")
	c18LiteralsShareSlices(ctx, r)
	c18LiteralsShareSlicesSelfTest(ctx, r)
	c18NilnessOfCollections(ctx, r)
	c18NilnessSelfTest(ctx, r)
	c18SpreadFieldsCopied(ctx, r)
	c18ReferredEnumMembersCopied(ctx, r)
	c18FourthHunt(ctx, r)
}

// c18IRCopies runs the copy analysis over the DeepCopy methods of the IR: the properties that rest on "each language /
// each chain works on its own copy of the schemas" (C03, C07) are only as good as these copies.
func c18IRCopies(ctx *Ctx, r *Report) {
	n := 0
	for _, m := range findCopyMethods(ctx) {
		if m.pkg.PkgPath == astPkgPath {
			n++
			c18Method(ctx, r, m)
		}
	}
	r.Count("DeepCopy methods of the IR", n)
	r.Floor("DeepCopy methods of the IR", 20)
}

func c18Method(ctx *Ctx, r *Report, m copyMethod) {
	info := m.pkg.TypesInfo
	name := ctx.FuncName(m.obj)
	j := newCopyJudge(ctx, info, m.fd)
	var src types.Object
	if len(m.fd.Recv.List) == 1 && len(m.fd.Recv.List[0].Names) == 1 {
		src = info.Defs[m.fd.Recv.List[0].Names[0]]
	}
	if src == nil {
		r.Bad("copycheck/coverage", name, m.fd.Pos(), "copy method ignores its receiver")
		return
	}
	parents := parentMap(m.fd)

	switch u := m.recv.Underlying().(type) {
	case *types.Struct:
		// result literal(s) of the receiver type, outside nested func lits
		var lits []*ast.CompositeLit
		ast.Inspect(m.fd.Body, func(n ast.Node) bool {
			if lit, ok := n.(*ast.CompositeLit); ok {
				if nt := namedOf(info.TypeOf(lit)); nt != nil && nt.Origin() == m.recv.Origin() {
					if _, isPtr := info.TypeOf(lit).(*types.Pointer); !isPtr {
						lits = append(lits, lit)
						return false
					}
				}
			}
			return true
		})
		// alternative shape: `clone := *src` / `clone := src` (value receiver): a shallow copy of
		// every field, refined by later assignments to clone.F
		var shallow *ast.AssignStmt
		if len(lits) == 0 {
			ast.Inspect(m.fd.Body, func(n ast.Node) bool {
				as, ok := n.(*ast.AssignStmt)
				if !ok || as.Tok != token.DEFINE || len(as.Lhs) != 1 || len(as.Rhs) != 1 || shallow != nil {
					return true
				}
				rhs := ast.Unparen(as.Rhs[0])
				if st, ok := rhs.(*ast.StarExpr); ok {
					rhs = ast.Unparen(st.X)
				}
				if isIdentOf(info, rhs, src) {
					shallow = as
				}
				return true
			})
		}
		if len(lits) != 1 && shallow == nil {
			r.Bad("copycheck/shape", name, m.fd.Pos(), fmt.Sprintf("expected exactly one result literal of type %s, found %d: copy routine shape not recognised", m.recv.Obj().Name(), len(lits)))
			return
		}
		var lit *ast.CompositeLit
		var clone types.Object
		if shallow != nil {
			lit = &ast.CompositeLit{Lbrace: shallow.Pos(), Rbrace: shallow.End()}
			clone = objOf(info, shallow.Lhs[0].(*ast.Ident))
		} else {
			lit = lits[0]
			if as, ok := parents[lit].(*ast.AssignStmt); ok && len(as.Lhs) == 1 {
				if id, ok := as.Lhs[0].(*ast.Ident); ok {
					clone = objOf(info, id)
				}
			}
		}
		type producer struct {
			expr  ast.Expr
			node  ast.Node
			elemT types.Type // non-nil: expr produces an element/value of this type rather than the field
		}
		prods := map[*types.Var][]producer{}
		fieldByName := map[string]*types.Var{}
		for i := 0; i < u.NumFields(); i++ {
			fieldByName[u.Field(i).Name()] = u.Field(i)
		}
		for i, el := range lit.Elts {
			if kv, ok := el.(*ast.KeyValueExpr); ok {
				if id, ok := kv.Key.(*ast.Ident); ok {
					if f := fieldByName[id.Name]; f != nil {
						prods[f] = append(prods[f], producer{expr: kv.Value, node: kv})
					}
				}
			} else if i < u.NumFields() {
				prods[u.Field(i)] = append(prods[u.Field(i)], producer{expr: el, node: el})
			}
		}
		shallowFields := map[*types.Var]bool{}
		if shallow != nil {
			// every field starts as a by-value copy of the source's field
			for i := 0; i < u.NumFields(); i++ {
				f := u.Field(i)
				sel := &ast.SelectorExpr{X: ast.NewIdent(src.Name()), Sel: ast.NewIdent(f.Name())}
				_ = sel
				shallowFields[f] = true
			}
		}
		if clone != nil {
			ast.Inspect(m.fd.Body, func(n ast.Node) bool {
				as, ok := n.(*ast.AssignStmt)
				if !ok || len(as.Lhs) != len(as.Rhs) {
					return true
				}
				for i, l := range as.Lhs {
					l = ast.Unparen(l)
					// clone.F = e
					if sel, ok := l.(*ast.SelectorExpr); ok {
						if id, ok := ast.Unparen(sel.X).(*ast.Ident); ok && objOf(info, id) == clone {
							if f := fieldOf(info, sel); f != nil {
								prods[f] = append(prods[f], producer{expr: as.Rhs[i], node: as})
							}
						}
					}
					// clone.F[k] = v
					if ix, ok := l.(*ast.IndexExpr); ok {
						if sel, ok := ast.Unparen(ix.X).(*ast.SelectorExpr); ok {
							if id, ok := ast.Unparen(sel.X).(*ast.Ident); ok && objOf(info, id) == clone {
								if f := fieldOf(info, sel); f != nil {
									var et types.Type
									switch ct := f.Type().Underlying().(type) {
									case *types.Map:
										et = ct.Elem()
									case *types.Slice:
										et = ct.Elem()
									}
									prods[f] = append(prods[f], producer{expr: as.Rhs[i], node: as, elemT: et})
								}
							}
						}
					}
				}
				return true
			})
		}
		for i := 0; i < u.NumFields(); i++ {
			f := u.Field(i)
			r.Count("fields checked for coverage", 1)
			cons := m.recv.Obj().Name() + "." + f.Name()
			ps := prods[f]
			if shallowFields[f] {
				// covered by the shallow copy; alias-free only if a later assignment replaces it with a fresh value
				r.OK("copycheck/coverage", cons, shallow.Pos(), "covered by the initial by-value copy of the whole struct")
				if !typeContainsRef(f.Type()) {
					continue
				}
				r.Count("reference-bearing fields checked for alias freedom", 1)
				replaced := false
				for _, p := range ps {
					// an unconditional-or-nil-guarded re-assignment with a fresh producer
					j.why = ""
					T := f.Type()
					if p.elemT != nil {
						// an element-wise store writes into the container the shallow copy shares with the source: it
						// replaces nothing (and changes the original)
						continue
					}
					if j.fresh(p.expr, T) {
						replaced = true
					}
				}
				r.Check(replaced, "copycheck/alias", cons, shallow.Pos(), "the shallow copy of this field is replaced by a fresh value",
					fmt.Sprintf("%s copies the whole struct by value (%s) and never replaces field %s by a fresh copy: its pointers/slices are shared between the copy and the original", name, exprString(shallow.Rhs[0]), f.Name()))
				continue
			}
			if len(ps) == 0 {
				r.Bad("copycheck/coverage", cons, m.fd.Pos(), fmt.Sprintf("%s never assigns field %s of the copy: the value is lost", name, f.Name()))
				continue
			}
			reads := false
			for _, p := range ps {
				if j.mentionsField(p.expr, src, f) {
					reads = true
				}
			}
			if !reads {
				r.Bad("copycheck/coverage", cons, ps[0].node.Pos(), fmt.Sprintf("%s produces field %s without reading %s.%s: the copy does not carry the source's value", name, f.Name(), src.Name(), f.Name()))
				continue
			}
			// producers that read the source must not be conditional on anything
			// but a nil/len test of that same field
			condOK := true
			for _, p := range ps {
				if !j.mentionsField(p.expr, src, f) {
					continue
				}
				for _, c := range enclosingConds(parents, p.node) {
					if c.inElse || !guardOnlyTestsPresence(info, c.stmt.Cond, src, f) {
						condOK = false
					}
				}
			}
			if !condOK {
				r.Bad("copycheck/coverage", cons, ps[0].node.Pos(), fmt.Sprintf("%s copies field %s only under a condition that is more than a nil/emptiness test of that field: some values of the field are dropped from the copy", name, f.Name()))
				continue
			}
			r.OK("copycheck/coverage", cons, ps[0].node.Pos(), "assigned from the same field of the source")
			// alias freedom
			if !typeContainsRef(f.Type()) {
				continue
			}
			if isEmptyInterface(f.Type()) {
				r.Count("payload fields checked for the value copier", 1)
			}
			r.Count("reference-bearing fields checked for alias freedom", 1)
			allFresh := true
			for _, p := range ps {
				j.why = ""
				T := f.Type()
				if p.elemT != nil {
					T = p.elemT
				}
				if !j.fresh(p.expr, T) {
					allFresh = false
					r.Bad("copycheck/alias", cons, p.node.Pos(), fmt.Sprintf("%s: %s", name, j.why))
					break
				}
			}
			if allFresh {
				r.OK("copycheck/alias", cons, ps[0].node.Pos(), "produced by copying producers only")
			}
		}
	case *types.Slice:
		// res := make(...); for _, x := range recv { res = append(res, fresh(x)) }; return res
		okShape := false
		var detail string
		ast.Inspect(m.fd.Body, func(n ast.Node) bool {
			rs, ok := n.(*ast.RangeStmt)
			if !ok {
				return true
			}
			if id, ok := ast.Unparen(rs.X).(*ast.Ident); !ok || objOf(info, id) != src {
				return true
			}
			ast.Inspect(rs.Body, func(k ast.Node) bool {
				as, ok := k.(*ast.AssignStmt)
				if !ok || len(as.Rhs) != 1 {
					return true
				}
				c, ok := as.Rhs[0].(*ast.CallExpr)
				if !ok || !isBuiltinCall(info, c, "append") || len(c.Args) != 2 || c.Ellipsis.IsValid() {
					return true
				}
				if len(enclosingConds(parents, as)) != 0 {
					detail = "append of the copied element is conditional"
					return true
				}
				resT := info.TypeOf(as.Lhs[0])
				sl, _ := resT.Underlying().(*types.Slice)
				if sl == nil {
					return true
				}
				j.why = ""
				if j.fresh(c.Args[1], sl.Elem()) && j.freshBase(c.Args[0]) {
					okShape = true
				} else {
					detail = j.why
				}
				return true
			})
			return true
		})
		r.Count("slice copy methods", 1)
		r.Check(okShape, "copycheck/alias", m.recv.Obj().Name()+"[]", m.fd.Pos(), "every element of the receiver is appended as a fresh copy", name+": slice copy does not append a fresh copy of every element ("+detail+")")
	default:
		r.Note("DeepCopy on %s (underlying %T) not analysed", m.recv.Obj().Name(), u)
	}
}

// payloadFields: fields declared in internal/ast whose type is `any` or []any.
func payloadFields(ctx *Ctx) map[*types.Var]bool {
	out := map[*types.Var]bool{}
	p := ctx.Pkg("internal/ast")
	if p == nil {
		return out
	}
	for _, name := range p.Types.Scope().Names() {
		tn, ok := p.Types.Scope().Lookup(name).(*types.TypeName)
		if !ok {
			continue
		}
		st, ok := tn.Type().Underlying().(*types.Struct)
		if !ok {
			continue
		}
		for i := 0; i < st.NumFields(); i++ {
			f := st.Field(i)
			if isEmptyInterface(f.Type()) {
				out[f] = true
			}
			if sl, ok := f.Type().Underlying().(*types.Slice); ok && isEmptyInterface(sl.Elem()) {
				out[f] = true
			}
			if mp, ok := f.Type().Underlying().(*types.Map); ok && isEmptyInterface(mp.Elem()) {
				out[f] = true // hints: map itself is copied, values are payloads
			}
		}
	}
	return out
}

// c18Payloads: no store through an assertion/index of a shared payload.
func c18Payloads(ctx *Ctx, r *Report) {
	pay := payloadFields(ctx)
	r.Count("payload fields (any, []any, map[string]any values)", len(pay))
	names := []string{}
	for f := range pay {
		names = append(names, f.Name())
	}
	sort.Strings(names)
	r.Note("payload fields: %v", names)
	sites := 0
	exemptSites := 0
	copiedTypes := deepCopiedValueTypes(ctx)
	copiedByValueCopier := func(t types.Type) bool {
		for _, c := range copiedTypes {
			if types.Identical(c, t) {
				return true
			}
		}
		return false
	}
	for _, p := range ctx.Pkgs {
		info := p.TypesInfo
		for _, file := range p.Syntax {
			for _, d := range file.Decls {
				fd, ok := d.(*ast.FuncDecl)
				if !ok || fd.Body == nil {
					continue
				}
				fobj, _ := info.Defs[fd.Name].(*types.Func)
				// locals aliasing an asserted payload: m := x.Default.(map[string]any)
				alias := map[types.Object]ast.Expr{}
				ast.Inspect(fd.Body, func(n ast.Node) bool {
					as, ok := n.(*ast.AssignStmt)
					if !ok {
						return true
					}
					if len(as.Rhs) == 1 {
						if payloadAccess(info, as.Rhs[0], pay, alias) != nil {
							for _, l := range as.Lhs {
								if id, ok := l.(*ast.Ident); ok && objOf(info, id) != nil {
									if typeContainsRef(info.TypeOf(id)) {
										alias[objOf(info, id)] = as.Rhs[0]
									}
								}
							}
						}
					}
					return true
				})
				ast.Inspect(fd.Body, func(n ast.Node) bool {
					as, ok := n.(*ast.AssignStmt)
					if !ok {
						return true
					}
					for _, l := range as.Lhs {
						l = ast.Unparen(l)
						var base ast.Expr
						switch x := l.(type) {
						case *ast.IndexExpr:
							base = x.X
						case *ast.StarExpr:
							base = x.X
						case *ast.SelectorExpr:
							// store to a field of a pointer obtained from a payload
							if _, isPtr := info.TypeOf(x.X).(*types.Pointer); isPtr {
								base = x.X
							}
						}
						if base == nil {
							continue
						}
						sites++
						if f := payloadAccess(info, base, pay, alias); f != nil {
							// a map[string]any hints map indexed directly (x.Hints[k] = v) is a store
							// into the (copied) map, not into a payload: only flag when the path
							// goes *through* a payload value (assertion or deeper index).
							if isDirectMapField(info, base, pay) {
								continue
							}
							// a value of a type deepCopyValue copies (see copycheck/value-copier-total) is not
							// shared between a copy and its original: storing into it is storing into this IR only
							if at := payloadAssertedType(info, base, alias); at != nil && copiedByValueCopier(at) {
								exemptSites++
								continue
							}
							r.Bad("copycheck/payload-mutation", ctx.FuncName(fobj)+" "+exprString(l), as.Pos(), fmt.Sprintf("in-place store through the `any` payload %s, into a value of a type deepCopyValue does not copy: the original of a copy is modified too", f.Name()))
						}
					}
					return true
				})
			}
		}
	}
	// interprocedural: a payload-derived reference handed to a callee that writes through that parameter
	eng := newEffectsEngine(ctx)
	calls := 0
	for _, p := range ctx.Pkgs {
		info := p.TypesInfo
		for _, file := range p.Syntax {
			for _, d := range file.Decls {
				fd, ok := d.(*ast.FuncDecl)
				if !ok || fd.Body == nil {
					continue
				}
				fobj, _ := info.Defs[fd.Name].(*types.Func)
				alias := map[types.Object]ast.Expr{}
				ast.Inspect(fd.Body, func(n ast.Node) bool {
					if as, ok := n.(*ast.AssignStmt); ok && len(as.Rhs) == 1 && payloadAccess(info, as.Rhs[0], pay, alias) != nil {
						for _, l := range as.Lhs {
							if id, ok := l.(*ast.Ident); ok && objOf(info, id) != nil && typeContainsRef(info.TypeOf(id)) {
								alias[objOf(info, id)] = as.Rhs[0]
							}
						}
					}
					return true
				})
				ast.Inspect(fd.Body, func(n ast.Node) bool {
					call, ok := n.(*ast.CallExpr)
					if !ok {
						return true
					}
					fn := callee(info, call)
					if fn == nil {
						return true
					}
					if cfd, _ := ctx.DeclOf(fn); cfd == nil {
						return true
					}
					sig := fn.Type().(*types.Signature)
					for _, f := range eng.EffectsOf(fn) {
						if f.Root < 0 && f.Root != rootRecv {
							continue
						}
						actual := actualFor(call, sig, f.Root)
						if actual == nil {
							continue
						}
						calls++
						pf := payloadAccess(info, actual, pay, alias)
						if pf == nil || isDirectMapField(info, actual, pay) {
							continue
						}
						// the argument must itself be a reference (map/slice/pointer) for the callee's store to land in the payload
						if !typeContainsRef(info.TypeOf(actual)) {
							continue
						}
						r.Bad("copycheck/payload-mutation", ctx.FuncName(fobj)+" passes "+exprString(actual)+" to "+ctx.FuncName(fn), call.Pos(), fmt.Sprintf("%s is reached through the shared `any` payload %s and %s writes through that argument (%s): DeepCopy shares payloads, so the schemas the chain was handed are modified", exprString(actual), pf.Name(), ctx.FuncName(fn), f.String()))
					}
					return true
				})
			}
		}
	}
	r.Count("callee write facts matched against payload arguments", calls)
	r.Count("indexed/deref store sites scanned", sites)
	r.Count("stores into payload values of a type deepCopyValue copies", exemptSites)
	r.Floor("indexed/deref store sites scanned", 50)
	r.OK("copycheck/payload-mutation", "all of cog", token.NoPos, fmt.Sprintf("%d indexed/dereferencing stores scanned; none goes through a payload value", sites))
}

// isDirectMapField: base is exactly `<x>.F` with F a map-typed payload holder (Hints).
func isDirectMapField(info *types.Info, base ast.Expr, pay map[*types.Var]bool) bool {
	f := fieldOf(info, base)
	if f == nil || !pay[f] {
		return false
	}
	_, isMap := f.Type().Underlying().(*types.Map)
	return isMap
}

// payloadAccess: does the access path e go through a payload field (followed by
// an assertion or index)? Returns that field.
func payloadAccess(info *types.Info, e ast.Expr, pay map[*types.Var]bool, alias map[types.Object]ast.Expr) *types.Var {
	for {
		e = ast.Unparen(e)
		switch x := e.(type) {
		case *ast.Ident:
			if a, ok := alias[objOf(info, x)]; ok {
				e = a
				delete(alias, objOf(info, x)) // avoid cycles
				f := payloadAccess(info, e, pay, alias)
				alias[objOf(info, x)] = a
				return f
			}
			return nil
		case *ast.SelectorExpr:
			if f := fieldOf(info, x); f != nil && pay[f] {
				return f
			}
			e = x.X
		case *ast.IndexExpr:
			e = x.X
		case *ast.SliceExpr:
			e = x.X
		case *ast.StarExpr:
			e = x.X
		case *ast.TypeAssertExpr:
			e = x.X
		case *ast.CallExpr:
			return nil
		default:
			return nil
		}
	}
}

// payloadAssertedType: the type a payload value is asserted to on the way from the stored location down to the payload
// field (`x.Hints[k].(DisjunctionType).Branches[i]` → DisjunctionType), following local aliases; nil without assertion.
func payloadAssertedType(info *types.Info, e ast.Expr, alias map[types.Object]ast.Expr) types.Type {
	var asserted types.Type
	seen := map[types.Object]bool{}
	for {
		e = ast.Unparen(e)
		switch x := e.(type) {
		case *ast.Ident:
			o := objOf(info, x)
			a, ok := alias[o]
			if !ok || seen[o] {
				return asserted
			}
			seen[o] = true
			e = a
		case *ast.SelectorExpr:
			e = x.X
		case *ast.IndexExpr:
			e = x.X
		case *ast.SliceExpr:
			e = x.X
		case *ast.StarExpr:
			e = x.X
		case *ast.TypeAssertExpr:
			if x.Type != nil {
				asserted = info.TypeOf(x.Type)
			}
			e = x.X
		default:
			return asserted
		}
	}
}

// deepCopiedValueTypes: the dynamic types ast.deepCopyValue has a case for, when that case returns something else than
// the value it was given.
func deepCopiedValueTypes(ctx *Ctx) []types.Type {
	fn := ctx.LookupFunc("internal/ast", "deepCopyValue")
	fd, p := ctx.DeclOf(fn)
	if fd == nil || fd.Body == nil {
		return nil
	}
	info := p.TypesInfo
	var out []types.Type
	ast.Inspect(fd.Body, func(n ast.Node) bool {
		ts, ok := n.(*ast.TypeSwitchStmt)
		if !ok {
			return true
		}
		var bound string
		if as, ok := ts.Assign.(*ast.AssignStmt); ok && len(as.Lhs) == 1 {
			bound = exprString(as.Lhs[0])
		}
		for _, st := range ts.Body.List {
			cc, ok := st.(*ast.CaseClause)
			if !ok || len(cc.List) == 0 {
				continue
			}
			copies := false
			for _, b := range cc.Body {
				ast.Inspect(b, func(k ast.Node) bool {
					if rs, ok := k.(*ast.ReturnStmt); ok && len(rs.Results) == 1 && exprString(rs.Results[0]) != bound {
						copies = true
					}
					return true
				})
			}
			if !copies {
				continue
			}
			for _, e := range cc.List {
				if t := info.TypeOf(e); t != nil {
					out = append(out, t)
				}
			}
		}
		return false
	})
	return out
}

// checkProcessCopiesFirst: compiler.Passes.Process must DeepCopy its parameter
// and never hand the parameter itself to a pass.
func checkProcessCopiesFirst(ctx *Ctx, r *Report, rule string) {
	fn := ctx.LookupMethod("internal/ast/compiler", "Passes", "Process")
	fd, p := ctx.DeclOf(fn)
	if fd == nil {
		r.Undecided("anchor lost: compiler.Passes.Process")
		return
	}
	info := p.TypesInfo
	sig := fn.Type().(*types.Signature)
	if sig.Params().Len() != 1 {
		r.Undecided("anchor changed: compiler.Passes.Process no longer takes one parameter")
		return
	}
	param := sig.Params().At(0)
	// every use of the parameter must be as receiver of a DeepCopy call (or len())
	copies, otherUses := 0, 0
	var firstBad token.Pos
	parents := parentMap(fd)
	ast.Inspect(fd.Body, func(n ast.Node) bool {
		id, ok := n.(*ast.Ident)
		if !ok || objOf(info, id) != param {
			return true
		}
		// parent chain: id <- SelectorExpr(.DeepCopy) <- CallExpr
		if sel, ok := parents[id].(*ast.SelectorExpr); ok && sel.X == id {
			if call, ok := parents[sel].(*ast.CallExpr); ok && call.Fun == sel && isCopyCall(info, call) {
				copies++
				return true
			}
		}
		if call, ok := parents[id].(*ast.CallExpr); ok && isBuiltinCall(info, call, "len") {
			return true
		}
		otherUses++
		if firstBad == token.NoPos {
			firstBad = id.Pos()
		}
		return true
	})
	r.Check(copies >= 1 && otherUses == 0, rule, "internal/ast/compiler.Passes.Process", fd.Pos(),
		"the schemas parameter is only used as the receiver of DeepCopy(): every pass runs on the copy",
		fmt.Sprintf("the schemas handed to Passes.Process are used directly (%d non-copy uses, %d DeepCopy calls; first at %s): passes mutate their input in place, so the caller's schemas change", otherUses, copies, ctx.Pos(firstBad)))
	// the DeepCopy result must be what is passed to each pass
	// (the local receiving the copy is the only thing handed to Pass.Process)
	var copyLocal types.Object
	ast.Inspect(fd.Body, func(n ast.Node) bool {
		as, ok := n.(*ast.AssignStmt)
		if ok && len(as.Lhs) == 1 && len(as.Rhs) == 1 && isCopyCall(info, as.Rhs[0]) {
			if id, ok := as.Lhs[0].(*ast.Ident); ok {
				copyLocal = objOf(info, id)
			}
		}
		return true
	})
	passCalls, okCalls := 0, 0
	ast.Inspect(fd.Body, func(n ast.Node) bool {
		call, ok := n.(*ast.CallExpr)
		if !ok {
			return true
		}
		c := callee(info, call)
		if c == nil || c.Name() != "Process" || c == fn {
			return true
		}
		passCalls++
		if len(call.Args) == 1 && isIdentOf(info, call.Args[0], copyLocal) {
			okCalls++
		}
		return true
	})
	r.Check(passCalls >= 1 && passCalls == okCalls, rule, "internal/ast/compiler.Passes.Process pass loop", fd.Pos(),
		"each pass receives the local holding the copy", "a pass is invoked on something other than the local holding the deep copy")
}

// guardOnlyTestsPresence: cond is exactly `src.F != nil`, or for slices/maps
// also `len(src.F) != 0` / `len(src.F) > 0`. Anything stronger drops values.
func guardOnlyTestsPresence(info *types.Info, cond ast.Expr, src types.Object, f *types.Var) bool {
	be, ok := ast.Unparen(cond).(*ast.BinaryExpr)
	if !ok {
		return false
	}
	isSrcField := func(e ast.Expr) bool {
		sel, ok := ast.Unparen(e).(*ast.SelectorExpr)
		if !ok || fieldOf(info, sel) != f {
			return false
		}
		id, ok := ast.Unparen(sel.X).(*ast.Ident)
		return ok && objOf(info, id) == src
	}
	if be.Op == token.NEQ && isSrcField(be.X) && isNilIdent(info, be.Y) {
		return true
	}
	switch f.Type().Underlying().(type) {
	case *types.Slice, *types.Map:
		if c, ok := ast.Unparen(be.X).(*ast.CallExpr); ok && isBuiltinCall(info, c, "len") && len(c.Args) == 1 && isSrcField(c.Args[0]) {
			if tv := info.Types[be.Y]; tv.Value != nil && tv.Value.String() == "0" && (be.Op == token.NEQ || be.Op == token.GTR) {
				return true
			}
		}
	}
	return false
}

// c18Helpers: the generic helpers that the alias rule trusts as copying
// producers must themselves return fresh containers filled only with mapper
// results.
func c18Helpers(ctx *Ctx, r *Report) {
	helpers := []*types.Func{ctx.LookupFunc("internal/tools", "Map"), ctx.LookupMethod("internal/orderedmap", "Map", "Map")}
	var newFn *types.Func = ctx.LookupFunc("internal/orderedmap", "New")
	var setFn *types.Func = ctx.LookupMethod("internal/orderedmap", "Map", "Set")
	for _, h := range helpers {
		if h == nil {
			r.Undecided("anchor lost: copy helper tools.Map / orderedmap.Map.Map")
			continue
		}
		fd, p := ctx.DeclOf(h)
		if fd == nil {
			r.Undecided("anchor lost: body of %s", h.FullName())
			continue
		}
		info := p.TypesInfo
		name := ctx.FuncName(h)
		sig := h.Type().(*types.Signature)
		var mapper types.Object
		for i := 0; i < sig.Params().Len(); i++ {
			if _, ok := sig.Params().At(i).Type().Underlying().(*types.Signature); ok {
				mapper = sig.Params().At(i)
			}
		}
		// returned local
		var res types.Object
		ast.Inspect(fd.Body, func(n ast.Node) bool {
			if rs, ok := n.(*ast.ReturnStmt); ok && len(rs.Results) == 1 {
				if id, ok := ast.Unparen(rs.Results[0]).(*ast.Ident); ok {
					res = objOf(info, id)
				}
			}
			return true
		})
		ok, why := res != nil && mapper != nil, "helper does not return a local / has no mapper parameter"
		if ok {
			fresh, filled := false, false
			ast.Inspect(fd.Body, func(n ast.Node) bool {
				switch x := n.(type) {
				case *ast.AssignStmt:
					for i, l := range x.Lhs {
						if len(x.Rhs) != len(x.Lhs) {
							continue
						}
						rhs := ast.Unparen(x.Rhs[i])
						if isIdentOf(info, l, res) {
							c, isCall := rhs.(*ast.CallExpr)
							switch {
							case isCall && (isBuiltinCall(info, c, "make") || callee(info, c) == newFn):
								fresh = true
							case isCall && isBuiltinCall(info, c, "append") && isIdentOf(info, c.Args[0], res) && len(c.Args) == 2 && !c.Ellipsis.IsValid() && isCallOf(info, c.Args[1], mapper):
								filled = true
							default:
								ok, why = false, "result is assigned from "+exprString(rhs)+", which is neither fresh storage nor an append of the mapper's result"
							}
							continue
						}
						// res.field = … / res[i] = …
						if ap := accessPathOf(info, l); ap.ok && ap.root == res && len(ap.steps) > 0 {
							if ix, isIx := ast.Unparen(l).(*ast.IndexExpr); isIx && isIdentOf(info, ix.X, res) && isCallOf(info, rhs, mapper) {
								filled = true
								continue
							}
							ok, why = false, "the helper writes "+exprString(l)+" directly from "+exprString(rhs)+": storage of the source is shared with the result"
						}
					}
				case *ast.CallExpr:
					if setFn != nil && callee(info, x) == setFn {
						if sel, isSel := x.Fun.(*ast.SelectorExpr); isSel && isIdentOf(info, sel.X, res) && len(x.Args) == 2 && isCallOf(info, x.Args[1], mapper) {
							filled = true
						}
					}
				}
				return true
			})
			if ok && !(fresh && filled) {
				ok, why = false, "result is not (fresh container + elements produced by the mapper)"
			}
		}
		r.Check(ok, "copycheck/helper", name, fd.Pos(), "returns a fresh container whose elements are exactly the mapper's results", name+": "+why)
	}
}

func isCallOf(info *types.Info, e ast.Expr, fn types.Object) bool {
	c, ok := ast.Unparen(e).(*ast.CallExpr)
	if !ok {
		return false
	}
	id, ok := ast.Unparen(c.Fun).(*ast.Ident)
	return ok && objOf(info, id) == fn
}

// c18ValueCopierTotal: the IR's `any` fields are copied by deepCopyValue, a type switch. It is only as good as its
// cases: (a) JSON-like values — []any and map[string]any — have a case each; (b) every static type that cog itself
// stores into a hint (`x.Hints[k] = v`) and that can share storage (contains a pointer, slice or map) has a case.
func c18ValueCopierTotal(ctx *Ctx, r *Report) {
	fn := ctx.LookupFunc("internal/ast", "deepCopyValue")
	fd, p := ctx.DeclOf(fn)
	if fd == nil || fd.Body == nil {
		r.Bad("copycheck/value-copier-total", "internal/ast.deepCopyValue", token.NoPos, "the IR has no copier for the values held by its `any` fields: defaults, constants and hints are copied by assignment and share their lists, maps and IR nodes with the original")
		return
	}
	info := p.TypesInfo
	var cases []types.Type
	ast.Inspect(fd.Body, func(n ast.Node) bool {
		cc, ok := n.(*ast.CaseClause)
		if !ok {
			return true
		}
		for _, e := range cc.List {
			if t := info.TypeOf(e); t != nil {
				cases = append(cases, t)
			}
		}
		return true
	})
	has := func(t types.Type) bool {
		for _, c := range cases {
			if types.Identical(c, t) {
				return true
			}
		}
		return false
	}
	anyT := types.NewInterfaceType(nil, nil)
	for _, want := range []struct {
		t    types.Type
		name string
		// (map[any]any: what yaml.v3 gives for a mapping whose keys are not all strings — hints and defaults set by the
		// compiler-passes configuration are decoded by it)
	}{{types.NewSlice(anyT), "[]any"}, {types.NewMap(types.Typ[types.String], anyT), "map[string]any"}, {types.NewMap(anyT, anyT), "map[any]any"}} {
		r.Check(has(want.t), "copycheck/value-copier-total", "deepCopyValue case "+want.name, fd.Pos(), "lists / objects decoded from JSON, YAML or CUE are copied element by element",
			"deepCopyValue has no case for "+want.name+": an array or object default (`[\"a\",\"b\"]`) stays shared between a copy and its original")
	}
	// what cog stores in hints
	stored := map[string]types.Type{}
	var at = map[string]token.Pos{}
	for _, pk := range ctx.Pkgs {
		pinfo := pk.TypesInfo
		for _, f := range pk.Syntax {
			ast.Inspect(f, func(n ast.Node) bool {
				as, ok := n.(*ast.AssignStmt)
				if !ok || len(as.Lhs) != 1 || len(as.Rhs) != 1 {
					return true
				}
				ix, ok := ast.Unparen(as.Lhs[0]).(*ast.IndexExpr)
				if !ok {
					return true
				}
				if ff := fieldOf(pinfo, ix.X); ff == nil || ff.Name() != "Hints" {
					return true
				}
				t := pinfo.TypeOf(as.Rhs[0])
				if t == nil || isEmptyInterface(t) || !typeContainsRef(t) {
					return true
				}
				key := types.TypeString(t, func(p *types.Package) string { return p.Name() })
				if _, seen := stored[key]; !seen {
					stored[key] = t
					at[key] = as.Pos()
				}
				return true
			})
		}
	}
	var keys []string
	for k := range stored {
		keys = append(keys, k)
	}
	sort.Strings(keys)
	for _, k := range keys {
		r.Check(has(stored[k]), "copycheck/value-copier-total", "deepCopyValue case "+k, at[k], "values of this type stored in hints are deep-copied",
			"cog stores a "+k+" in Type.Hints and deepCopyValue has no case for it: the copy of a type keeps the very node (branches, mapping) of the original in its hint — a pass run on one rewrites the other")
	}
	r.Count("reference-carrying types stored in hints", len(keys))
	r.Floor("reference-carrying types stored in hints", 1)
}

// c18EqualEquatesEmpty: "a copy is equal to its original" is decided by Object.Equal, and the DeepCopy methods do not
// preserve the difference between nil and empty (append onto nil, make of length 0). Every deep comparison in
// Object.Equal of a field that can be nil or empty is made with cmpopts.EquateEmpty().
func c18EqualEquatesEmpty(ctx *Ctx, r *Report) {
	fn := ctx.LookupMethod("internal/ast", "Object", "Equal")
	fd, p := ctx.DeclOf(fn)
	if fd == nil || fd.Body == nil {
		r.Undecided("anchor lost: ast.Object.Equal")
		return
	}
	info := p.TypesInfo
	n := 0
	ast.Inspect(fd.Body, func(m ast.Node) bool {
		c, ok := m.(*ast.CallExpr)
		if !ok || len(c.Args) < 2 {
			return true
		}
		f := callee(info, c)
		if f == nil || f.Pkg() == nil || f.Pkg().Path() != "github.com/google/go-cmp/cmp" || f.Name() != "Equal" {
			return true
		}
		t := info.TypeOf(c.Args[0])
		if t == nil || !typeContainsRef(t) {
			return true
		}
		// RefType holds two strings behind no pointer: nothing to equate; slices, maps and types do
		if n2 := namedOf(t); n2 != nil && n2.Obj().Name() == "RefType" {
			return true
		}
		n++
		equates := false
		for _, a := range c.Args[2:] {
			if strings.Contains(exprString(a), "EquateEmpty") {
				equates = true
			}
		}
		r.Check(equates, "copycheck/equal-equates-empty", "ast.Object.Equal compares "+exprString(c.Args[0]), c.Pos(), "with cmpopts.EquateEmpty()",
			"Object.Equal compares "+exprString(c.Args[0])+" with cmp.Equal, which tells a nil slice / map from an empty one, and DeepCopy does not preserve that difference: an object loaded from a schema is not equal to its own copy, and a schema cannot be merged with a copy of itself (\"conflicting definition\")")
		return true
	})
	r.Count("deep comparisons in Object.Equal", n)
	r.Floor("deep comparisons in Object.Equal", 2)
}

// c18LiteralsShareSlices: a builder or option assembled from another one (compose, unfold_boolean, …) is a copy of it
// as far as the rules that run afterwards are concerned: a slice or map field taken as is from the source
// (`Properties: sourceBuilder.Properties`) is the source's own array, and a rule applied to the copy (properties,
// add_comments, …) appends into it. Every slice / map field of a ast.Builder or ast.Option literal whose value comes
// from another builder or option goes through a copy (a call).
func c18LiteralsShareSlices(ctx *Ctx, r *Report) {
	optT := ctx.LookupType("internal/ast", "Option")
	bldT := ctx.LookupType("internal/ast", "Builder")
	if optT == nil || bldT == nil {
		// (the built-in examples only import the package)
		for _, p := range ctx.Pkgs {
			for _, imp := range p.Types.Imports() {
				if imp.Path() == astPkgPath {
					if o, ok := imp.Scope().Lookup("Option").(*types.TypeName); ok {
						optT, _ = o.Type().(*types.Named)
					}
					if o, ok := imp.Scope().Lookup("Builder").(*types.TypeName); ok {
						bldT, _ = o.Type().(*types.Named)
					}
				}
			}
		}
	}
	if optT == nil || bldT == nil {
		r.Undecided("anchor lost: ast.Option / ast.Builder")
		return
	}
	n := 0
	for _, rel := range veneerPkgs {
		p := ctx.Pkg(rel)
		if p == nil {
			continue
		}
		info := p.TypesInfo
		for _, file := range p.Syntax {
			var fname string
			seen := map[string]int{}
			ast.Inspect(file, func(m ast.Node) bool {
				if d, ok := m.(*ast.FuncDecl); ok {
					fname = d.Name.Name
				}
				cl, ok := m.(*ast.CompositeLit)
				if !ok {
					return true
				}
				nt := namedOf(info.TypeOf(cl))
				if nt == nil || (nt != optT && nt != bldT) {
					return true
				}
				for _, el := range cl.Elts {
					kv, ok := el.(*ast.KeyValueExpr)
					if !ok {
						continue
					}
					sel, ok := ast.Unparen(kv.Value).(*ast.SelectorExpr)
					if !ok {
						continue
					}
					switch info.TypeOf(sel).Underlying().(type) {
					case *types.Slice, *types.Map:
					default:
						continue
					}
					src := namedOf(info.TypeOf(sel.X))
					if src == nil || (src != optT && src != bldT) {
						continue
					}
					n++
					key := fmt.Sprintf("%s.%s literal takes %s", p.Types.Name(), fname, exprString(sel))
					seen[key]++
					if seen[key] > 1 {
						key = fmt.Sprintf("%s #%d", key, seen[key])
					}
					r.Bad("copycheck/literal-shares-slices", key, kv.Pos(),
						fmt.Sprintf("%s.%s builds a %s whose %s is %s, the very array of the %s it is made from: a rule applied later to either of them (properties, add_comments, …) appends into the array both hold — the property added to the composed builder replaces the one added to the source builder", p.Types.Name(), fname, nt.Obj().Name(), exprString(kv.Key), exprString(sel), src.Obj().Name()))
				}
				return true
			})
		}
	}
	r.Count("slice fields of builder / option literals taken from another builder / option", n)
	if n == 0 {
		r.OK("copycheck/literal-shares-slices", "veneer packages", token.NoPos, "no builder or option literal takes a slice or map of another one as is")
	}
}

func c18LiteralsShareSlicesSelfTest(ctx *Ctx, r *Report) {
	run := func(c *Ctx, rr *Report) {
		saved := veneerPkgs
		veneerPkgs = nil
		for _, p := range c.Pkgs {
			veneerPkgs = append(veneerPkgs, strings.TrimPrefix(p.PkgPath, modulePath+"/"))
		}
		c18LiteralsShareSlices(c, rr)
		veneerPkgs = saved
	}
	selfTest(ctx, r, "copycheck/literal-shares-slices", "literal_shares_properties", true, `package fx
import "github.com/grafana/cog/internal/ast"
func compose(source ast.Builder) ast.Builder {
	return ast.Builder{Name: source.Name, Properties: source.Properties}
}`, run)
	selfTest(ctx, r, "copycheck/literal-shares-slices", "literal_copies_properties", false, `package fx
import "github.com/grafana/cog/internal/ast"
func compose(source ast.Builder) ast.Builder {
	return ast.Builder{Name: source.Name, Properties: append([]ast.StructField(nil), source.Properties...)}
}`, run)
}

// c18NilnessOfCollections: the copies of the IR do not promise to keep a nil list or map nil (several DeepCopy methods
// `make` their result) and every chain of passes starts with a copy: code that tells a nil collection of an IR node from
// an empty one behaves differently on a schema and on its copy. Outside internal/ast, no slice- or map-typed field of an
// IR struct is compared with nil (`len(x) == 0` is the test that a copy preserves).
func c18NilnessOfCollections(ctx *Ctx, r *Report) {
	n := 0
	for _, p := range ctx.Pkgs {
		if p.PkgPath == astPkgPath || p.TypesInfo == nil {
			continue
		}
		info := p.TypesInfo
		for _, file := range p.Syntax {
			var fname string
			ast.Inspect(file, func(m ast.Node) bool {
				if d, ok := m.(*ast.FuncDecl); ok {
					fname = d.Name.Name
				}
				be, ok := m.(*ast.BinaryExpr)
				if !ok || (be.Op != token.EQL && be.Op != token.NEQ) {
					return true
				}
				var side ast.Expr
				switch {
				case exprString(be.Y) == "nil":
					side = be.X
				case exprString(be.X) == "nil":
					side = be.Y
				default:
					return true
				}
				sel, ok := ast.Unparen(side).(*ast.SelectorExpr)
				if !ok {
					return true
				}
				f := fieldOf(info, sel)
				if f == nil || f.Pkg() == nil || f.Pkg().Path() != astPkgPath {
					return true
				}
				switch f.Type().Underlying().(type) {
				case *types.Slice, *types.Map:
				default:
					return true
				}
				n++
				r.Bad("copycheck/nilness-of-collections", fmt.Sprintf("%s.%s compares %s with nil", p.Types.Name(), fname, exprString(sel)), be.Pos(),
					fmt.Sprintf("%s.%s tells a nil %s from an empty one: a copy of the IR does not keep that difference (DeepCopy allocates), and every chain of passes starts with a copy — the code generated from a schema and from its copy differ (Python: `decoding_map_pet_union: dict[str, typing.Union[]] = {}`, a SyntaxError, for a union with a discriminator and no mapping)", p.Types.Name(), fname, exprString(sel)))
				return true
			})
		}
	}
	r.Count("IR collections compared with nil outside internal/ast", n)
	if n == 0 {
		r.OK("copycheck/nilness-of-collections", "packages using the IR", token.NoPos, "no slice or map field of an IR node is compared with nil")
	}
}

func c18NilnessSelfTest(ctx *Ctx, r *Report) {
	selfTest(ctx, r, "copycheck/nilness-of-collections", "mapping_compared_with_nil", true, `package fx
import "github.com/grafana/cog/internal/ast"
func plain(d ast.DisjunctionType) bool {
	return d.Discriminator == "" || d.DiscriminatorMapping == nil
}`, c18NilnessOfCollections)
	selfTest(ctx, r, "copycheck/nilness-of-collections", "mapping_length_tested", false, `package fx
import "github.com/grafana/cog/internal/ast"
func plain(d ast.DisjunctionType) bool {
	return d.Discriminator == "" || len(d.DiscriminatorMapping) == 0
}`, c18NilnessOfCollections)
}

// c18SpreadFieldsCopied: a pass that builds a new struct out of the fields of an existing one (`ast.NewStruct(x.Fields...)`)
// duplicates that struct: the new type must not share the field slice, nor the types the fields point to, with the
// original — the operand spread into the constructor goes through DeepCopy (or is a slice local to the function).
// Same for the value type of an array rebuilt from an existing one.
func c18SpreadFieldsCopied(ctx *Ctx, r *Report) {
	n := 0
	spreading := map[*ast.FuncDecl]bool{}
	defer func() { c18DuplicateHintsCopied(ctx, r, spreading) }()
	ctx.AllFuncDecls(func(p *packages.Package, fd *ast.FuncDecl, obj *types.Func) {
		if fd.Body == nil || !strings.HasSuffix(p.PkgPath, "/internal/ast/compiler") {
			return
		}
		info := p.TypesInfo
		ast.Inspect(fd.Body, func(m ast.Node) bool {
			c, ok := m.(*ast.CallExpr)
			if !ok || len(c.Args) == 0 {
				return true
			}
			fn := callee(info, c)
			if fn == nil || fn.Pkg() == nil || !strings.HasSuffix(fn.Pkg().Path(), "internal/ast") {
				return true
			}
			var operand ast.Expr
			what := ""
			switch {
			case fn.Name() == "NewStruct" && c.Ellipsis.IsValid():
				operand, what = c.Args[len(c.Args)-1], "fields"
			case fn.Name() == "NewArray":
				operand, what = c.Args[0], "value type"
			default:
				return true
			}
			// only operands taken out of an existing type: a selector chain ending in .Fields / .ValueType
			sel, ok := ast.Unparen(operand).(*ast.SelectorExpr)
			if !ok || (sel.Sel.Name != "Fields" && sel.Sel.Name != "ValueType") {
				if cc, ok := ast.Unparen(operand).(*ast.CallExpr); !ok || !strings.HasSuffix(exprString(cc.Fun), ".DeepCopy") {
					return true
				}
			}
			n++
			copied := strings.Contains(exprString(operand), "DeepCopy()") || c18RootIsADeepCopy(info, fd, operand)
			if fn.Name() == "NewStruct" {
				spreading[fd] = true
			}
			r.Check(copied, "copycheck/spread-fields-copied", fmt.Sprintf("%s builds a type from the %s of %s", ctx.FuncName(obj), what, exprString(operand)), c.Pos(), "the "+what+" are duplicated first",
				fmt.Sprintf("%s builds a new type from %s as it is: the new type shares the field slice and every type below it with the original — with `A: Base; B: Base` both aliases get the same *RefType for `target`, and a later pass (PrefixObjectNames) renames it once through each: PA.target refers to PPTarget, which does not exist", ctx.FuncName(obj), exprString(operand)))
			return true
		})
	})
	r.Count("types rebuilt from the parts of an existing type", n)
	r.Floor("types rebuilt from the parts of an existing type", 2)
}

// c18FourthHunt — fourth hunt:
//   - the veneers are cog's other transformation chain: Rewriter.ApplyTo hands the rules a deep copy of every builder
//     it was given (several rules append in place to the slices of the builders), like Passes.Process for the schemas;
//   - BuilderVisitor.Visit does not store into the slice it was given (GenerateBuilderNilChecks receives a Context by
//     value and returns one: the caller's builders must stay as they were);
//   - DisjunctionToType puts each branch of a union twice in the struct it creates — as the type of a field, and in the
//     disjunction kept as a hint: the field gets a deep copy; and a renaming pass whose struct handler rewrites that
//     hint visits its branches (they are no longer the very types of the fields).
func c18FourthHunt(ctx *Ctx, r *Report) {
	n := 0
	// (a)
	if fn := ctx.LookupMethod("internal/veneers/rewrite", "Rewriter", "ApplyTo"); fn == nil {
		r.Undecided("anchor lost: rewrite.Rewriter.ApplyTo")
	} else if fd, p := ctx.DeclOf(fn); fd != nil {
		info := p.TypesInfo
		sig := fn.Type().(*types.Signature)
		var param *types.Var
		for i := 0; i < sig.Params().Len(); i++ {
			if sl, ok := sig.Params().At(i).Type().Underlying().(*types.Slice); ok && namedName(sl.Elem()) == "Builder" {
				param = sig.Params().At(i)
			}
		}
		if param == nil {
			r.Undecided("anchor changed: Rewriter.ApplyTo takes no slice of builders")
		} else {
			parents := parentMap(fd)
			isDeepCopyRecv := func(e ast.Expr) bool {
				sel, ok := parents[e].(*ast.SelectorExpr)
				if !ok || sel.X != e || sel.Sel.Name != "DeepCopy" {
					return false
				}
				_, isCall := parents[sel].(*ast.CallExpr)
				return isCall
			}
			var bad []string
			elems := map[types.Object]bool{}
			ast.Inspect(fd.Body, func(m ast.Node) bool {
				id, ok := m.(*ast.Ident)
				if !ok || objOf(info, id) != param {
					return true
				}
				switch par := parents[id].(type) {
				case *ast.CallExpr:
					if f, ok := ast.Unparen(par.Fun).(*ast.Ident); ok && f.Name == "len" {
						return true
					}
				case *ast.RangeStmt:
					if par.X == ast.Expr(id) {
						if v, ok := par.Value.(*ast.Ident); ok {
							elems[objOf(info, v)] = true
						}
						return true
					}
				case *ast.IndexExpr:
					if par.X == ast.Expr(id) && isDeepCopyRecv(par) {
						return true
					}
				}
				bad = append(bad, ctx.Pos(id.Pos()))
				return true
			})
			ast.Inspect(fd.Body, func(m ast.Node) bool {
				id, ok := m.(*ast.Ident)
				if !ok || !elems[objOf(info, id)] || info.Defs[id] != nil {
					return true
				}
				if !isDeepCopyRecv(id) {
					bad = append(bad, ctx.Pos(id.Pos()))
				}
				return true
			})
			n++
			r.Check(len(bad) == 0, "copycheck/veneers-work-on-copy", "rewrite.Rewriter.ApplyTo hands its rules copies of the builders", fd.Pos(), "every use of the builders it is given is a DeepCopy of one of them (or their number)",
				"ApplyTo uses the builders it was given otherwise than through DeepCopy ("+strings.Join(bad, ", ")+"): the rules append in place to Constructor.Assignments / Options / Factories, whose arrays FromAST leaves with spare capacity — `initialize mode = ts-mode` applied for TypeScript overwrites the `go-mode` of the builders returned for Go")
		}
	}
	// (b)
	if fn := ctx.LookupMethod("internal/ast", "BuilderVisitor", "Visit"); fn == nil {
		r.Undecided("anchor lost: ast.BuilderVisitor.Visit")
	} else if fd, p := ctx.DeclOf(fn); fd != nil {
		info := p.TypesInfo
		sig := fn.Type().(*types.Signature)
		var param *types.Var
		for i := 0; i < sig.Params().Len(); i++ {
			if namedName(sig.Params().At(i).Type()) == "Builders" {
				param = sig.Params().At(i)
			}
		}
		if param == nil {
			r.Undecided("anchor changed: BuilderVisitor.Visit takes no Builders")
		} else {
			var bad []string
			// the argument, and the local variables that are the same slice (x := builders, x := builders[:n])
			same := map[types.Object]bool{param: true}
			for changed := true; changed; {
				changed = false
				ast.Inspect(fd.Body, func(m ast.Node) bool {
					as, ok := m.(*ast.AssignStmt)
					if !ok || len(as.Lhs) != len(as.Rhs) {
						return true
					}
					for i, rhs := range as.Rhs {
						e := ast.Unparen(rhs)
						if sl, ok := e.(*ast.SliceExpr); ok {
							e = ast.Unparen(sl.X)
						}
						if rid, ok := e.(*ast.Ident); ok && same[objOf(info, rid)] {
							if lid, ok := as.Lhs[i].(*ast.Ident); ok && objOf(info, lid) != nil && !same[objOf(info, lid)] {
								same[objOf(info, lid)] = true
								changed = true
							}
						}
					}
					return true
				})
			}
			ast.Inspect(fd.Body, func(m ast.Node) bool {
				switch x := m.(type) {
				case *ast.AssignStmt:
					for _, l := range x.Lhs {
						if ix, ok := ast.Unparen(l).(*ast.IndexExpr); ok {
							if id, ok := ast.Unparen(ix.X).(*ast.Ident); ok && same[objOf(info, id)] {
								bad = append(bad, "store into "+exprString(l)+" at "+ctx.Pos(l.Pos()))
							}
						}
					}
				case *ast.ReturnStmt:
					if len(x.Results) > 0 {
						if id, ok := ast.Unparen(x.Results[0]).(*ast.Ident); ok && same[objOf(info, id)] {
							bad = append(bad, "the argument itself is returned at "+ctx.Pos(x.Pos()))
						}
					}
				}
				return true
			})
			n++
			r.Check(len(bad) == 0, "copycheck/visitor-leaves-its-input", "ast.BuilderVisitor.Visit leaves the builders it is given", fd.Pos(), "the visited builders go into a slice of their own",
				"BuilderVisitor.Visit overwrites its argument ("+strings.Join(bad, "; ")+"): GenerateBuilderNilChecks, which receives a Context by value, puts the nil checks of Java into the caller's builders — and into the Context it returned for Go")
		}
	}
	// (c)
	if fn := ctx.LookupMethod("internal/ast/compiler", "DisjunctionToType", "processDisjunction"); fn == nil {
		r.Undecided("anchor lost: compiler.DisjunctionToType.processDisjunction")
	} else if fd, p := ctx.DeclOf(fn); fd != nil {
		info := p.TypesInfo
		ranges := 0
		var shared []string
		ast.Inspect(fd.Body, func(m ast.Node) bool {
			rs, ok := m.(*ast.RangeStmt)
			if !ok || !strings.HasSuffix(exprString(rs.X), ".Branches") {
				return true
			}
			v, ok := rs.Value.(*ast.Ident)
			if !ok {
				return true
			}
			branch := objOf(info, v)
			// does this loop build struct fields?
			builds := false
			ast.Inspect(rs.Body, func(k ast.Node) bool {
				if c, ok := k.(*ast.CallExpr); ok {
					if f := callee(info, c); f != nil && f.Name() == "NewStructField" {
						builds = true
					}
				}
				return true
			})
			if !builds {
				return true
			}
			ranges++
			// the branch reaches NewStructField as it is, or through a plain copy of the value
			plain := map[types.Object]bool{branch: true}
			ast.Inspect(rs.Body, func(k ast.Node) bool {
				if as, ok := k.(*ast.AssignStmt); ok && len(as.Lhs) == 1 && len(as.Rhs) == 1 {
					if rid, ok := ast.Unparen(as.Rhs[0]).(*ast.Ident); ok && plain[objOf(info, rid)] {
						if lid, ok := as.Lhs[0].(*ast.Ident); ok {
							plain[objOf(info, lid)] = true
						}
					}
				}
				return true
			})
			ast.Inspect(rs.Body, func(k ast.Node) bool {
				c, ok := k.(*ast.CallExpr)
				if !ok {
					return true
				}
				if f := callee(info, c); f == nil || f.Name() != "NewStructField" || len(c.Args) < 2 {
					return true
				}
				if id, ok := ast.Unparen(c.Args[1]).(*ast.Ident); ok && plain[objOf(info, id)] {
					shared = append(shared, exprString(c.Args[1])+" at "+ctx.Pos(c.Pos()))
				}
				return true
			})
			return true
		})
		if ranges == 0 {
			r.Undecided("anchor changed: DisjunctionToType.processDisjunction builds no field from the branches")
		} else {
			n++
			r.Check(len(shared) == 0, "copycheck/duplicated-branch-independent", "compiler.DisjunctionToType.processDisjunction duplicates the branches into fields", fd.Pos(), "the type of a field is a deep copy of the branch, which stays in the hint",
				"the type of a field is the branch itself, copied by value ("+strings.Join(shared, ", ")+"): field and hint share one *RefType — PrefixObjectNames renames the hint's branches only through that alias, and a DeepCopy taken between the two passes (two chains) leaves the hint with branches [pkg.A, pkg.B] next to the mapping {a: ZzA, b: ZzB}")
		}
	}
	c18HintedBranchesVisited(ctx, r)
	r.Count("hunted clauses of the copies (4th hunt)", n)
	r.Floor("hunted clauses of the copies (4th hunt)", 3)
}

// c18HintedBranchesVisited: a renaming pass whose struct handler rewrites the disjunction kept in the hint of a struct
// generated from a union hands the branches of that disjunction to the visitor: they are values of their own, not the
// types of the fields.
func c18HintedBranchesVisited(ctx *Ctx, r *Report) {
	if cp := ctx.Pkg("internal/ast/compiler"); cp != nil {
		info := cp.TypesInfo
		visits := func(start *types.Func) bool {
			seen := map[*types.Func]bool{}
			var rec func(fn *types.Func, depth int) bool
			rec = func(fn *types.Func, depth int) bool {
				if fn == nil || seen[fn] || depth > 1 {
					return false
				}
				seen[fn] = true
				fd, _ := ctx.DeclOf(fn)
				if fd == nil || fd.Body == nil {
					return false
				}
				ok := false
				ast.Inspect(fd.Body, func(m ast.Node) bool {
					switch x := m.(type) {
					case *ast.RangeStmt:
						if strings.HasSuffix(exprString(x.X), ".Branches") {
							ast.Inspect(x.Body, func(k ast.Node) bool {
								if c, isCall := k.(*ast.CallExpr); isCall {
									if f := callee(info, c); f != nil && strings.HasPrefix(f.Name(), "Visit") {
										ok = true
									}
								}
								return true
							})
						}
					case *ast.CallExpr:
						if f := callee(info, x); f != nil && f.Pkg() == cp.Types && rec(f, depth+1) {
							ok = true
						}
					}
					return true
				})
				return ok
			}
			return rec(start, 0)
		}
		readsHint := func(fn *types.Func) bool {
			fd, _ := ctx.DeclOf(fn)
			if fd == nil || fd.Body == nil {
				return false
			}
			found := false
			ast.Inspect(fd.Body, func(m ast.Node) bool {
				if id, ok := m.(*ast.Ident); ok {
					if namesRefsHint(ctx, info.Uses[id]) {
						found = true
					}
				}
				return true
			})
			return found
		}
		storesReferredType := func(fn *types.Func) bool {
			fd, _ := ctx.DeclOf(fn)
			if fd == nil || fd.Body == nil {
				return false
			}
			found := false
			ast.Inspect(fd.Body, func(m ast.Node) bool {
				if as, ok := m.(*ast.AssignStmt); ok {
					for _, l := range as.Lhs {
						if strings.HasSuffix(exprString(l), ".ReferredType") {
							found = true
						}
					}
				}
				return true
			})
			return found
		}
		passes := 0
		for _, file := range cp.Syntax {
			ast.Inspect(file, func(m ast.Node) bool {
				cl, ok := m.(*ast.CompositeLit)
				if !ok || namedName(info.TypeOf(cl)) != "Visitor" {
					return true
				}
				var onStruct, onRef *types.Func
				for _, el := range cl.Elts {
					kv, ok := el.(*ast.KeyValueExpr)
					if !ok {
						continue
					}
					sel, ok := kv.Value.(*ast.SelectorExpr)
					if !ok {
						continue
					}
					h, _ := info.Uses[sel.Sel].(*types.Func)
					switch exprString(kv.Key) {
					case "OnStruct":
						onStruct = h
					case "OnRef":
						onRef = h
					}
				}
				if onStruct == nil || onRef == nil || !readsHint(onStruct) || !storesReferredType(onRef) {
					return true
				}
				passes++
				r.Check(visits(onStruct), "copycheck/duplicated-branch-independent", ctx.FuncName(onStruct)+" visits the branches kept in the hint", cl.Pos(), "the handler hands each branch of the hinted disjunction to the visitor",
					ctx.FuncName(onStruct)+" rewrites the mapping of the hinted disjunction and not its branches: they are no longer the types of the fields (each has its own copy), so they keep the old names — the Go / Java unmarshallers are generated from branches that designate objects that no longer exist")
				return true
			})
		}
		r.Count("renaming passes that rewrite the hinted disjunction", passes)
		r.Floor("renaming passes that rewrite the hinted disjunction", 2)
	}
}

// c18RootIsADeepCopy: the expression is a selector chain rooted at a local variable whose one definition in the function
// is `v := <expr>.DeepCopy()`.
func c18RootIsADeepCopy(info *types.Info, fd *ast.FuncDecl, e ast.Expr) bool {
	root := ast.Unparen(e)
	for {
		switch x := root.(type) {
		case *ast.SelectorExpr:
			root = ast.Unparen(x.X)
			continue
		case *ast.CallExpr:
			if sel, ok := ast.Unparen(x.Fun).(*ast.SelectorExpr); ok {
				root = ast.Unparen(sel.X)
				continue
			}
		case *ast.IndexExpr:
			root = ast.Unparen(x.X)
			continue
		}
		break
	}
	id, ok := root.(*ast.Ident)
	if !ok {
		return false
	}
	obj := info.Uses[id]
	if obj == nil {
		return false
	}
	defs, copies := 0, 0
	ast.Inspect(fd.Body, func(m ast.Node) bool {
		as, ok := m.(*ast.AssignStmt)
		if !ok || len(as.Lhs) != len(as.Rhs) {
			return true
		}
		for i, l := range as.Lhs {
			lid, ok := l.(*ast.Ident)
			if !ok || (info.Defs[lid] != obj && info.Uses[lid] != obj) {
				continue
			}
			defs++
			if c, ok := ast.Unparen(as.Rhs[i]).(*ast.CallExpr); ok {
				if sel, ok := ast.Unparen(c.Fun).(*ast.SelectorExpr); ok && sel.Sel.Name == "DeepCopy" {
					copies++
				}
			}
		}
		return true
	})
	return defs == 1 && copies == 1
}

// c18DuplicateHintsCopied: a function that builds a struct from the (copied) fields of an existing one makes a duplicate
// of it; the hints it gives the duplicate (`for k, v := range X.Hints { dup.Hints[k] = v }`) hold types too — the union a
// struct was generated from, with its branches and mapping: they have to be taken from the copy, not from the original.
func c18DuplicateHintsCopied(ctx *Ctx, r *Report, spreading map[*ast.FuncDecl]bool) {
	n := 0
	ctx.AllFuncDecls(func(p *packages.Package, fd *ast.FuncDecl, obj *types.Func) {
		if !spreading[fd] {
			return
		}
		info := p.TypesInfo
		ast.Inspect(fd.Body, func(m ast.Node) bool {
			rs, ok := m.(*ast.RangeStmt)
			if !ok || rs.Value == nil {
				return true
			}
			src, ok := ast.Unparen(rs.X).(*ast.SelectorExpr)
			if !ok || src.Sel.Name != "Hints" {
				return true
			}
			val, ok := rs.Value.(*ast.Ident)
			if !ok {
				return true
			}
			stores := false
			ast.Inspect(rs.Body, func(q ast.Node) bool {
				if as, ok := q.(*ast.AssignStmt); ok && len(as.Lhs) == 1 && len(as.Rhs) == 1 {
					if ix, ok := ast.Unparen(as.Lhs[0]).(*ast.IndexExpr); ok {
						if s, ok := ast.Unparen(ix.X).(*ast.SelectorExpr); ok && s.Sel.Name == "Hints" {
							if rid, ok := ast.Unparen(as.Rhs[0]).(*ast.Ident); ok && info.Uses[rid] == info.Defs[val] {
								stores = true
							}
						}
					}
				}
				return true
			})
			if !stores {
				return true
			}
			n++
			copied := strings.Contains(exprString(rs.X), "DeepCopy()") || c18RootIsADeepCopy(info, fd, rs.X)
			r.Check(copied, "copycheck/duplicate-hints-copied", fmt.Sprintf("%s gives the hints of %s to the duplicate it builds", ctx.FuncName(obj), exprString(src.X)), rs.Pos(), "the hints are taken from a deep copy",
				fmt.Sprintf("%s duplicates a struct (its fields are copied) and gives the duplicate the hints of the original by assignment: the union kept under disjunction_of_refs — branches, mapping, *RefType — is shared by every duplicate. With `X: A | B; Y: A | B` (Java chain) then PrefixObjectNames{P}, the branches in the hints of PX and PY refer to PPA / PPB, which do not exist", ctx.FuncName(obj)))
			return true
		})
	})
	r.Count("duplicates given the hints of their original", n)
	r.Floor("duplicates given the hints of their original", 1)
}

// c18ReferredEnumMembersCopied: a pass that makes a new enum out of the members of an enum it reached through a reference
// (`Level | "off"` → enum low, high, off) appends copies of these members: an EnumValue holds a *ScalarType and a map of
// hints.
func c18ReferredEnumMembersCopied(ctx *Ctx, r *Report) {
	n := 0
	ctx.AllFuncDecls(func(p *packages.Package, fd *ast.FuncDecl, obj *types.Func) {
		if fd.Body == nil || !strings.HasSuffix(p.PkgPath, "/internal/ast/compiler") {
			return
		}
		info := p.TypesInfo
		// variables holding what a reference resolves to
		resolved := map[types.Object]bool{}
		ast.Inspect(fd.Body, func(m ast.Node) bool {
			as, ok := m.(*ast.AssignStmt)
			if !ok || len(as.Rhs) != 1 {
				return true
			}
			c, ok := ast.Unparen(as.Rhs[0]).(*ast.CallExpr)
			if !ok {
				return true
			}
			f := callee(info, c)
			if f == nil || !(strings.HasPrefix(f.Name(), "Resolve") || strings.HasPrefix(f.Name(), "Locate")) {
				return true
			}
			if id, ok := as.Lhs[0].(*ast.Ident); ok {
				if o := objOf(info, id); o != nil {
					resolved[o] = true
				}
			}
			return true
		})
		if len(resolved) == 0 {
			return
		}
		ast.Inspect(fd.Body, func(m ast.Node) bool {
			rs, ok := m.(*ast.RangeStmt)
			if !ok || rs.Value == nil {
				return true
			}
			if sl, ok := info.TypeOf(rs.X).Underlying().(*types.Slice); !ok || namedName(sl.Elem()) != "EnumValue" {
				return true
			}
			root := ast.Unparen(rs.X)
			for {
				switch x := root.(type) {
				case *ast.SelectorExpr:
					root = ast.Unparen(x.X)
					continue
				case *ast.CallExpr:
					if sel, ok := ast.Unparen(x.Fun).(*ast.SelectorExpr); ok {
						root = ast.Unparen(sel.X)
						continue
					}
				}
				break
			}
			rid, ok := root.(*ast.Ident)
			if !ok || !resolved[info.Uses[rid]] {
				return true
			}
			member, ok := rs.Value.(*ast.Ident)
			if !ok {
				return true
			}
			ast.Inspect(rs.Body, func(q ast.Node) bool {
				c, ok := q.(*ast.CallExpr)
				if !ok {
					return true
				}
				if id, ok := ast.Unparen(c.Fun).(*ast.Ident); !ok || id.Name != "append" || len(c.Args) < 2 {
					return true
				}
				for _, a := range c.Args[1:] {
					text := exprString(a)
					usesMember := false
					ast.Inspect(a, func(z ast.Node) bool {
						if id, ok := z.(*ast.Ident); ok && info.Uses[id] == info.Defs[member] {
							usesMember = true
						}
						return true
					})
					if !usesMember {
						continue
					}
					n++
					r.Check(strings.Contains(text, "DeepCopy()"), "copycheck/referred-enum-members-copied", fmt.Sprintf("%s keeps the members of an enum it reached through a reference", ctx.FuncName(obj)), c.Pos(), "as deep copies",
						fmt.Sprintf("%s appends the members of the enum a reference resolves to as they are: `Level: \"low\" | \"high\"; LevelOrOff: Level | \"off\"` gives LevelOrOff members that share their *ScalarType and their hints map with those of Level — what a later pass does to the members of one shows in the other", ctx.FuncName(obj)))
				}
				return true
			})
			return true
		})
	})
	r.Count("enums made from the members of a referred enum", n)
	r.Floor("enums made from the members of a referred enum", 1)
}
