package main

// C14 — Go converters invert builders.

import (
	"fmt"
	"go/ast"
	"go/token"
	"go/types"
	"sort"
	"strings"
	"text/template/parse"

	"golang.org/x/tools/go/packages"
)

func init() { register("C14", checkC14) }

func checkC14(ctx *Ctx, r *Report) {
	r.Explanation = "Generator-side necessary conditions for 'every option and argument needed to reproduce v appears exactly once', decided on languages.ConverterGenerator and the converter templates: (1) every FromBuilder call runs on a generator built for that call (generatedPaths / listOfDisjunctionOptions carry nothing from one builder to the next); (2) FromBuilder maps every option of the builder and only discards empty mappings; (3) the key that decides 'this assignment already has a mapping' distinguishes assignments by path, constant and envelope fields; (4) options appending the branches of a union to one list are grouped by the list's path alone, so one loop renders them in item order; (5) the choice between several builders of one type is guarded by the constants of each candidate's constructor only; (6) each language's converter template consumes every member of languages.ArgumentMapping, except members that can only arise from a kind the language's chain removes; the sorted iteration over the grouped options is checked by C03."
	r.NotCovered = "that the printed expression compiles and rebuilds the object (two stages of execution away), guards on defaults, formatting of values (cog.Dump, %#v), map iteration order inside the generated converter."
	r.Exhaustive = true
	p := ctx.Pkg("internal/languages")
	if p == nil {
		r.Undecided("package internal/languages not found")
		return
	}
	c14FreshGenerator(ctx, r)
	c14Generator(ctx, r, p)
	c14Templates(ctx, r, p)
}

func c14FreshGenerator(ctx *Ctx, r *Report) {
	n := 0
	ctx.AllFuncDecls(func(p *packages.Package, fd *ast.FuncDecl, obj *types.Func) {
		if fd.Body == nil {
			return
		}
		info := p.TypesInfo
		k := 0
		ast.Inspect(fd.Body, func(m ast.Node) bool {
			c, ok := m.(*ast.CallExpr)
			if !ok {
				return true
			}
			fn := callee(info, c)
			if fn == nil || fn.Name() != "FromBuilder" || fn.Pkg() == nil || fn.Pkg().Path() != modulePath+"/internal/languages" {
				return true
			}
			n++
			k++
			sel := c.Fun.(*ast.SelectorExpr)
			fresh := false
			if rc, ok := ast.Unparen(sel.X).(*ast.CallExpr); ok {
				if f2 := callee(info, rc); f2 != nil && f2.Name() == "NewConverterGenerator" {
					fresh = true
				}
			}
			r.Check(fresh, "effects/fresh-generator", fmt.Sprintf("%s FromBuilder call #%d", ctx.FuncName(obj), k), c.Pos(), "called on NewConverterGenerator(...) itself",
				"FromBuilder is called on a generator that outlives the call: generatedPaths remembers the paths already mapped, so the options of a later builder that assign the same paths get no mapping and silently disappear from its converter")
			return true
		})
	})
	r.Count("FromBuilder call sites", n)
	r.Floor("FromBuilder call sites", 3)
}

func c14Generator(ctx *Ctx, r *Report, p *packages.Package) {
	info := p.TypesInfo
	method := func(name string) *ast.FuncDecl {
		for _, f := range p.Syntax {
			for _, d := range f.Decls {
				if fd, ok := d.(*ast.FuncDecl); ok && fd.Name.Name == name && fd.Recv != nil && fd.Body != nil {
					return fd
				}
			}
		}
		return nil
	}
	// (2) FromBuilder maps every option
	if fd := method("FromBuilder"); fd == nil {
		r.Undecided("anchor lost: languages.ConverterGenerator.FromBuilder")
	} else {
		mapsAll := false
		var filters []string
		ast.Inspect(fd.Body, func(n ast.Node) bool {
			c, ok := n.(*ast.CallExpr)
			if !ok {
				return true
			}
			fn := callee(info, c)
			if fn == nil {
				return true
			}
			if fn.Name() == "Map" && len(c.Args) == 2 && strings.HasSuffix(exprString(c.Args[0]), ".Options") {
				if lit, ok := c.Args[1].(*ast.FuncLit); ok {
					ast.Inspect(lit.Body, func(k ast.Node) bool {
						if c2, ok := k.(*ast.CallExpr); ok {
							if f2 := callee(info, c2); f2 != nil && f2.Name() == "convertOption" {
								mapsAll = true
							}
						}
						return true
					})
				}
			}
			if fn.Name() == "Filter" && len(c.Args) == 2 {
				if lit, ok := c.Args[1].(*ast.FuncLit); ok && len(lit.Body.List) == 1 {
					if rs, ok := lit.Body.List[0].(*ast.ReturnStmt); ok && len(rs.Results) == 1 {
						filters = append(filters, exprString(rs.Results[0]))
					}
				}
			}
			return true
		})
		okFilter := len(filters) == 1 && strings.HasPrefix(filters[0], "len(") && strings.HasSuffix(filters[0], ".Options) != 0")
		r.Check(mapsAll && okFilter, "skeleton/converter-all-options", "languages.ConverterGenerator.FromBuilder", fd.Pos(), "every option goes through convertOption; only empty mappings are discarded",
			fmt.Sprintf("FromBuilder no longer maps every option of the builder through convertOption, or discards mappings by another test than emptiness (%v): options are missing from the converted code", filters))
	}
	// (3) assignmentKey reads path, constant and envelope field paths
	if fd := method("assignmentKey"); fd == nil {
		r.Undecided("anchor lost: languages.ConverterGenerator.assignmentKey")
	} else {
		reads := map[string]bool{}
		ast.Inspect(fd.Body, func(n ast.Node) bool {
			if s, ok := n.(*ast.SelectorExpr); ok {
				if f := fieldOf(info, s); f != nil {
					reads[f.Name()] = true
				}
			}
			return true
		})
		// the envelope's values are iterated and their Path read
		envelopePaths := false
		ast.Inspect(fd.Body, func(n ast.Node) bool {
			if rs, ok := n.(*ast.RangeStmt); ok && strings.HasSuffix(exprString(rs.X), ".Envelope.Values") {
				ast.Inspect(rs.Body, func(k ast.Node) bool {
					if s, ok := k.(*ast.SelectorExpr); ok && s.Sel.Name == "Path" {
						envelopePaths = true
					}
					return true
				})
			}
			return true
		})
		var missing []string
		if !reads["Path"] {
			missing = append(missing, "the path")
		}
		if !reads["Constant"] {
			missing = append(missing, "the constant")
		}
		if !envelopePaths {
			missing = append(missing, "the envelope's field paths")
		}
		r.Check(len(missing) == 0, "skeleton/assignment-key", "languages.ConverterGenerator.assignmentKey", fd.Pos(), "distinguishes assignments by path, constant and envelope fields",
			fmt.Sprintf("assignmentKey no longer takes %s into account: two options writing the same path through different union branches (or with different constants) share a key, the second one is taken for already mapped and is dropped from the converter", strings.Join(missing, " and ")))
	}
	// (4) grouping key of listOfDisjunctionOptions
	if fd := method("convertOption"); fd == nil {
		r.Undecided("anchor lost: languages.ConverterGenerator.convertOption")
	} else {
		found := false
		defs := map[types.Object]ast.Expr{}
		ast.Inspect(fd.Body, func(n ast.Node) bool {
			if as, ok := n.(*ast.AssignStmt); ok && as.Tok == token.DEFINE && len(as.Lhs) == len(as.Rhs) {
				for i, l := range as.Lhs {
					if id, ok := l.(*ast.Ident); ok {
						defs[info.Defs[id]] = as.Rhs[i]
					}
				}
			}
			return true
		})
		ast.Inspect(fd.Body, func(n ast.Node) bool {
			ix, ok := n.(*ast.IndexExpr)
			if !ok || !strings.HasSuffix(exprString(ix.X), "listOfDisjunctionOptions") {
				return true
			}
			if found {
				return true // the same statement reads and writes the group
			}
			found = true
			key := ix.Index
			if id, ok := ast.Unparen(key).(*ast.Ident); ok {
				if d, ok := defs[objOf(info, id)]; ok {
					key = d
				}
			}
			ks := exprString(key)
			okKey := strings.HasSuffix(ks, ".Path.String()") && !strings.Contains(ks, "Envelope") && !strings.Contains(ks, "assignmentKey")
			r.Check(okKey, "skeleton/list-grouping-key", "languages.ConverterGenerator.convertOption groups list options", ix.Pos(), "grouped by the list's path alone",
				"the options appending union branches to a list are grouped by `"+ks+"`, not by the list's path alone: each branch gets its own loop over the list and the converted calls come out grouped by branch — the rebuilt list is a permutation of the original")
			return true
		})
		if !found {
			r.Undecided("anchor changed: convertOption no longer indexes listOfDisjunctionOptions")
		}
	}
	// (5) builder choice guards
	if fd := method("argumentForType"); fd == nil {
		r.Undecided("anchor lost: languages.ConverterGenerator.argumentForType")
	} else {
		found := false
		defs := map[types.Object]ast.Expr{}
		ast.Inspect(fd.Body, func(n ast.Node) bool {
			if as, ok := n.(*ast.AssignStmt); ok && as.Tok == token.DEFINE && len(as.Lhs) == len(as.Rhs) {
				for i, l := range as.Lhs {
					if id, ok := l.(*ast.Ident); ok {
						defs[info.Defs[id]] = as.Rhs[i]
					}
				}
			}
			return true
		})
		ast.Inspect(fd.Body, func(n ast.Node) bool {
			cl, ok := n.(*ast.CompositeLit)
			if !ok || !strings.HasSuffix(exprString(cl.Type), "BuilderChoiceMapping") || len(cl.Elts) == 0 {
				return true
			}
			for _, el := range cl.Elts {
				kv, ok := el.(*ast.KeyValueExpr)
				if !ok || exprString(kv.Key) != "Guards" {
					continue
				}
				found = true
				okGuards := false
				if c, ok := kv.Value.(*ast.CallExpr); ok && len(c.Args) == 2 {
					arg := c.Args[1]
					if id, ok := ast.Unparen(arg).(*ast.Ident); ok {
						if d, ok := defs[objOf(info, id)]; ok {
							arg = d
						}
					}
					if fc, ok := ast.Unparen(arg).(*ast.CallExpr); ok {
						if f2 := callee(info, fc); f2 != nil && f2.Name() == "Filter" && len(fc.Args) == 2 {
							ast.Inspect(fc.Args[1], func(k ast.Node) bool {
								if c3, ok := k.(*ast.CallExpr); ok {
									if f3 := callee(info, c3); f3 != nil && f3.Name() == "HasConstantValue" {
										okGuards = true
									}
								}
								return true
							})
						}
					}
				}
				r.Check(okGuards, "skeleton/builder-choice-guards", "languages.ConverterGenerator.argumentForType builder choice", kv.Pos(), "guards come from the constant assignments of the candidate's constructor",
					"the guards that choose between several builders of one type are computed from assignments that are not constants of the candidate's constructor: emptiness / default guards then take part in the choice, no candidate matches for such values and the nested conversion is emitted as an empty string")
			}
			return true
		})
		if !found {
			r.Undecided("anchor changed: argumentForType no longer builds BuilderChoiceMapping{Guards: …}")
		}
	}
}

// (6) every member of ArgumentMapping is consumed by each converter template
func c14Templates(ctx *Ctx, r *Report, p *packages.Package) {
	am := ctx.LookupType("internal/languages", "ArgumentMapping")
	if am == nil {
		r.Undecided("anchor lost: languages.ArgumentMapping")
		return
	}
	st, ok := am.Underlying().(*types.Struct)
	if !ok {
		r.Undecided("languages.ArgumentMapping is no longer a struct")
		return
	}
	var members []string
	for i := 0; i < st.NumFields(); i++ {
		if st.Field(i).Name() != "Guards" {
			members = append(members, st.Field(i).Name())
		}
	}
	sort.Strings(members)
	n := 0
	for _, lang := range []string{"golang", "java", "php"} {
		ts, err := loadTemplates(ctx, lang)
		if err != nil {
			r.Undecided("cannot parse %s templates: %v", lang, err)
			continue
		}
		used := map[string]bool{}
		for _, name := range ts.names() {
			if !strings.Contains(ts.file[name], "converter") {
				continue
			}
			walkTmpl(ts.trees[name].Root, func(m parse.Node) bool {
				if f, ok := m.(*parse.FieldNode); ok {
					for i, id := range f.Ident {
						if id == "Arg" && i+1 < len(f.Ident) {
							used[f.Ident[i+1]] = true
						}
					}
					if len(f.Ident) == 1 {
						used[f.Ident[0]] = true
					}
				}
				return true
			})
		}
		for _, m := range members {
			n++
			okM := used[m]
			how := "consumed by the " + lang + " converter templates"
			if !okM && m == "Disjunction" && c02Eliminated[lang]["disjunction"] != "" {
				okM, how = true, "not consumed: "+c02Eliminated[lang]["disjunction"]
			}
			r.Check(okM, "kinds/argument-mapping-consumed", lang+" converter consumes ArgumentMapping."+m, token.NoPos, how,
				fmt.Sprintf("the %s converter templates never read ArgumentMapping.%s: an argument mapped that way is prepared by no branch and is missing from (or breaks) the converted code", lang, m))
		}
	}
	r.Count("ArgumentMapping members × converter languages", n)
	r.Floor("ArgumentMapping members × converter languages", 18)
}
