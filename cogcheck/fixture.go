package main

import (
	"fmt"
	"go/ast"
	"go/parser"
	"go/types"

	"golang.org/x/tools/go/packages"
)

// Positive and negative examples for rules that have no instance on today's tree ("no unsorted binary search", "no
// unbounded fixpoint loop"): a rule matching zero sites passes vacuously forever, so each such rule is run, on every
// check, over a tiny source fragment kept here — it must fire on the positive example and stay silent on the negative
// one. The fragments are parsed and type-checked in the process, against the packages already loaded for /repo; they are
// part of the checker, not of cog, and nothing of them is executed.

type mapImporter map[string]*types.Package

func (m mapImporter) Import(path string) (*types.Package, error) {
	if p, ok := m[path]; ok {
		return p, nil
	}
	return nil, fmt.Errorf("fixture imports %q, which no analysed cog package imports", path)
}

func (c *Ctx) fixture(name, src string) (*Ctx, error) {
	f, err := parser.ParseFile(c.Fset, "verif-fixture/"+name+".go", src, parser.ParseComments)
	if err != nil {
		return nil, err
	}
	imp := mapImporter{}
	for _, p := range c.Pkgs {
		imp[p.PkgPath] = p.Types
		for _, ip := range p.Types.Imports() {
			imp[ip.Path()] = ip
		}
	}
	info := &types.Info{
		Types: map[ast.Expr]types.TypeAndValue{}, Defs: map[*ast.Ident]types.Object{}, Uses: map[*ast.Ident]types.Object{},
		Selections: map[*ast.SelectorExpr]*types.Selection{}, Implicits: map[ast.Node]types.Object{}, Scopes: map[ast.Node]*types.Scope{},
		Instances: map[*ast.Ident]types.Instance{},
	}
	conf := types.Config{Importer: imp}
	tp, err := conf.Check(modulePath+"/internal/veriffixture/"+name, c.Fset, []*ast.File{f}, info)
	if err != nil {
		return nil, err
	}
	pk := &packages.Package{ID: tp.Path(), PkgPath: tp.Path(), Name: tp.Name(), Syntax: []*ast.File{f}, Types: tp, TypesInfo: info, Fset: c.Fset}
	return &Ctx{Repo: c.Repo, Verif: c.Verif, Tier: c.Tier, Fset: c.Fset, Pkgs: []*packages.Package{pk}, ByPath: map[string]*packages.Package{pk.PkgPath: pk}, Start: c.Start}, nil
}

// selfTest runs `run` over the fragment and requires that `rule` reports a violation exactly when wantFire.
func selfTest(ctx *Ctx, r *Report, rule, name string, wantFire bool, src string, run func(*Ctx, *Report)) {
	fctx, err := ctx.fixture(name, src)
	if err != nil {
		r.Undecided("self-test %s of rule %s: the example does not type-check: %v", name, rule, err)
		return
	}
	scratch := newReport(fctx, r.Property)
	run(fctx, scratch)
	fired := false
	for _, o := range scratch.Obls {
		if o.Rule == rule && o.Verdict == "violated" {
			fired = true
		}
	}
	switch {
	case wantFire && !fired:
		r.Undecided("self-test: rule %s no longer fires on its positive example %q — it would pass vacuously on /repo", rule, name)
	case !wantFire && fired:
		r.Undecided("self-test: rule %s fires on its negative example %q — a report from it on /repo could be a false alarm", rule, name)
	default:
		r.Count("built-in examples on which zero-instance rules behave as expected", 1)
	}
}

func c04FixpointSelfTest(ctx *Ctx, r *Report) {
	selfTest(ctx, r, "flow/bounded-fixpoint", "fixpoint_unbounded", true, `package fx
func rewriteAll(s string, step func(string) string) string {
	for {
		previous := s
		s = step(s)
		if s == previous {
			break
		}
	}
	return s
}`, c04Fixpoints)
	selfTest(ctx, r, "flow/bounded-fixpoint", "fixpoint_on_size", false, `package fx
func closure(set map[string]bool, next func(string) []string) {
	for {
		before := len(set)
		for k := range set {
			for _, n := range next(k) {
				set[n] = true
			}
		}
		if len(set) == before {
			return
		}
	}
}
func drain(queue []string, handle func(string) []string) {
	for {
		if len(queue) == 0 {
			break
		}
		queue = handle(queue[0])
	}
}`, c04Fixpoints)
}

func c02SortedSearchSelfTest(ctx *Ctx, r *Report) {
	selfTest(ctx, r, "lint/binary-search-sorted", "search_unsorted_literal", true, `package fx
import "sort"
var words = []string{"do", "default", "double"}
func isWord(s string) bool {
	i := sort.SearchStrings(words, s)
	return i < len(words) && words[i] == s
}`, c02SortedSearch)
	selfTest(ctx, r, "lint/binary-search-sorted", "search_sorted_literal", false, `package fx
import "sort"
var words = []string{"default", "do", "double"}
func isWord(s string) bool {
	i := sort.SearchStrings(words, s)
	return i < len(words) && words[i] == s
}
func find(hay []string, s string) int {
	sort.Strings(hay)
	return sort.SearchStrings(hay, s)
}`, c02SortedSearch)
}
