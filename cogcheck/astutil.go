package main

import (
	"go/ast"
	"go/token"
	"go/types"
	"strings"

	"golang.org/x/tools/go/packages"
	"golang.org/x/tools/go/types/typeutil"
)

// callee resolves the static callee of a call (function, method, or nil for
// dynamic calls through func values / interfaces... interface methods do
// resolve to the interface's *types.Func).
func callee(info *types.Info, call *ast.CallExpr) *types.Func {
	fn, _ := typeutil.Callee(info, call).(*types.Func)
	if fn != nil {
		return fn.Origin()
	}
	return nil
}

// isBuiltinCall reports whether call invokes the named builtin.
func isBuiltinCall(info *types.Info, call *ast.CallExpr, name string) bool {
	id, ok := ast.Unparen(call.Fun).(*ast.Ident)
	if !ok || id.Name != name {
		return false
	}
	_, isB := info.Uses[id].(*types.Builtin)
	return isB
}

// funcIs reports whether fn is pkgPath.name (package-level) or a method
// "Type.name" of pkgPath.
func funcIs(fn *types.Func, pkgPath, name string) bool {
	if fn == nil || fn.Pkg() == nil || fn.Pkg().Path() != pkgPath {
		return false
	}
	if recv, meth, ok := strings.Cut(name, "."); ok {
		sig := fn.Type().(*types.Signature)
		if sig.Recv() == nil || fn.Name() != meth {
			return false
		}
		return namedName(sig.Recv().Type()) == recv
	}
	sig := fn.Type().(*types.Signature)
	return sig.Recv() == nil && fn.Name() == name
}

// namedName returns the name of the named type behind t (through pointers).
func namedName(t types.Type) string {
	if nt := namedOf(t); nt != nil {
		return nt.Obj().Name()
	}
	return ""
}

func namedOf(t types.Type) *types.Named {
	for {
		switch tt := t.(type) {
		case *types.Pointer:
			t = tt.Elem()
			continue
		case *types.Alias:
			t = types.Unalias(tt)
			continue
		case *types.Named:
			return tt
		}
		return nil
	}
}

// isNamed reports whether t (through pointers) is the named type pkgPath.name.
func isNamed(t types.Type, pkgPath, name string) bool {
	nt := namedOf(t)
	if nt == nil || nt.Obj().Pkg() == nil {
		return false
	}
	return nt.Obj().Pkg().Path() == pkgPath && nt.Obj().Name() == name
}

// fieldOf resolves a selector expression to the struct field it selects.
func fieldOf(info *types.Info, e ast.Expr) *types.Var {
	sel, ok := ast.Unparen(e).(*ast.SelectorExpr)
	if !ok {
		return nil
	}
	if s := info.Selections[sel]; s != nil && s.Kind() == types.FieldVal {
		v, _ := s.Obj().(*types.Var)
		if v != nil {
			return v.Origin()
		}
		return nil
	}
	return nil
}

// rootIdent walks down selectors/indexes/stars/parens/slices/type assertions
// and call receivers and returns the identifier at the base of an access path.
func rootIdent(e ast.Expr) *ast.Ident {
	for {
		switch x := e.(type) {
		case *ast.Ident:
			return x
		case *ast.SelectorExpr:
			e = x.X
		case *ast.IndexExpr:
			e = x.X
		case *ast.SliceExpr:
			e = x.X
		case *ast.StarExpr:
			e = x.X
		case *ast.ParenExpr:
			e = x.X
		case *ast.UnaryExpr:
			e = x.X
		case *ast.TypeAssertExpr:
			e = x.X
		case *ast.CallExpr:
			// method call on a value: x.AsStruct().Fields -> root of receiver
			if sel, ok := x.Fun.(*ast.SelectorExpr); ok {
				e = sel.X
				continue
			}
			return nil
		default:
			return nil
		}
	}
}

// objOf returns the object an identifier refers to (use or def).
func objOf(info *types.Info, id *ast.Ident) types.Object {
	if id == nil {
		return nil
	}
	if o := info.Uses[id]; o != nil {
		return o
	}
	return info.Defs[id]
}

// exprString is a compact, stable rendering of an expression.
func exprString(e ast.Expr) string {
	return types.ExprString(e)
}

// enclosing returns, for a position in file f, the chain of nodes from the
// file down to the innermost node containing pos.
func pathTo(root ast.Node, target ast.Node) []ast.Node {
	var path []ast.Node
	var found bool
	var stack []ast.Node
	ast.Inspect(root, func(n ast.Node) bool {
		if found {
			return false
		}
		if n == nil {
			stack = stack[:len(stack)-1]
			return true
		}
		stack = append(stack, n)
		if n == target {
			path = append([]ast.Node(nil), stack...)
			found = true
			return false
		}
		return true
	})
	return path
}

// parentMap computes child->parent for a subtree.
func parentMap(root ast.Node) map[ast.Node]ast.Node {
	parents := map[ast.Node]ast.Node{}
	var stack []ast.Node
	ast.Inspect(root, func(n ast.Node) bool {
		if n == nil {
			stack = stack[:len(stack)-1]
			return true
		}
		if len(stack) > 0 {
			parents[n] = stack[len(stack)-1]
		}
		stack = append(stack, n)
		return true
	})
	return parents
}

// funcLitsAndDecl: body owners. bodyOf returns the body of a FuncDecl/FuncLit.
func bodyOf(n ast.Node) *ast.BlockStmt {
	switch f := n.(type) {
	case *ast.FuncDecl:
		return f.Body
	case *ast.FuncLit:
		return f.Body
	}
	return nil
}

// isNilIdent reports whether e is the predeclared nil.
func isNilIdent(info *types.Info, e ast.Expr) bool {
	id, ok := ast.Unparen(e).(*ast.Ident)
	if !ok {
		return false
	}
	_, isNil := info.Uses[id].(*types.Nil)
	return isNil
}

// sameObjExpr reports whether two expressions are the same access path over
// the same objects (identifiers resolved, selectors by field object).
func sameAccessPath(info *types.Info, a, b ast.Expr) bool {
	a, b = ast.Unparen(a), ast.Unparen(b)
	switch x := a.(type) {
	case *ast.Ident:
		y, ok := b.(*ast.Ident)
		return ok && objOf(info, x) != nil && objOf(info, x) == objOf(info, y)
	case *ast.SelectorExpr:
		y, ok := b.(*ast.SelectorExpr)
		if !ok || x.Sel.Name != y.Sel.Name {
			return false
		}
		return sameAccessPath(info, x.X, y.X)
	case *ast.StarExpr:
		y, ok := b.(*ast.StarExpr)
		return ok && sameAccessPath(info, x.X, y.X)
	case *ast.IndexExpr:
		y, ok := b.(*ast.IndexExpr)
		return ok && sameAccessPath(info, x.X, y.X) && sameAccessPath(info, x.Index, y.Index)
	case *ast.CallExpr:
		y, ok := b.(*ast.CallExpr)
		if !ok || len(x.Args) != len(y.Args) {
			return false
		}
		if !sameAccessPath(info, x.Fun, y.Fun) {
			return false
		}
		for i := range x.Args {
			if !sameAccessPath(info, x.Args[i], y.Args[i]) {
				return false
			}
		}
		return true
	case *ast.BasicLit:
		y, ok := b.(*ast.BasicLit)
		return ok && x.Kind == y.Kind && x.Value == y.Value
	case *ast.TypeAssertExpr:
		y, ok := b.(*ast.TypeAssertExpr)
		if !ok || x.Type == nil || y.Type == nil {
			return false
		}
		return types.Identical(info.TypeOf(x.Type), info.TypeOf(y.Type)) && sameAccessPath(info, x.X, y.X)
	}
	return false
}

// fileOf returns the *ast.File of pkg containing pos.
func fileOf(p *packages.Package, pos token.Pos) *ast.File {
	for _, f := range p.Syntax {
		if f.FileStart <= pos && pos <= f.FileEnd {
			return f
		}
	}
	return nil
}

// containsNode reports whether inner lies within outer.
func containsNode(outer, inner ast.Node) bool {
	return outer != nil && inner != nil && outer.Pos() <= inner.Pos() && inner.End() <= outer.End()
}

// typeContainsRef reports whether values of t can (transitively) hold a
// pointer, slice, map, chan, func or interface, i.e. copying t by value may
// alias mutable storage.
func typeContainsRef(t types.Type) bool {
	return typeContainsRefSeen(t, map[types.Type]bool{})
}

func typeContainsRefSeen(t types.Type, seen map[types.Type]bool) bool {
	if seen[t] {
		return false
	}
	seen[t] = true
	switch u := t.Underlying().(type) {
	case *types.Basic:
		return false
	case *types.Pointer, *types.Slice, *types.Map, *types.Chan, *types.Signature, *types.Interface:
		return true
	case *types.Array:
		return typeContainsRefSeen(u.Elem(), seen)
	case *types.Struct:
		for i := 0; i < u.NumFields(); i++ {
			if typeContainsRefSeen(u.Field(i).Type(), seen) {
				return true
			}
		}
		return false
	}
	return true
}

// isEmptyInterface: any / interface{}
func isEmptyInterface(t types.Type) bool {
	it, ok := t.Underlying().(*types.Interface)
	return ok && it.NumMethods() == 0 && !isTypeParam(t)
}

func isTypeParam(t types.Type) bool {
	_, ok := t.(*types.TypeParam)
	return ok
}
