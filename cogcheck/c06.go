package main

// C06 — per-language normal form. Engines E10 "chains" + E3 "traverse".

import (
	"fmt"
	"go/ast"
	"go/constant"
	"go/token"
	"go/types"
	"sort"
	"strings"
	"text/template/parse"

	"golang.org/x/tools/go/packages"
)

func init() { register("C06", checkC06) }

// languageChains resolves every Language.CompilerPasses() literal to the
// ordered list of pass type names.
func languageChains(ctx *Ctx) map[string][]string {
	out := map[string][]string{}
	ctx.AllFuncDecls(func(p *packages.Package, fd *ast.FuncDecl, obj *types.Func) {
		if fd.Recv == nil || fd.Body == nil || obj.Name() != "CompilerPasses" || !strings.HasPrefix(p.PkgPath, modulePath+"/internal/jennies/") {
			return
		}
		lang := strings.TrimPrefix(p.PkgPath, modulePath+"/internal/jennies/")
		var chain []string
		ast.Inspect(fd.Body, func(n ast.Node) bool {
			rs, ok := n.(*ast.ReturnStmt)
			if !ok || len(rs.Results) != 1 {
				return true
			}
			lit, ok := ast.Unparen(rs.Results[0]).(*ast.CompositeLit)
			if !ok {
				return true
			}
			for _, el := range lit.Elts {
				if nt := namedOf(p.TypesInfo.TypeOf(el)); nt != nil {
					chain = append(chain, nt.Obj().Name())
				} else {
					chain = append(chain, "?"+exprString(el))
				}
			}
			return false
		})
		out[lang] = chain
	})
	return out
}

type chainReq struct {
	clause string
	pass   string
	after  []string // passes that, when present in the chain, must come before `pass`
	langs  []string
}

// The contract table (DESIGN.md §3.C06): which pass establishes which clause of
// the normal form, and which passes must precede it because they create the
// construct it removes / the objects it must see.
var c06Contract = []chainReq{
	{"no union type remains", "DisjunctionToType", []string{"DisjunctionInferMapping", "UndiscriminatedDisjunctionToAny", "FlattenDisjunctions", "DisjunctionOfConstantsToEnum", "DisjunctionWithNullToOptional", "DisjunctionOfAnonymousStructsToExplicit"}, []string{"golang", "java"}},
	{"discriminated unions have a mapping before they are turned into types", "DisjunctionInferMapping", nil, []string{"golang", "java"}},
	{"undiscriminated unions of references become `any` before DisjunctionToType", "UndiscriminatedDisjunctionToAny", []string{"DisjunctionInferMapping"}, []string{"golang", "java"}},
	{"every enum is a named object", "AnonymousEnumToExplicitType", []string{"DisjunctionOfConstantsToEnum"}, []string{"golang", "java", "php"}},
	{"every struct (outside allOf) is a named object", "AnonymousStructsToNamed", nil, []string{"golang", "java", "php", "python"}},
	{"every non-required field is nullable", "NotRequiredFieldAsNullableType", []string{"AnonymousStructsToNamed"}, []string{"golang", "java", "php", "python"}},
	// (InlineObjectsWithTypes: inlining a named null — `Nothing: null`, `v: string | Nothing` — creates `T | null` as flattening does)
	{"no two-branch `T | null` union remains", "DisjunctionWithNullToOptional", []string{"FlattenDisjunctions", "InlineObjectsWithTypes"}, []string{"golang", "java", "php", "python"}},
	{"enum member names are prefixed", "PrefixEnumValues", []string{"AnonymousEnumToExplicitType", "DisjunctionOfConstantsToEnum"}, []string{"golang"}},
	{"enum member names are never purely numeric", "RenameNumericEnumValues", []string{"DisjunctionOfConstantsToEnum", "AnonymousEnumToExplicitType"}, []string{"python", "typescript", "java", "php"}},
	{"enum member names are sanitised", "SanitizeEnumMemberNames", []string{"DisjunctionOfConstantsToEnum"}, []string{"php"}},
}

func checkC06(ctx *Ctx, r *Report) {
	defer c06SecondHunt(ctx, r)
	defer c06FourthHunt(ctx, r)
	defer c06FifthHunt(ctx, r)
	defer c06PHPStringLiterals(ctx, r)
	// the last pass of the Java chain removes objects: what the generators are handed must not refer to them
	defer func() { c05RemovedObjectsRewrittenEverywhere(ctx, r, newEffectsEngine(ctx)) }()
	defer c02EnumMemberIdentifiers(ctx, r)
	r.Explanation = "Decided from source: (1) chain contract — each Language.CompilerPasses() literal is resolved to its ordered list of pass types and checked against a frozen table: the pass establishing each clause of the normal form is present for every language the clause is stated for, and comes after every pass of the same chain that creates the construct it removes (or the objects it must see); (2) reach — each establishing pass reaches nested occurrences: visitor-based passes re-enter the visitor on the children of the node in every callback that replaces the default traversal (or return a fresh leaf), and hand-rolled recursions dispatch over every container kind in which the construct can nest and call themselves on that kind's child positions; objects created by an establishing pass are themselves processed."
	r.NotCovered = "that a pass's rewrite is right (only that it is applied everywhere); interactions between passes beyond the table; identifier rules of the target languages beyond the presence/order of the renaming pass."
	r.Exhaustive = true

	chains := languageChains(ctx)
	r.Count("language chains resolved", len(chains))
	r.Floor("language chains resolved", 7)
	// a pass can occur several times: what counts is its last run
	index := func(chain []string, name string) int {
		at := -1
		for i, n := range chain {
			if n == name {
				at = i
			}
		}
		return at
	}
	langs := make([]string, 0, len(chains))
	for l := range chains {
		langs = append(langs, l)
	}
	sort.Strings(langs)
	for _, l := range langs {
		for _, n := range chains[l] {
			if strings.HasPrefix(n, "?") {
				r.Bad("chains/contract", l+" chain element "+n, 0, "element of the pass chain is not a pass literal: the chain cannot be resolved statically")
			}
		}
	}
	for _, req := range c06Contract {
		for _, l := range req.langs {
			chain, ok := chains[l]
			if !ok {
				r.Undecided("anchor lost: no CompilerPasses() for language %s", l)
				continue
			}
			cons := fmt.Sprintf("%s: %s", l, req.pass)
			at := index(chain, req.pass)
			if at < 0 {
				r.Bad("chains/contract", cons, 0, fmt.Sprintf("the %s chain lacks %s, which establishes: %s", l, req.pass, req.clause))
				continue
			}
			bad := ""
			for _, before := range req.after {
				if j := index(chain, before); j > at {
					bad = before
				}
			}
			// the establishing pass must not be followed by a pass that re-creates the construct
			r.Check(bad == "", "chains/contract", cons, 0, "present, after "+strings.Join(req.after, ", ")+" — establishes: "+req.clause,
				fmt.Sprintf("in the %s chain %s runs before %s, which creates constructs/objects %s has to process: %s is not guaranteed", l, req.pass, bad, req.pass, req.clause))
		}
	}

	c06Reach(ctx, r)
	c05Visitor(ctx, r)
	c06NullableCarried(ctx, r, chains)
	c06FieldRetypeCarries(ctx, r, chains)
	c06NumericNameTest(ctx, r)
	c06EnumMemberNamesVerbatim(ctx, r)
	c06NameDecisions(ctx, r)
	c06NullUnionBothOrders(ctx, r)
	c06NullableGuardExact(ctx, r)
	c06EliminatorTotal(ctx, r)
	c06ResolveBeforeKindTest(ctx, r)
	inProgressRestored(ctx, r, []string{"internal/ast/compiler/"}, 1)
}

// child positions per container kind (field names in internal/ast)
var kindChildren = map[string][][2]string{
	"Array":        {{"ArrayType", "ValueType"}},
	"Map":          {{"MapType", "ValueType"}},
	"Struct":       {{"StructType", "Fields"}},
	"Disjunction":  {{"DisjunctionType", "Branches"}},
	"Intersection": {{"IntersectionType", "Branches"}},
}

func c06Reach(ctx *Ctx, r *Report) {
	pkg := ctx.Pkg("internal/ast/compiler")
	if pkg == nil {
		r.Undecided("package internal/ast/compiler not found")
		return
	}
	info := pkg.TypesInfo
	vm, _ := visitorMethods(ctx)
	establishing := map[string]bool{}
	for _, req := range c06Contract {
		establishing[req.pass] = true
	}
	eng := newEffectsEngine(ctx)
	passes := allPasses(ctx, eng)
	visitorT := ctx.LookupType("internal/ast/compiler", "Visitor")

	for _, p := range passes {
		pname := p.named.Obj().Name()
		if !establishing[pname] {
			continue
		}
		// (a) visitor-based: callbacks registered in a Visitor literal inside Process
		usesVisitor := false
		for _, fd := range methodsOf(ctx, p.named) {
			ast.Inspect(fd.Body, func(n ast.Node) bool {
				lit, ok := n.(*ast.CompositeLit)
				if !ok || namedOf(info.TypeOf(lit)) != visitorT {
					return true
				}
				usesVisitor = true
				for _, el := range lit.Elts {
					kv, ok := el.(*ast.KeyValueExpr)
					if !ok {
						continue
					}
					key := exprString(kv.Key)
					kind := strings.TrimPrefix(key, "On")
					children, isContainer := kindChildren[kind]
					if !isContainer && key != "OnStructField" && key != "OnObject" {
						continue
					}
					// resolve the callback body
					var body *ast.BlockStmt
					var cbName string
					var typeParam types.Object
					switch v := ast.Unparen(kv.Value).(type) {
					case *ast.FuncLit:
						body, cbName = v.Body, pname+"."+key+" (literal)"
						typeParam = lastParamObj(info, v.Type)
					case *ast.SelectorExpr:
						if sel := info.Selections[v]; sel != nil {
							if m, ok := sel.Obj().(*types.Func); ok {
								if mfd, _ := ctx.DeclOf(m); mfd != nil {
									body, cbName = mfd.Body, pname+"."+m.Name()
									typeParam = lastParamObj(info, mfd.Type)
								}
							}
						}
					}
					if body == nil {
						r.Bad("traverse/reach", pname+" "+key, kv.Pos(), "callback is not a method value or literal: reach cannot be established")
						continue
					}
					r.Count("container callbacks of establishing passes", 1)
					// does the callback re-enter the visitor on the node's children?
					reenters := false
					ast.Inspect(body, func(m ast.Node) bool {
						call, ok := m.(*ast.CallExpr)
						if !ok {
							return true
						}
						if fn := callee(info, call); fn != nil {
							if _, isVisit := vm[fn]; isVisit {
								for _, a := range call.Args {
									if derivesFromParam(info, a, typeParam, body) {
										reenters = true
									}
								}
							}
						}
						return true
					})
					_ = children
					r.Check(reenters, "traverse/reach", cbName+" re-enters the visitor", kv.Pos(),
						"the callback hands the children of the node back to the visitor: nested occurrences are reached",
						fmt.Sprintf("%s replaces the default traversal of %s nodes but never passes their children to a Visit* method: an occurrence nested inside a %s (e.g. inside an array that is a union branch) is never rewritten, so the normal form this pass establishes does not hold at depth", cbName, strings.ToLower(kind), strings.ToLower(kind)))
				}
				return true
			})
		}
		if usesVisitor {
			continue
		}
		// (b) hand-rolled recursion: find the recursive function over ast.Type
		c06HandRolled(ctx, r, p, info)
	}
	r.Floor("container callbacks of establishing passes", 3)
}

func lastParamObj(info *types.Info, ft *ast.FuncType) types.Object {
	if ft.Params == nil || len(ft.Params.List) == 0 {
		return nil
	}
	last := ft.Params.List[len(ft.Params.List)-1]
	if len(last.Names) == 0 {
		return nil
	}
	return info.Defs[last.Names[len(last.Names)-1]]
}

func derivesFromParam(info *types.Info, e ast.Expr, param types.Object, body ast.Node) bool {
	if param == nil {
		return false
	}
	return derivesFrom(info, e, param, body) || func() bool {
		// range variables over the parameter's children
		found := false
		ast.Inspect(body, func(n ast.Node) bool {
			rs, ok := n.(*ast.RangeStmt)
			if !ok {
				return true
			}
			if !mentionsAny(info, rs.X, map[types.Object]bool{param: true}) {
				return true
			}
			for _, v := range []ast.Expr{rs.Key, rs.Value} {
				if id, ok := v.(*ast.Ident); ok {
					if mentionsAny(info, e, map[types.Object]bool{objOf(info, id): true}) {
						found = true
					}
				}
			}
			return true
		})
		return found
	}()
}

// required container kinds for the hand-rolled recursions
var c06HandRolledKinds = map[string][]string{
	"AnonymousStructsToNamed":     {"Array", "Map", "Disjunction", "Struct"}, // intersections exempt: "every struct outside an allOf composition"
	"AnonymousEnumToExplicitType": {"Array", "Map", "Disjunction", "Struct", "Intersection"},
}

func c06HandRolled(ctx *Ctx, r *Report, p passInfo, info *types.Info) {
	pname := p.named.Obj().Name()
	required, ok := c06HandRolledKinds[pname]
	if !ok {
		// object-level passes (PrefixEnumValues, RenameNumericEnumValues) rely on chain order only
		r.OK("traverse/reach", pname+" (object-level pass)", p.process.Pos(), "works on named objects only; nested occurrences are excluded by the chain order checked above")
		return
	}
	typeT := ctx.LookupType("internal/ast", "Type")
	// dispatcher: a method with an ast.Type parameter containing >= 3 `def.Is<Kind>()` tests
	var dispatcher *ast.FuncDecl
	var dispObj *types.Func
	most := 0
	for _, fd := range methodsOf(ctx, p.named) {
		tests := 0
		ast.Inspect(fd.Body, func(n ast.Node) bool {
			if c, ok := n.(*ast.CallExpr); ok {
				if fn := callee(info, c); fn != nil && fn.Pkg() != nil && fn.Pkg().Path() == astPkgPath && strings.HasPrefix(fn.Name(), "Is") {
					if sig := fn.Type().(*types.Signature); sig.Recv() != nil && namedOf(sig.Recv().Type()) == typeT {
						tests++
					}
				}
			}
			return true
		})
		// the method with the most tests: an entry point that tells a few kinds apart before handing over is not it
		if tests >= 3 && tests > most {
			most = tests
			dispatcher = fd
			dispObj, _ = info.Defs[fd.Name].(*types.Func)
		}
	}
	if dispatcher == nil {
		r.Undecided("anchor lost: kind dispatcher of %s", pname)
		return
	}
	// kind -> handler method called under `if def.Is<Kind>()`
	handlers := map[string]*types.Func{}
	for _, st := range dispatcher.Body.List {
		is, ok := st.(*ast.IfStmt)
		if !ok {
			continue
		}
		c, ok := ast.Unparen(is.Cond).(*ast.CallExpr)
		if !ok {
			continue
		}
		fn := callee(info, c)
		if fn == nil || !strings.HasPrefix(fn.Name(), "Is") {
			continue
		}
		kind := strings.TrimPrefix(fn.Name(), "Is")
		ast.Inspect(is.Body, func(n ast.Node) bool {
			if hc, ok := n.(*ast.CallExpr); ok {
				if h := callee(info, hc); h != nil {
					if hfd, _ := ctx.DeclOf(h); hfd != nil && handlers[kind] == nil {
						handlers[kind] = h
					}
				}
			}
			return true
		})
	}
	for _, kind := range required {
		r.Count("hand-rolled recursion obligations", 1)
		cons := fmt.Sprintf("%s handles %s", ctx.FuncName(dispObj), kind)
		h := handlers[kind]
		if h == nil {
			r.Bad("traverse/reach", cons, dispatcher.Pos(), fmt.Sprintf("the recursion of %s has no case for %s types: a construct nested inside a %s is never reached, so the normal form does not hold at depth", pname, strings.ToLower(kind), strings.ToLower(kind)))
			continue
		}
		hfd, _ := ctx.DeclOf(h)
		// the handler must call the dispatcher on each child position of the kind
		childFields := map[*types.Var]bool{}
		for _, cf := range kindChildren[kind] {
			if f := astField(ctx, cf[0], cf[1]); f != nil {
				childFields[f] = true
			}
		}
		recursed := false
		filtered := ""
		var filteredAt token.Pos
		hparents := parentMap(hfd)
		ranges := map[types.Object]ast.Expr{}
		ast.Inspect(hfd.Body, func(n ast.Node) bool {
			if rs, ok := n.(*ast.RangeStmt); ok {
				if id, ok := rs.Value.(*ast.Ident); ok {
					ranges[objOf(info, id)] = rs.X
				}
			}
			// tools.Map(children, func(x) { return dispatcher(x) })
			if c, ok := n.(*ast.CallExpr); ok {
				if fn := callee(info, c); fn != nil && funcIs(fn, toolsPkgPath, "Map") && len(c.Args) == 2 {
					if fl, ok := ast.Unparen(c.Args[1]).(*ast.FuncLit); ok && len(fl.Type.Params.List) == 1 && len(fl.Type.Params.List[0].Names) == 1 {
						ranges[info.Defs[fl.Type.Params.List[0].Names[0]]] = c.Args[0]
					}
				}
			}
			return true
		})
		ast.Inspect(hfd.Body, func(n ast.Node) bool {
			c, ok := n.(*ast.CallExpr)
			if !ok || callee(info, c) != dispObj {
				return true
			}
			for _, a := range c.Args {
				e := ast.Unparen(a)
				// field.Type of a ranged struct field, or the ranged branch itself
				for hop := 0; hop < 3; hop++ {
					ap := accessPathOf(info, e)
					if !ap.ok {
						break
					}
					for _, sp := range ap.steps {
						if sp.field != nil && childFields[sp.field] {
							recursed = true
							if why := conditionalIn(info, hparents, hfd, c); why != "" && filtered == "" {
								filtered = why
								filteredAt = c.Pos()
							}
						}
					}
					if rx, isRange := ranges[ap.root]; isRange {
						e = rx
						continue
					}
					break
				}
			}
			return true
		})
		r.Check(recursed, "traverse/reach", cons, hfd.Pos(), "the handler recurses into the kind's children",
			fmt.Sprintf("the %s handler of %s does not call the recursion on the %s's children: nested occurrences are not reached", strings.ToLower(kind), pname, strings.ToLower(kind)))
		if recursed {
			if filtered == "" {
				filteredAt = hfd.Pos()
			}
			r.Check(filtered == "", "traverse/unfiltered-descent", cons+" (every child)", filteredAt, "the recursion on the children is unconditional",
				fmt.Sprintf("the %s handler of %s only recurses into some children (%s): the others keep the construct the pass removes, so the normal form does not hold for them", strings.ToLower(kind), pname, filtered))
		}
	}
}

// conditionalIn: is the call control-dependent on a condition inside fd — an enclosing if / switch / select, or an earlier
// statement of an enclosing block that may leave it (if … { continue / break / return })? Returns a description, "" if not.
func conditionalIn(info *types.Info, parents map[ast.Node]ast.Node, fd *ast.FuncDecl, call ast.Node) string {
	var child ast.Node = call
	for n := parents[call]; n != nil; child, n = n, parents[n] {
		switch x := n.(type) {
		case *ast.IfStmt:
			if child != ast.Node(x.Init) && child != ast.Node(x.Cond) {
				return "under `if " + exprString(x.Cond) + "`"
			}
		case *ast.CaseClause, *ast.CommClause:
			return "in a case of a switch"
		case *ast.BinaryExpr:
			if (x.Op == token.LAND || x.Op == token.LOR) && child == ast.Node(x.Y) {
				return "as the right operand of " + x.Op.String()
			}
		case *ast.BlockStmt:
			for _, st := range x.List {
				if st.Pos() >= child.Pos() {
					break
				}
				if is, ok := st.(*ast.IfStmt); ok {
					leaves := false
					ast.Inspect(is, func(q ast.Node) bool {
						switch b := q.(type) {
						case *ast.FuncLit:
							return false
						case *ast.BranchStmt:
							if b.Tok == token.CONTINUE || b.Tok == token.BREAK || b.Tok == token.GOTO {
								leaves = true
							}
						case *ast.ReturnStmt:
							leaves = true
						}
						return true
					})
					if leaves {
						return "after `if " + exprString(is.Cond) + " { … }` which leaves the block"
					}
				}
			}
		case *ast.FuncDecl:
			return ""
		}
		if n == ast.Node(fd) {
			break
		}
	}
	return ""
}

// c06NullableCarried: once NotRequiredFieldAsNullableType has run, a later pass
// of the chain that replaces a type by a freshly built one must carry the
// nullability of the type it replaces, otherwise "every non-required field is
// nullable" stops holding for the replaced occurrences.
func c06NullableCarried(ctx *Ctx, r *Report, chains map[string][]string) {
	pkg := ctx.Pkg("internal/ast/compiler")
	info := pkg.TypesInfo
	typeT := ctx.LookupType("internal/ast", "Type")
	nullableF := astField(ctx, "Type", "Nullable")
	later := map[string]bool{}
	for _, l := range []string{"golang", "java", "php", "python"} {
		seen := false
		for _, n := range chains[l] {
			if seen {
				later[n] = true
			}
			if n == "NotRequiredFieldAsNullableType" {
				seen = true
			}
		}
	}
	eng := newEffectsEngine(ctx)
	sites := 0
	for _, p := range allPasses(ctx, eng) {
		if !later[p.named.Obj().Name()] {
			continue
		}
		for _, fd := range methodsOf(ctx, p.named) {
			fobj, _ := info.Defs[fd.Name].(*types.Func)
			sig := fobj.Type().(*types.Signature)
			// a function replacing a type: has an ast.Type parameter and returns ast.Type first
			if sig.Results().Len() == 0 || namedOf(sig.Results().At(0).Type()) != typeT {
				continue
			}
			var param types.Object
			for i := 0; i < sig.Params().Len(); i++ {
				if namedOf(sig.Params().At(i).Type()) == typeT {
					if _, isPtr := sig.Params().At(i).Type().(*types.Pointer); !isPtr {
						param = sig.Params().At(i)
					}
				}
			}
			if param == nil {
				continue
			}
			readsParamNullable := func(n ast.Node) bool {
				found := false
				ast.Inspect(n, func(m ast.Node) bool {
					if sel, ok := m.(*ast.SelectorExpr); ok && fieldOf(info, sel) == nullableF && isIdentOf(info, sel.X, param) {
						found = true
					}
					return !found
				})
				return found
			}
			parents := parentMap(fd)
			defs := map[types.Object]ast.Expr{}
			ast.Inspect(fd.Body, func(n ast.Node) bool {
				if as, ok := n.(*ast.AssignStmt); ok && as.Tok == token.DEFINE && len(as.Lhs) == len(as.Rhs) {
					for i, l := range as.Lhs {
						if id, ok := l.(*ast.Ident); ok {
							defs[info.Defs[id]] = as.Rhs[i]
						}
					}
				}
				// `t, err := visitor.VisitType(schema, fresh)`
				if as, ok := n.(*ast.AssignStmt); ok && as.Tok == token.DEFINE && len(as.Lhs) == 2 && len(as.Rhs) == 1 {
					if id, ok := as.Lhs[0].(*ast.Ident); ok {
						defs[info.Defs[id]] = as.Rhs[0]
					}
				}
				return true
			})
			var isFreshType func(e ast.Expr) bool
			isFreshType = func(e ast.Expr) bool {
				c, ok := ast.Unparen(e).(*ast.CallExpr)
				if !ok {
					return false
				}
				fn := callee(info, c)
				if fn == nil || fn.Pkg() == nil {
					return false
				}
				// what the visitor makes of a fresh type is as fresh as that type
				if strings.HasPrefix(fn.Name(), "Visit") && fn.Pkg() == pkg.Types {
					for _, a := range c.Args {
						if namedOf(info.TypeOf(a)) == typeT && isFreshType(a) {
							return true
						}
					}
				}
				if fn.Pkg().Path() == astPkgPath && fn.Type().(*types.Signature).Recv() == nil && namedOf(fn.Type().(*types.Signature).Results().At(0).Type()) == typeT {
					return true // ast.NewRef, ast.NewScalar, ast.Any, ast.String, ...
				}
				if isCopyCall(info, c) {
					// a copy of something other than the parameter
					if sel, ok := c.Fun.(*ast.SelectorExpr); ok {
						if root := rootIdent(sel.X); root != nil && objOf(info, root) != param {
							return namedOf(info.TypeOf(c)) == typeT
						}
					}
				}
				return false
			}
			n := 0
			ast.Inspect(fd.Body, func(node ast.Node) bool {
				if fl, ok := node.(*ast.FuncLit); ok && fl != nil {
					return false
				}
				rs, ok := node.(*ast.ReturnStmt)
				if !ok || len(rs.Results) == 0 {
					return true
				}
				res := ast.Unparen(rs.Results[0])
				var retObj types.Object
				var ctor ast.Expr
				if id, ok := res.(*ast.Ident); ok {
					retObj = objOf(info, id)
					if init, ok := defs[retObj]; ok && isFreshType(init) {
						ctor = init
					}
				} else if isFreshType(res) {
					ctor = res
				}
				if ctor == nil {
					return true
				}
				n++
				sites++
				carried := ""
				// (a) <ret>.Nullable = … derived from the parameter's nullability (or constant true)
				if retObj != nil {
					ast.Inspect(fd.Body, func(m ast.Node) bool {
						as, ok := m.(*ast.AssignStmt)
						if !ok {
							return true
						}
						for i, l := range as.Lhs {
							sel, ok := ast.Unparen(l).(*ast.SelectorExpr)
							if !ok || fieldOf(info, sel) != nullableF || !isIdentOf(info, sel.X, retObj) || i >= len(as.Rhs) {
								continue
							}
							// the assignment must belong to the same block nest as this return (sibling paths each need their own)
							if !sameBranch(parents, as, rs) {
								continue
							}
							if readsParamNullable(as.Rhs[i]) {
								carried = "result.Nullable is assigned from the replaced type's Nullable"
							}
							conds := enclosingConds(parents, as)
							if len(conds) == 0 {
								if tv := info.Types[as.Rhs[i]]; tv.Value != nil && tv.Value.String() == "true" {
									carried = "result is made nullable unconditionally"
								}
							}
							for _, c := range conds {
								if readsParamNullable(c.stmt.Cond) {
									carried = "result.Nullable is set under a condition on the replaced type's Nullable"
								}
							}
						}
						return true
					})
				}
				// (b) options slice carrying ast.Nullable() under a condition on the parameter
				if cc, ok := ast.Unparen(ctor).(*ast.CallExpr); ok && carried == "" {
					for _, a := range cc.Args {
						id, ok := ast.Unparen(a).(*ast.Ident)
						if !ok {
							continue
						}
						opts := objOf(info, id)
						ast.Inspect(fd.Body, func(m ast.Node) bool {
							as, ok := m.(*ast.AssignStmt)
							if !ok || len(as.Lhs) != 1 || !isIdentOf(info, as.Lhs[0], opts) {
								return true
							}
							mentionsNullableOpt := false
							ast.Inspect(as.Rhs[0], func(k ast.Node) bool {
								if c, ok := k.(*ast.CallExpr); ok {
									if fn := callee(info, c); fn != nil && fn.Name() == "Nullable" && fn.Pkg() != nil && fn.Pkg().Path() == astPkgPath {
										mentionsNullableOpt = true
									}
								}
								return true
							})
							if !mentionsNullableOpt {
								return true
							}
							for _, c := range enclosingConds(parents, as) {
								if readsParamNullable(c.stmt.Cond) {
									carried = "ast.Nullable() is added to the constructor options under a condition on the replaced type's Nullable"
								}
							}
							return true
						})
					}
				}
				cons := fmt.Sprintf("%s replacement #%d", ctx.FuncName(fobj), n)
				r.Check(carried != "", "traverse/nullable-carried", cons, rs.Pos(), carried,
					fmt.Sprintf("%s returns a freshly built type (%s) in place of the visited one without carrying its Nullable flag: a non-required field (made nullable earlier in the chain) stops being nullable when this rewrite applies", ctx.FuncName(fobj), exprString(ctor)))
				return true
			})
		}
	}
	r.Count("type replacements after NotRequiredFieldAsNullableType", sites)
	r.Floor("type replacements after NotRequiredFieldAsNullableType", 4)
}

// sameBranch: the assignment is on the straight-line path to the return — every
// block enclosing the assignment (up to the function body) also encloses the return, or the
// assignment sits in a conditional directly preceding it in the same block.
func sameBranch(parents map[ast.Node]ast.Node, as ast.Node, rs ast.Node) bool {
	// innermost block of the return
	retBlocks := map[ast.Node]bool{}
	for p := parents[rs]; p != nil; p = parents[p] {
		if _, ok := p.(*ast.BlockStmt); ok {
			retBlocks[p] = true
		}
	}
	// walk up from the assignment: skip the if-statement(s) that merely guard it; the first
	// block that is not an if-body must enclose the return
	for p := parents[as]; p != nil; p = parents[p] {
		blk, ok := p.(*ast.BlockStmt)
		if !ok {
			continue
		}
		if _, isIfBody := parents[blk].(*ast.IfStmt); isIfBody {
			if retBlocks[blk] {
				return true
			}
			continue
		}
		return retBlocks[blk]
	}
	return false
}

// c06NameDecisions: the three clauses about enum member names ("prefixed", "never purely numeric", "sanitised") are
// statements about names of *all* enums. In the passes that establish them, whether a member is renamed may depend on the
// member's name only: every condition that controls a write to EnumValue.Name (enclosing if, earlier `if … { continue }`)
// reads nothing of the member but .Name. A condition on the member's type or value exempts some enums from the clause.
func c06NameDecisions(ctx *Ctx, r *Report) {
	pkg := ctx.Pkg("internal/ast/compiler")
	enumValueT := ctx.LookupType("internal/ast", "EnumValue")
	if pkg == nil || enumValueT == nil {
		r.Undecided("anchor lost: internal/ast/compiler or ast.EnumValue")
		return
	}
	info := pkg.TypesInfo
	// PrefixEnumValues names string members after their value on purpose ("" → None): its decision reads Value and Type in
	// enumMemberNameFromValue, but the prefix itself is applied unconditionally — checked as such.
	for _, pname := range []string{"PrefixEnumValues", "RenameNumericEnumValues", "SanitizeEnumMemberNames"} {
		nt := ctx.LookupType("internal/ast/compiler", pname)
		if nt == nil {
			r.Undecided("anchor lost: pass %s", pname)
			continue
		}
		writes := 0
		for _, fd := range methodsOf(ctx, nt) {
			fobj, _ := info.Defs[fd.Name].(*types.Func)
			parents := parentMap(fd)
			check := func(at ast.Node, what string) {
				writes++
				bad := ""
				for _, ctl := range controllingIfs(parents, fd, at) {
					for _, e := range []ast.Node{ctl.Init, ctl.Cond} {
						if e == nil || bad != "" {
							continue
						}
						ast.Inspect(e, func(q ast.Node) bool {
							switch x := q.(type) {
							case *ast.SelectorExpr:
								if namedOf(info.TypeOf(x.X)) == enumValueT && x.Sel.Name != "Name" {
									bad = exprString(x) + " in `" + exprString(ctl.Cond) + "`"
								}
							case *ast.CallExpr:
								for _, a := range x.Args {
									if namedOf(info.TypeOf(a)) == enumValueT {
										bad = "the whole member handed to " + exprString(x.Fun) + " in `" + exprString(ctl.Cond) + "`"
									}
								}
							}
							return bad == ""
						})
					}
				}
				if pname == "PrefixEnumValues" && bad == "" && len(controllingIfs(parents, fd, at)) > 0 {
					bad = "a condition (`" + exprString(controllingIfs(parents, fd, at)[0].Cond) + "`)"
				}
				r.Check(bad == "", "normalform/name-only-decision", fmt.Sprintf("%s %s #%d", ctx.FuncName(fobj), what, writes), at.Pos(), "whether the member is renamed depends on its name only",
					fmt.Sprintf("%s decides whether a member is renamed from %s: enums for which that differs keep names the clause excludes for every enum (the property is stated for all enums, string enums with digit-only member names included)", ctx.FuncName(fobj), bad))
			}
			ast.Inspect(fd.Body, func(m ast.Node) bool {
				switch x := m.(type) {
				case *ast.AssignStmt:
					for _, l := range x.Lhs {
						if s, ok := ast.Unparen(l).(*ast.SelectorExpr); ok && s.Sel.Name == "Name" && namedOf(info.TypeOf(s.X)) == enumValueT {
							// writes in helper functions that take the member by value and return it are controlled by their callers too; the
							// helper's own conditions are what matters here
							check(x, "writes "+exprString(l))
						}
					}
				case *ast.CompositeLit:
					if namedOf(info.TypeOf(x)) == enumValueT {
						for _, el := range x.Elts {
							if kv, ok := el.(*ast.KeyValueExpr); ok {
								if id, ok := kv.Key.(*ast.Ident); ok && id.Name == "Name" {
									check(x, "builds a member name")
								}
							}
						}
					}
				}
				return true
			})
		}
		r.Count("writes to enum member names in the renaming passes", writes)
	}
	r.Floor("writes to enum member names in the renaming passes", 4)
}

// controllingIfs: the if statements of fd on which `at` is control-dependent: those enclosing it (body or else) and the
// earlier ones of an enclosing block that may leave the block.
func controllingIfs(parents map[ast.Node]ast.Node, fd *ast.FuncDecl, at ast.Node) []*ast.IfStmt {
	var out []*ast.IfStmt
	var child ast.Node = at
	for n := parents[at]; n != nil; child, n = n, parents[n] {
		switch x := n.(type) {
		case *ast.IfStmt:
			if child != ast.Node(x.Init) && child != ast.Node(x.Cond) {
				out = append(out, x)
			}
		case *ast.BlockStmt:
			for _, st := range x.List {
				if st.Pos() >= child.Pos() {
					break
				}
				if is, ok := st.(*ast.IfStmt); ok {
					leaves := false
					ast.Inspect(is, func(q ast.Node) bool {
						switch b := q.(type) {
						case *ast.FuncLit:
							return false
						case *ast.BranchStmt:
							leaves = leaves || b.Tok == token.CONTINUE || b.Tok == token.BREAK || b.Tok == token.GOTO
						case *ast.ReturnStmt:
							leaves = true
						}
						return true
					})
					if leaves {
						out = append(out, is)
					}
				}
			}
		}
		if n == ast.Node(fd) {
			break
		}
	}
	return out
}

// c06NullUnionBothOrders: "no two-branch `T | null` union remains" — unions are not ordered, `null | T` is the same
// union. The early exits of DisjunctionWithNullToOptional.processDisjunction ("not my case: hand the type back") are
// evaluated, three-valued, for a two-branch union whose first / second branch is null: neither may be sent back for sure.
// Atoms understood: len(….Branches) against a constant, ….HasNullType(), ….Branches[k].IsNull(), len(v) against a
// constant with v := ….NonNullTypes(), def.IsDisjunction(); anything else is unknown (and never makes the rule fire).
func c06NullUnionBothOrders(ctx *Ctx, r *Report) {
	pkg := ctx.Pkg("internal/ast/compiler")
	nt := ctx.LookupType("internal/ast/compiler", "DisjunctionWithNullToOptional")
	if pkg == nil || nt == nil {
		r.Undecided("anchor lost: DisjunctionWithNullToOptional")
		return
	}
	info := pkg.TypesInfo
	var fd *ast.FuncDecl
	for _, m := range methodsOf(ctx, nt) {
		if m.Name.Name == "processDisjunction" {
			fd = m
		}
	}
	if fd == nil {
		r.Undecided("anchor lost: DisjunctionWithNullToOptional.processDisjunction")
		return
	}
	// the helpers must mean what their names say: a loop over the receiver testing IsNull
	for _, h := range []string{"HasNullType", "NonNullTypes"} {
		hm := ctx.LookupMethod("internal/ast", "Types", h)
		ok := false
		if hfd, _ := ctx.DeclOf(hm); hfd != nil {
			hasRange, hasNull := false, false
			ast.Inspect(hfd.Body, func(q ast.Node) bool {
				if _, isR := q.(*ast.RangeStmt); isR {
					hasRange = true
				}
				if s, isS := q.(*ast.SelectorExpr); isS && s.Sel.Name == "IsNull" {
					hasNull = true
				}
				return true
			})
			ok = hasRange && hasNull
		}
		if !ok {
			r.Undecided("anchor lost: ast.Types.%s is no longer a loop over the branches testing IsNull", h)
			return
		}
	}
	var typeParam types.Object
	for _, f := range fd.Type.Params.List {
		for _, nm := range f.Names {
			if namedOf(info.TypeOf(nm)) == ctx.LookupType("internal/ast", "Type") {
				typeParam = info.Defs[nm]
			}
		}
	}
	nonNullVars := map[types.Object]bool{}
	ast.Inspect(fd.Body, func(q ast.Node) bool {
		if as, ok := q.(*ast.AssignStmt); ok && len(as.Lhs) == 1 && len(as.Rhs) == 1 {
			if c, ok := ast.Unparen(as.Rhs[0]).(*ast.CallExpr); ok {
				if fn := callee(info, c); fn != nil && fn.Name() == "NonNullTypes" {
					if id, ok := as.Lhs[0].(*ast.Ident); ok {
						nonNullVars[objOf(info, id)] = true
					}
				}
			}
		}
		return true
	})
	const (
		F = 0
		T = 1
		U = 2
	)
	cmp := func(op token.Token, a, b int64) int {
		res := false
		switch op {
		case token.EQL:
			res = a == b
		case token.NEQ:
			res = a != b
		case token.LSS:
			res = a < b
		case token.LEQ:
			res = a <= b
		case token.GTR:
			res = a > b
		case token.GEQ:
			res = a >= b
		default:
			return U
		}
		if res {
			return T
		}
		return F
	}
	var eval func(e ast.Expr, null [2]bool) int
	eval = func(e ast.Expr, null [2]bool) int {
		e = ast.Unparen(e)
		switch x := e.(type) {
		case *ast.UnaryExpr:
			if x.Op == token.NOT {
				switch eval(x.X, null) {
				case T:
					return F
				case F:
					return T
				}
			}
			return U
		case *ast.BinaryExpr:
			switch x.Op {
			case token.LAND:
				a, b := eval(x.X, null), eval(x.Y, null)
				if a == F || b == F {
					return F
				}
				if a == T && b == T {
					return T
				}
				return U
			case token.LOR:
				a, b := eval(x.X, null), eval(x.Y, null)
				if a == T || b == T {
					return T
				}
				if a == F && b == F {
					return F
				}
				return U
			}
			// len(X) op const
			if c, ok := ast.Unparen(x.X).(*ast.CallExpr); ok {
				if id, ok := c.Fun.(*ast.Ident); ok && id.Name == "len" && len(c.Args) == 1 {
					tv, isConst := info.Types[x.Y]
					if !isConst || tv.Value == nil {
						return U
					}
					k, exact := constantInt64(tv)
					if !exact {
						return U
					}
					arg := ast.Unparen(c.Args[0])
					if s, ok := arg.(*ast.SelectorExpr); ok && s.Sel.Name == "Branches" {
						return cmp(x.Op, 2, k)
					}
					if aid, ok := arg.(*ast.Ident); ok && nonNullVars[objOf(info, aid)] {
						n := int64(0)
						for _, b := range null {
							if !b {
								n++
							}
						}
						return cmp(x.Op, n, k)
					}
				}
			}
			return U
		case *ast.CallExpr:
			fn := callee(info, x)
			sel, _ := x.Fun.(*ast.SelectorExpr)
			if fn == nil || sel == nil {
				return U
			}
			switch fn.Name() {
			case "HasNullType":
				if null[0] || null[1] {
					return T
				}
				return F
			case "IsDisjunction":
				if id, ok := ast.Unparen(sel.X).(*ast.Ident); ok && objOf(info, id) == typeParam {
					return T
				}
			case "IsNull":
				if ix, ok := ast.Unparen(sel.X).(*ast.IndexExpr); ok {
					if tv, ok := info.Types[ix.Index]; ok && tv.Value != nil {
						if k, exact := constantInt64(tv); exact && (k == 0 || k == 1) {
							if s, ok := ast.Unparen(ix.X).(*ast.SelectorExpr); ok && s.Sel.Name == "Branches" {
								if null[k] {
									return T
								}
								return F
							}
						}
					}
				}
			}
		}
		return U
	}
	c06NullUnionRemainder(ctx, r, info, fd, typeParam, nonNullVars)
	for _, c := range []struct {
		name string
		null [2]bool
	}{{"T | null", [2]bool{false, true}}, {"null | T", [2]bool{true, false}}} {
		sentBack := ""
		var at token.Pos = fd.Pos()
		for _, st := range fd.Body.List {
			is, ok := st.(*ast.IfStmt)
			if !ok || is.Else != nil || len(is.Body.List) == 0 {
				continue
			}
			ret, ok := is.Body.List[len(is.Body.List)-1].(*ast.ReturnStmt)
			if !ok || len(ret.Results) == 0 {
				continue
			}
			if id, ok := ast.Unparen(ret.Results[0]).(*ast.Ident); !ok || objOf(info, id) != typeParam {
				continue
			}
			if eval(is.Cond, c.null) == T {
				sentBack, at = exprString(is.Cond), is.Pos()
				break
			}
		}
		r.Count("branch orders of `T | null` evaluated against the pass's early exits", 1)
		r.Check(sentBack == "", "normalform/null-union-both-orders", "DisjunctionWithNullToOptional rewrites "+c.name, at, "no early exit sends this union back unchanged",
			fmt.Sprintf("for a two-branch union written `%s`, the exit `if %s { return <the type unchanged> }` is taken: the union stays in the IR (Python, PHP) or is wrapped into an object instead of becoming an optional T (Go, Java)", c.name, sentBack))
	}
}

// the type that remains is taken from the non-null branches, not from a position
func c06NullUnionRemainder(ctx *Ctx, r *Report, info *types.Info, fd *ast.FuncDecl, typeParam types.Object, nonNullVars map[types.Object]bool) {
	n := 0
	for _, st := range fd.Body.List {
		ret, ok := st.(*ast.ReturnStmt)
		if !ok || len(ret.Results) == 0 {
			continue
		}
		id, ok := ast.Unparen(ret.Results[0]).(*ast.Ident)
		if !ok || objOf(info, id) == typeParam {
			continue
		}
		var def ast.Expr
		ast.Inspect(fd.Body, func(q ast.Node) bool {
			if as, ok := q.(*ast.AssignStmt); ok && as.Tok == token.DEFINE && len(as.Lhs) == 1 && len(as.Rhs) == 1 {
				if l, ok := as.Lhs[0].(*ast.Ident); ok && info.Defs[l] == objOf(info, id) {
					def = as.Rhs[0]
				}
			}
			return true
		})
		n++
		good := false
		if ix, ok := ast.Unparen(def).(*ast.IndexExpr); ok {
			switch x := ast.Unparen(ix.X).(type) {
			case *ast.Ident:
				good = nonNullVars[objOf(info, x)]
			case *ast.CallExpr:
				if fn := callee(info, x); fn != nil && fn.Name() == "NonNullTypes" {
					good = true
				}
			}
		}
		what := "?"
		if def != nil {
			what = exprString(def)
		}
		r.Check(good, "normalform/null-union-both-orders", "DisjunctionWithNullToOptional keeps the non-null branch", ret.Pos(), "the remaining type is an element of NonNullTypes()",
			fmt.Sprintf("the type returned in place of `T | null` is %s, not an element of NonNullTypes(): for one of the two branch orders the pass keeps `null` and drops T", what))
	}
	r.Count("results of DisjunctionWithNullToOptional traced to the non-null branches", n)
	r.Floor("results of DisjunctionWithNullToOptional traced to the non-null branches", 1)
}

func constantInt64(tv types.TypeAndValue) (int64, bool) {
	if tv.Value == nil {
		return 0, false
	}
	return constant.Int64Val(tv.Value)
}

// c06NullableGuardExact: "every non-required field is nullable" — NotRequiredFieldAsNullableType must set Nullable for
// every field that is not required: the statement that does it may only be conditioned on the field's Required and
// Nullable. Any further condition (the field has a default, is of some kind, …) exempts fields from the clause; for Go
// an exempted optional field is a plain value with `omitempty`, so its zero value (0, false, "") disappears on encoding.
func c06NullableGuardExact(ctx *Ctx, r *Report) {
	nt := ctx.LookupType("internal/ast/compiler", "NotRequiredFieldAsNullableType")
	pkg := ctx.Pkg("internal/ast/compiler")
	if nt == nil || pkg == nil {
		r.Undecided("anchor lost: NotRequiredFieldAsNullableType")
		return
	}
	info := pkg.TypesInfo
	n := 0
	for _, fd := range methodsOf(ctx, nt) {
		fobj, _ := info.Defs[fd.Name].(*types.Func)
		parents := parentMap(fd)
		ast.Inspect(fd.Body, func(m ast.Node) bool {
			as, ok := m.(*ast.AssignStmt)
			if !ok || len(as.Lhs) != 1 {
				return true
			}
			sel, ok := ast.Unparen(as.Lhs[0]).(*ast.SelectorExpr)
			if !ok || sel.Sel.Name != "Nullable" {
				return true
			}
			n++
			bad := ""
			for _, ctl := range controllingIfs(parents, fd, as) {
				// error exits (`if err != nil { return }`) are not conditions on the field
				if condTestsNonNilAny(info, ctl.Cond) {
					continue
				}
				ast.Inspect(ctl.Cond, func(q ast.Node) bool {
					if s, ok := q.(*ast.SelectorExpr); ok {
						switch s.Sel.Name {
						case "Required", "Nullable", "Type":
							// … of the field being processed, not of something looked up from it
							if ap := accessPathOf(info, s); ap.ok && ap.root != nil && !rootIsStructField(ap.root) && bad == "" {
								bad = exprString(s) + " (not a property of the field itself)"
							}
						default:
							if bad == "" {
								bad = exprString(s)
							}
						}
					}
					if c, ok := q.(*ast.CallExpr); ok && bad == "" {
						bad = exprString(c)
					}
					return true
				})
			}
			r.Check(bad == "", "normalform/nullable-guard-exact", ctx.FuncName(fobj)+" sets Nullable", as.Pos(), "only Required and Nullable of the field decide",
				fmt.Sprintf("%s makes a non-required field nullable only when %s also allows it: the other non-required fields stay plain values (Go: `T` with omitempty — a document giving them the zero value is re-encoded without the property)", ctx.FuncName(fobj), bad))
			return true
		})
	}
	r.Count("statements of NotRequiredFieldAsNullableType setting Nullable", n)
	r.Floor("statements of NotRequiredFieldAsNullableType setting Nullable", 1)
}

func condTestsNonNilAny(info *types.Info, cond ast.Expr) bool {
	be, ok := ast.Unparen(cond).(*ast.BinaryExpr)
	if !ok || be.Op != token.NEQ {
		return false
	}
	if !(isNilIdent(info, be.Y) || isNilIdent(info, be.X)) {
		return false
	}
	for _, e := range []ast.Expr{be.X, be.Y} {
		if t := info.TypeOf(e); t != nil && t.String() == "error" {
			return true
		}
	}
	return false
}

func rootIsStructField(o types.Object) bool {
	t := namedOf(o.Type())
	return t != nil && t.Obj().Name() == "StructField"
}

// c06EliminatorTotal: DisjunctionToType establishes "no union type remains" for Go and Java: its OnDisjunction callback
// must never hand the union it received back on a success path (`return def, nil`). Any such exit — "nothing to choose
// from", "already fine" — leaves a union in the IR the Go and Java jennies have no case for.
func c06EliminatorTotal(ctx *Ctx, r *Report) {
	pkg := ctx.Pkg("internal/ast/compiler")
	nt := ctx.LookupType("internal/ast/compiler", "DisjunctionToType")
	typeT := ctx.LookupType("internal/ast", "Type")
	if pkg == nil || nt == nil {
		r.Undecided("anchor lost: DisjunctionToType")
		return
	}
	info := pkg.TypesInfo
	var fd *ast.FuncDecl
	for _, m := range methodsOf(ctx, nt) {
		if m.Name.Name == "processDisjunction" {
			fd = m
		}
	}
	if fd == nil {
		r.Undecided("anchor lost: DisjunctionToType.processDisjunction")
		return
	}
	// the union parameter and the variables re-bound from the visitor call on it
	unionVars := map[types.Object]bool{}
	for _, f := range fd.Type.Params.List {
		for _, nm := range f.Names {
			if namedOf(info.TypeOf(nm)) == typeT {
				unionVars[info.Defs[nm]] = true
			}
		}
	}
	n := 0
	bad := ""
	var at token.Pos = fd.Pos()
	ast.Inspect(fd.Body, func(m ast.Node) bool {
		rs, ok := m.(*ast.ReturnStmt)
		if !ok || len(rs.Results) != 2 {
			return true
		}
		n++
		if id, ok := ast.Unparen(rs.Results[0]).(*ast.Ident); ok && unionVars[objOf(info, id)] && isNilIdent(info, rs.Results[1]) && bad == "" {
			bad, at = "return "+exprString(rs.Results[0])+", nil", rs.Pos()
		}
		return true
	})
	r.Count("exits of DisjunctionToType.processDisjunction", n)
	r.Floor("exits of DisjunctionToType.processDisjunction", 3)
	r.Check(bad == "", "normalform/eliminator-total", "DisjunctionToType.processDisjunction never returns the union", at, "every successful exit returns a scalar, a reference or an error",
		"DisjunctionToType.processDisjunction has the exit `"+bad+"`: the union it was given stays in the IR — for Go and Java 'no union type remains' no longer holds (a single-branch anyOf / oneOf is enough)")
}

// c06FieldRetypeCarries: in the passes that run after NotRequiredFieldAsNullableType, a struct field whose type is
// replaced in place (`….Fields[i].Type = E`) keeps what the earlier passes established on it: E is produced from the
// old type by a method of the pass (judged by traverse/nullable-carried), or E's Nullable and Default are assigned
// from the old type before the store. A field rebuilt with ast.NewStructField in place of the ranged one loses its
// Required flag as well.
func c06FieldRetypeCarries(ctx *Ctx, r *Report, chains map[string][]string) {
	pkg := ctx.Pkg("internal/ast/compiler")
	if pkg == nil {
		r.Undecided("anchor lost: internal/ast/compiler")
		return
	}
	info := pkg.TypesInfo
	later := map[string]bool{}
	for _, l := range []string{"golang", "java", "php", "python"} {
		seen := false
		for _, n := range chains[l] {
			if seen {
				later[n] = true
			}
			if n == "NotRequiredFieldAsNullableType" {
				seen = true
			}
		}
	}
	eng := newEffectsEngine(ctx)
	sites := 0
	for _, p := range allPasses(ctx, eng) {
		if !later[p.named.Obj().Name()] {
			continue
		}
		for _, fd := range methodsOf(ctx, p.named) {
			fobj, _ := info.Defs[fd.Name].(*types.Func)
			seen := map[string]int{}
			ast.Inspect(fd.Body, func(n ast.Node) bool {
				as, ok := n.(*ast.AssignStmt)
				if !ok || len(as.Lhs) != 1 || len(as.Rhs) != 1 {
					return true
				}
				lhs := ast.Unparen(as.Lhs[0])
				fieldsIndex := func(e ast.Expr) bool {
					ix, ok := ast.Unparen(e).(*ast.IndexExpr)
					if !ok {
						return false
					}
					f := fieldOf(info, ix.X)
					return f != nil && f.Name() == "Fields"
				}
				kind := ""
				if sel, ok := lhs.(*ast.SelectorExpr); ok && sel.Sel.Name == "Type" && fieldsIndex(sel.X) {
					kind = "type"
				} else if fieldsIndex(lhs) {
					if c, ok := ast.Unparen(as.Rhs[0]).(*ast.CallExpr); ok {
						if fn := callee(info, c); fn != nil && fn.Name() == "NewStructField" {
							kind = "field"
						}
					}
				}
				if kind == "" {
					return true
				}
				sites++
				key := ctx.FuncName(fobj) + " replaces " + exprString(lhs)
				seen[key]++
				cons := key
				if seen[key] > 1 {
					cons = fmt.Sprintf("%s #%d", key, seen[key])
				}
				if kind == "field" {
					keeps := strings.Contains(exprString(as.Rhs[0]), "Required")
					r.Check(keeps, "traverse/retyped-field-keeps-flags", cons, as.Pos(), "the rebuilt field is given the Required flag of the old one",
						"the field is rebuilt with ast.NewStructField in place of the one being visited: Required, Type.Nullable, Type.Default and the field's trail are those of a brand-new field — a non-required field made nullable earlier in the chain stops being nullable, a required one becomes optional")
					return true
				}
				rhs := ast.Unparen(as.Rhs[0])
				why := ""
				if c, ok := rhs.(*ast.CallExpr); ok {
					if fn := callee(info, c); fn != nil {
						if sig, _ := fn.Type().(*types.Signature); sig != nil && sig.Recv() != nil && namedOf(sig.Recv().Type()) == p.named {
							why = "produced from the old type by " + fn.Name() + " (its replacements are judged by traverse/nullable-carried)"
						}
						if fn.Name() == "DeepCopy" {
							why = "a copy of a whole type given by the configuration"
						}
					}
				}
				if id, ok := rhs.(*ast.Ident); ok && why == "" {
					obj := objOf(info, id)
					nullable, deflt := false, false
					ast.Inspect(fd.Body, func(k ast.Node) bool {
						a2, ok := k.(*ast.AssignStmt)
						if !ok || len(a2.Lhs) != 1 || len(a2.Rhs) != 1 {
							return true
						}
						s, ok := ast.Unparen(a2.Lhs[0]).(*ast.SelectorExpr)
						if !ok || !isIdentOf(info, s.X, obj) {
							return true
						}
						src := exprString(a2.Rhs[0])
						if s.Sel.Name == "Nullable" && strings.HasSuffix(src, ".Nullable") {
							nullable = true
						}
						if s.Sel.Name == "Default" && strings.HasSuffix(src, ".Default") {
							deflt = true
						}
						return true
					})
					if nullable && deflt {
						why = "Nullable and Default are copied onto the new type before the store"
					}
				}
				r.Check(why != "", "traverse/retyped-field-keeps-flags", cons, as.Pos(), why,
					"the type of the field is replaced by "+exprString(rhs)+" without the Nullable flag and the Default of the old type: a non-required field made nullable earlier in the chain stops being nullable when this rewrite applies")
				return true
			})
		}
	}
	r.Count("in-place field replacements in passes after NotRequiredFieldAsNullableType", sites)
	r.Floor("in-place field replacements in passes after NotRequiredFieldAsNullableType", 1)
}

// c06NumericNameTest: "enum member names are never purely numeric" — the pass decides what a numeric name is. A test
// through an integer parser (Atoi, ParseInt, ParseUint) leaves `1.0`, `0.5`, `1e3` and integers beyond the word size
// untouched; the decision must go through ParseFloat (or not parse at all).
func c06NumericNameTest(ctx *Ctx, r *Report) {
	nt := ctx.LookupType("internal/ast/compiler", "RenameNumericEnumValues")
	if nt == nil {
		r.Undecided("anchor lost: RenameNumericEnumValues")
		return
	}
	p := ctx.Pkg("internal/ast/compiler")
	info := p.TypesInfo
	parsers := 0
	bad := ""
	var at token.Pos
	for _, fd := range methodsOf(ctx, nt) {
		ast.Inspect(fd.Body, func(n ast.Node) bool {
			c, ok := n.(*ast.CallExpr)
			if !ok {
				return true
			}
			fn := callee(info, c)
			if fn == nil || fn.Pkg() == nil || fn.Pkg().Path() != "strconv" {
				return true
			}
			parsers++
			switch fn.Name() {
			case "Atoi", "ParseInt", "ParseUint":
				bad = "strconv." + fn.Name()
				at = c.Pos()
			}
			return true
		})
	}
	r.Count("number parsers consulted by RenameNumericEnumValues", parsers)
	r.Floor("number parsers consulted by RenameNumericEnumValues", 1)
	r.Check(bad == "", "normalform/numeric-name-test", "RenameNumericEnumValues recognises every number literal", at,
		"no integer-only parser decides what a numeric name is",
		"the pass decides that a member name is numeric with "+bad+": names such as 1.0, 0.5 or 99999999999999999999 are not integers of the word size and stay purely numeric — Python gets `1.0 = \"1.0\"` (SyntaxError), TypeScript `enum V { 10 = \"1.0\" }`")
}

// c06EnumMemberNamesVerbatim: member names are rewritten by the passes made for it (PrefixEnumValues,
// RenameNumericEnumValues, SanitizeEnumMemberNames, PrefixObjectNames), which know about signs and separators. Any
// other pass that builds an EnumValue from another one copies the name as it is: a lossy formatter applied early
// (`UpperCamelCase("-1") == "1"`) makes two members collide before the renaming pass can tell them apart.
func c06EnumMemberNamesVerbatim(ctx *Ctx, r *Report) {
	p := ctx.Pkg("internal/ast/compiler")
	enumValueT := ctx.LookupType("internal/ast", "EnumValue")
	if p == nil || enumValueT == nil {
		r.Undecided("anchor lost: compiler / ast.EnumValue")
		return
	}
	renaming := map[string]bool{"PrefixEnumValues": true, "RenameNumericEnumValues": true, "SanitizeEnumMemberNames": true, "PrefixObjectNames": true, "ConstantToEnum": true, "DisjunctionOfConstantsToEnum": true}
	info := p.TypesInfo
	n := 0
	ctx.AllFuncDecls(func(pk *packages.Package, fd *ast.FuncDecl, obj *types.Func) {
		if pk != p || fd.Body == nil || fd.Recv == nil {
			return
		}
		sig, _ := obj.Type().(*types.Signature)
		if sig == nil || sig.Recv() == nil {
			return
		}
		recv := namedOf(sig.Recv().Type())
		if recv == nil || renaming[recv.Obj().Name()] {
			return
		}
		seen := 0
		ast.Inspect(fd.Body, func(m ast.Node) bool {
			cl, ok := m.(*ast.CompositeLit)
			if !ok {
				return true
			}
			if t := info.TypeOf(cl); t == nil || namedOf(t) == nil || namedOf(t).Obj() != enumValueT.Obj() {
				return true
			}
			for _, el := range cl.Elts {
				kv, ok := el.(*ast.KeyValueExpr)
				if !ok {
					continue
				}
				if k, _ := kv.Key.(*ast.Ident); k == nil || k.Name != "Name" {
					continue
				}
				// only members built from another member
				fromMember := false
				ast.Inspect(kv.Value, func(q ast.Node) bool {
					if sel, ok := q.(*ast.SelectorExpr); ok && sel.Sel.Name == "Name" {
						if ff := fieldOf(info, sel); ff != nil && namedOf(info.TypeOf(sel.X)) != nil && namedOf(info.TypeOf(sel.X)).Obj() == enumValueT.Obj() {
							fromMember = true
						}
					}
					return true
				})
				if !fromMember {
					continue
				}
				n++
				seen++
				_, isCall := ast.Unparen(kv.Value).(*ast.CallExpr)
				cons := fmt.Sprintf("%s copies an enum member #%d", ctx.FuncName(obj), seen)
				r.Check(!isCall, "normalform/enum-member-names-verbatim", cons, kv.Pos(), "the name of the member is copied as it is",
					"the pass builds an enum member whose name is "+exprString(kv.Value)+": a formatter applied before the renaming passes loses what they need (the sign of -1, the difference between a_b and a-b) — two members get the same name and the generated Go does not compile")
			}
			return true
		})
	})
	r.Count("enum members copied by non-renaming passes", n)
	r.Floor("enum members copied by non-renaming passes", 1)
}

// c06SecondHunt — (a) the passes that walk types by hand (a `processType` method dispatching on the kind, instead of the
// shared Visitor) must descend into every container kind: array, map, disjunction, struct *and* intersection; the
// Visitor does. A walker without the intersection case leaves what an allOf branch holds untouched. (b) a sanitised
// enum member name starts with a letter: sanitizeEnumMember tests the first character for being a digit (`1m`, `5m`
// are not numbers, so RenameNumericEnumValues leaves them alone).
func c06SecondHunt(ctx *Ctx, r *Report) {
	p := ctx.Pkg("internal/ast/compiler")
	if p == nil {
		return
	}
	info := p.TypesInfo
	n := 0
	for _, file := range p.Syntax {
		for _, d := range file.Decls {
			fd, ok := d.(*ast.FuncDecl)
			if !ok || fd.Body == nil || fd.Recv == nil || fd.Name.Name != "processType" {
				continue
			}
			fobj, _ := info.Defs[fd.Name].(*types.Func)
			tests := map[string]bool{}
			ast.Inspect(fd.Body, func(m ast.Node) bool {
				if c, ok := m.(*ast.CallExpr); ok {
					if f := callee(info, c); f != nil {
						switch f.Name() {
						case "IsArray", "IsMap", "IsDisjunction", "IsStruct", "IsIntersection":
							tests[f.Name()] = true
						}
					}
				}
				return true
			})
			if len(tests) < 2 {
				continue
			}
			n++
			var missing []string
			for _, k := range []string{"IsArray", "IsMap", "IsDisjunction", "IsStruct", "IsIntersection"} {
				if !tests[k] {
					missing = append(missing, k)
				}
			}
			r.Check(len(missing) == 0, "traverse/hand-written-walker-total", ctx.FuncName(fobj)+" descends into every container kind", fd.Pos(), "array, map, disjunction, struct and intersection are all handled",
				fmt.Sprintf("%s dispatches on the kind of a type by hand and has no case for %v: what such a type holds is never visited — a struct nested in a field of an allOf branch stays anonymous (Java: `public Object opts`)", ctx.FuncName(fobj), missing))
		}
	}
	r.Count("hand-written type walkers in the compiler passes", n)
	r.Floor("hand-written type walkers in the compiler passes", 2)

	if fn := ctx.LookupMethod("internal/ast/compiler", "SanitizeEnumMemberNames", "sanitizeEnumMember"); fn == nil {
		r.Undecided("anchor lost: SanitizeEnumMemberNames.sanitizeEnumMember")
	} else {
		fd, _ := ctx.DeclOf(fn)
		digit := false
		ast.Inspect(fd.Body, func(m ast.Node) bool {
			switch x := m.(type) {
			case *ast.BasicLit:
				if x.Kind == token.CHAR && (x.Value == "'0'" || x.Value == "'9'") {
					digit = true
				}
			case *ast.CallExpr:
				if f := callee(info, x); f != nil && (f.Name() == "IsDigit" || f.Name() == "IsNumber") {
					digit = true
				}
			}
			return true
		})
		r.Count("sanitising rules for enum member names", 1)
		r.Check(digit, "normalform/sanitised-name-starts-with-letter", "SanitizeEnumMemberNames handles a leading digit", fd.Pos(), "a name starting with a digit is prefixed",
			"sanitizeEnumMember only knows the empty name and a leading sign: `1m`, `5m`, `1h` are not numbers (RenameNumericEnumValues leaves them alone) and reach PHP as `public static function 1M()`, which does not parse")
	}
}

// c06PHPStringLiterals: the PHP jenny writes strings between double quotes, where `$` starts a variable and `"`, `\`
// end or escape: (a) the formatter of values escapes `$` in strings (Go's %#v takes care of `"` and `\`); (b) the
// enum template never pastes a member name between quotes itself — what it writes inside `self::$instances[…]` goes
// through the value formatter.
func c06PHPStringLiterals(ctx *Ctx, r *Report) {
	p := ctx.Pkg("internal/jennies/php")
	fn := ctx.LookupFunc("internal/jennies/php", "formatValue")
	fd, _ := ctx.DeclOf(fn)
	if p == nil || fd == nil {
		r.Undecided("anchor lost: php.formatValue")
		return
	}
	info := p.TypesInfo
	escapes := false
	ast.Inspect(fd.Body, func(m ast.Node) bool {
		c, ok := m.(*ast.CallExpr)
		if !ok || len(c.Args) < 2 {
			return true
		}
		f := callee(info, c)
		if f == nil || f.Pkg() == nil || f.Pkg().Path() != "strings" || !strings.HasPrefix(f.Name(), "Replace") {
			return true
		}
		for _, a := range c.Args {
			if tv, ok := info.Types[a]; ok && tv.Value != nil && tv.Value.Kind() == constant.String && constant.StringVal(tv.Value) == "$" {
				escapes = true
			}
		}
		return true
	})
	r.Count("string formatters of the PHP jenny", 1)
	r.Check(escapes, "kinds/php-string-literals-escaped", "php.formatValue escapes the dollar sign", fd.Pos(), "`$` is replaced in string values",
		"php.formatValue writes strings with %#v: `\"$__interval\"` is a double-quoted PHP string in which $__interval is a variable — the enum members \"$__auto\" and \"$__interval\" both hold the empty string")
	ts, err := loadTemplates(ctx, "php")
	if err != nil {
		r.Undecided("templates of php: %v", err)
		return
	}
	n := 0
	for _, name := range ts.names() {
		if !strings.Contains(ts.file[name], "enum") {
			continue
		}
		var prev string
		raw := ""
		var visit func(l *parse.ListNode)
		visit = func(l *parse.ListNode) {
			if l == nil {
				return
			}
			for _, c := range l.Nodes {
				switch x := c.(type) {
				case *parse.TextNode:
					prev = string(x.Text)
				case *parse.ActionNode:
					// an action right after an opening double quote: a value pasted into a string by the template itself
					if strings.HasSuffix(prev, `"`) && len(x.Pipe.Cmds) == 1 && raw == "" {
						raw = x.String()
					}
					prev = ""
				case *parse.IfNode:
					visit(x.List)
					visit(x.ElseList)
				case *parse.RangeNode:
					visit(x.List)
					visit(x.ElseList)
				case *parse.WithNode:
					visit(x.List)
					visit(x.ElseList)
				}
			}
		}
		visit(ts.trees[name].Root)
		n++
		r.Check(raw == "", "kinds/php-string-literals-escaped", "php template "+name+" writes values through the formatter", token.NoPos, ts.file[name]+": no bare value is pasted between double quotes",
			ts.file[name]+": "+raw+" is pasted between double quotes as it is: a member named `say \"hi\"` or `a\\` gives `self::$instances[\"say \"hi\"\"]` — a parse error")
	}
	r.Count("PHP enum templates", n)
	r.Floor("PHP enum templates", 1)
}

// c06FourthHunt — fourth hunt:
//   - (C04 as well) RemoveIntersections replaces a reference to the alias of a list by a copy of the list and visits
//     the copy: it keeps the set of aliases being expanded and fails on the alias of a list defined in terms of itself
//     (`Tree: Nodes`, `Nodes: [...Tree]` overflowed the stack); flow/inlining-bounded (C04) asks for its bound;
//   - where members are declared next to the objects (Go: EnumIdentifier is set), EnumMemberIdentifiers compares the
//     identifier of a member with the identifiers of every object and of the members of the other enums of the schema;
//   - a named optional (`MaybeName: string | null`) reaches the generators as an object whose own type is nullable —
//     by design (DisjunctionWithNullToOptional documents it). Python: the default of a reference to such an object is
//     None (the alias can not be instantiated). (finding) Go: the builder jenny names the internal object after the
//     alias (`type MaybeAddress = *Address`, `&MaybeAddress{}`) without asking whether the object's own type is nullable.
func c06FourthHunt(ctx *Ctx, r *Report) {
	n := 0
	// (a)
	n += c06ListAliasExpandedOnce(ctx, r)
	// (b)
	if fn := ctx.LookupMethod("internal/ast/compiler", "EnumMemberIdentifiers", "Process"); fn == nil {
		r.Undecided("anchor lost: compiler.EnumMemberIdentifiers.Process")
	} else if fd, p := ctx.DeclOf(fn); fd != nil {
		info := p.TypesInfo
		named := namedOf(fn.Type().(*types.Signature).Recv().Type())
		// some method of the pass, reached from Process, fills one table with the identifiers of the objects
		// (EnumIdentifier) *and* looks the identifiers of the members (Identifier) up in it
		shared := false
		for _, mfd := range methodsOf(ctx, named) {
			tables := map[types.Object][2]bool{}
			mark := func(o types.Object, i int) {
				v := tables[o]
				v[i] = true
				tables[o] = v
			}
			isCallOfField := func(e ast.Expr, field string) bool {
				c, ok := ast.Unparen(e).(*ast.CallExpr)
				if !ok {
					return false
				}
				sel, ok := ast.Unparen(c.Fun).(*ast.SelectorExpr)
				return ok && sel.Sel.Name == field
			}
			vars := map[types.Object]string{}
			ast.Inspect(mfd.Body, func(m ast.Node) bool {
				if as, ok := m.(*ast.AssignStmt); ok && len(as.Lhs) == 1 && len(as.Rhs) == 1 {
					if id, ok := as.Lhs[0].(*ast.Ident); ok {
						if isCallOfField(as.Rhs[0], "Identifier") {
							vars[objOf(info, id)] = "member"
						}
						if isCallOfField(as.Rhs[0], "EnumIdentifier") {
							vars[objOf(info, id)] = "object"
						}
					}
				}
				return true
			})
			kindOfKey := func(e ast.Expr) string {
				if isCallOfField(e, "EnumIdentifier") {
					return "object"
				}
				if isCallOfField(e, "Identifier") {
					return "member"
				}
				if id, ok := ast.Unparen(e).(*ast.Ident); ok {
					return vars[objOf(info, id)]
				}
				return ""
			}
			ast.Inspect(mfd.Body, func(m ast.Node) bool {
				ix, ok := m.(*ast.IndexExpr)
				if !ok {
					return true
				}
				id, ok := ast.Unparen(ix.X).(*ast.Ident)
				if !ok {
					return true
				}
				if _, isMap := info.TypeOf(ix.X).Underlying().(*types.Map); !isMap {
					return true
				}
				switch kindOfKey(ix.Index) {
				case "object":
					mark(objOf(info, id), 0)
				case "member":
					mark(objOf(info, id), 1)
				}
				return true
			})
			for _, v := range tables {
				if v[0] && v[1] {
					shared = true
				}
			}
		}
		_ = fd
		n++
		r.Check(shared, "chains/enum-member-identifiers", "compiler.EnumMemberIdentifiers compares members with the other declarations of the schema", fn.Pos(), "one table holds the identifiers of the objects and those of the members",
			"EnumMemberIdentifiers compares the identifier of a member with those of its own enum only, although (EnumIdentifier set: Go) members are declared in the package block: `Sort: asc | desc | order` next to an object SortOrder gives the constant SortOrder and the type SortOrder — redeclared in this block; `Sort{order_asc}` and `SortOrder{asc}` both give SortOrderAsc")
	}
	// (c)
	if fn := ctx.LookupFunc("internal/jennies/python", "defaultValueForTypeRec"); fn == nil {
		r.Undecided("anchor lost: python.defaultValueForTypeRec")
	} else if fd, p := ctx.DeclOf(fn); fd != nil {
		info := p.TypesInfo
		asksNullable := false
		ast.Inspect(fd.Body, func(m ast.Node) bool {
			is, ok := m.(*ast.IfStmt)
			if !ok {
				return true
			}
			reads := false
			ast.Inspect(is.Cond, func(k ast.Node) bool {
				if sel, ok := k.(*ast.SelectorExpr); ok && sel.Sel.Name == "Nullable" {
					if inner, ok := ast.Unparen(sel.X).(*ast.SelectorExpr); ok && inner.Sel.Name == "Type" && namedName(info.TypeOf(inner.X)) == "Object" {
						reads = true
					}
				}
				return true
			})
			if reads {
				for _, st := range is.Body.List {
					if rs, ok := st.(*ast.ReturnStmt); ok && len(rs.Results) == 1 && isNilIdent(info, rs.Results[0]) {
						asksNullable = true
					}
				}
			}
			return true
		})
		n++
		r.Check(asksNullable, "skeleton/python-named-optional-default", "python.defaultValueForTypeRec defaults a reference to a named optional", fd.Pos(), "None when the referred object's own type is nullable",
			"the default of a reference is `Name()` whatever the referred object: `MaybeName: string | null` is a typing.Optional alias once the chain made it a nullable string — User() raises TypeError: Cannot instantiate typing.Union")
	}
	n += c06GoNamedOptionalBuilder(ctx, r)
	r.Count("hunted clauses of the normal forms (4th hunt)", n)
	r.Floor("hunted clauses of the normal forms (4th hunt)", 4)
}

// c06ListAliasExpandedOnce: see c06FourthHunt (a). Also run by C04: the run crashed.
func c06ListAliasExpandedOnce(ctx *Ctx, r *Report) int {
	n := 0
	if fn := ctx.LookupMethod("internal/ast/compiler", "RemoveIntersections", "redirectReference"); fn == nil {
		r.Undecided("anchor lost: compiler.RemoveIntersections.redirectReference")
	} else if fd, p := ctx.DeclOf(fn); fd != nil {
		info := p.TypesInfo
		// the recursive visit of the replacement is preceded by a lookup in a set, with an error exit, and a store
		var visit token.Pos
		ast.Inspect(fd.Body, func(m ast.Node) bool {
			if c, ok := m.(*ast.CallExpr); ok {
				if f := callee(info, c); f != nil && f.Name() == "VisitType" {
					visit = c.Pos()
				}
			}
			return true
		})
		guarded := false
		ast.Inspect(fd.Body, func(m ast.Node) bool {
			is, ok := m.(*ast.IfStmt)
			if !ok || !visit.IsValid() || is.Pos() > visit || len(is.Body.List) == 0 {
				return true
			}
			as, ok := is.Init.(*ast.AssignStmt)
			if !ok || len(as.Lhs) != 2 || len(as.Rhs) != 1 {
				return true
			}
			if _, isIndex := ast.Unparen(as.Rhs[0]).(*ast.IndexExpr); !isIndex {
				return true
			}
			if rs, ok := is.Body.List[len(is.Body.List)-1].(*ast.ReturnStmt); ok && len(rs.Results) == 2 && !isNilIdent(info, rs.Results[1]) {
				guarded = true
			}
			return true
		})
		n++
		r.Check(visit.IsValid() && guarded, "flow/list-alias-expanded-once", "compiler.RemoveIntersections.redirectReference visits the list it puts in place of an alias", fd.Pos(), "after looking the alias up in the set of those being expanded, with an error exit",
			"redirectReference replaces ref(Tree) by the list Tree stands for and visits it, with no memory of the aliases being expanded: `Tree: Nodes`, `Nodes: [...Tree]` — a nested list, which every other chain handles — recurses until the stack overflows (fatal error, the process dies: no error is returned)")
	}
	return n
}

// c06GoNamedOptionalBuilder: see c06FourthHunt. Also run by C16: the builder derived for an object that is a struct
// through a nullable reference is not type-correct.
func c06GoNamedOptionalBuilder(ctx *Ctx, r *Report) int {
	n := 0
	if fn := ctx.LookupMethod("internal/jennies/golang", "Builder", "generateBuilder"); fn == nil {
		r.Undecided("anchor lost: golang.Builder.generateBuilder")
	} else if fd, _ := ctx.DeclOf(fn); fd != nil {
		asks := false
		ast.Inspect(fd.Body, func(m ast.Node) bool {
			if sel, ok := m.(*ast.SelectorExpr); ok && sel.Sel.Name == "Nullable" && strings.Contains(exprString(sel.X), ".For.Type") {
				asks = true
			}
			return true
		})
		n++
		r.Check(asks, "skeleton/go-named-optional-builder", "golang.Builder.generateBuilder builds an object whose own type can be nullable", fd.Pos(), "it asks whether builder.For.Type is nullable",
			"the Go builder of `MaybeAddress: Address | null` — `type MaybeAddress = *Address` once the chain made it a nullable reference — is written as for a struct: `internal *MaybeAddress`, `&MaybeAddress{}`, `builder.internal.City` — invalid composite literal type, the module does not compile")
	}
	return n
}

// c06FifthHunt — fifth hunt of C06:
//   - a composition written in place (`item: allOf[…]`, the items of a list) reaches the jennies of the languages that
//     only know compositions as the type of an object: AnonymousStructsToNamed declares it as an object, like an anonymous
//     struct (the handler of its kind dispatcher for intersections ends in ast.NewObject);
//   - a union written in place as a branch of a union is unfolded by FlattenDisjunctions like a reference to a union;
//   - (finding) the PHP chain inlines the references to named scalars but skips the constants: the references to a
//     constant stay, and the PHP jenny writes every reference as a class name.
func c06FifthHunt(ctx *Ctx, r *Report) {
	n := 0
	// (a)
	if fn := ctx.LookupMethod("internal/ast/compiler", "AnonymousStructsToNamed", "processType"); fn == nil {
		r.Undecided("anchor lost: compiler.AnonymousStructsToNamed.processType")
	} else if fd, p := ctx.DeclOf(fn); fd != nil {
		info := p.TypesInfo
		declares := false
		var reaches func(f *types.Func, depth int) bool
		reaches = func(f *types.Func, depth int) bool {
			gd, _ := ctx.DeclOf(f)
			if gd == nil || gd.Body == nil || depth > 2 {
				return false
			}
			found := false
			ast.Inspect(gd.Body, func(q ast.Node) bool {
				c, ok := q.(*ast.CallExpr)
				if !ok || found {
					return !found
				}
				g := callee(info, c)
				if g == nil {
					return true
				}
				if g.Name() == "NewObject" {
					found = true
					return false
				}
				if g != fn && g.Pkg() == p.Types && g.Type().(*types.Signature).Recv() != nil && reaches(g, depth+1) {
					found = true
				}
				return true
			})
			return found
		}
		ast.Inspect(fd.Body, func(m ast.Node) bool {
			is, ok := m.(*ast.IfStmt)
			if !ok || !strings.Contains(exprString(is.Cond), "IsIntersection()") {
				return true
			}
			ast.Inspect(is.Body, func(q ast.Node) bool {
				if c, ok := q.(*ast.CallExpr); ok {
					if g := callee(info, c); g != nil && g.Pkg() == p.Types && reaches(g, 0) {
						declares = true
					}
				}
				return true
			})
			return true
		})
		n++
		r.Check(declares, "chains/in-place-intersections-named", "compiler.AnonymousStructsToNamed meets a composition written in place", fd.Pos(), "it is declared as an object and replaced by a reference",
			"a composition used as the type of a field or of the items of a list keeps its place (only the structs inside it are named): `Holder.item: allOf[$ref Base, {extra?: integer}]` reaches the Java jenny, which writes `public unknown item;` and `List<unknown> items;` — cannot find symbol: class unknown, and cog reports success")
	}
	// (b)
	if fn := ctx.LookupMethod("internal/ast/compiler", "FlattenDisjunctions", "flattenDisjunction"); fn == nil {
		r.Undecided("anchor lost: compiler.FlattenDisjunctions.flattenDisjunction")
	} else if fd, _ := ctx.DeclOf(fn); fd != nil {
		unfolds := false
		ast.Inspect(fd.Body, func(m ast.Node) bool {
			is, ok := m.(*ast.IfStmt)
			if !ok || !strings.HasSuffix(exprString(is.Cond), ".IsDisjunction()") || strings.HasPrefix(exprString(is.Cond), "!") {
				return true
			}
			ast.Inspect(is.Body, func(q ast.Node) bool {
				if c, ok := q.(*ast.CallExpr); ok {
					if id, ok := ast.Unparen(c.Fun).(*ast.Ident); ok && id.Name == "flatten" {
						unfolds = true
					}
				}
				return true
			})
			return true
		})
		n++
		r.Check(unfolds, "traverse/in-place-unions-unfolded", "compiler.FlattenDisjunctions meets a union written as a branch of a union", fd.Pos(), "its branches are unfolded like those of a referred union",
			"only references to unions are unfolded: `(string | integer) | boolean` — `type: [string, integer]` inside an anyOf — keeps the inner union as one branch; the Go chain then builds a plain struct without union hint (no marshaller: true, \"abc\", 3 can not be decoded) and `(string | integer) | $ref Foo` fails with a bare `discriminator not set`")
	}
	// (c)
	if fn := ctx.LookupMethod("internal/ast/compiler", "InlineObjectsWithTypes", "Process"); fn == nil {
		r.Undecided("anchor lost: compiler.InlineObjectsWithTypes.Process")
	} else if fd, _ := ctx.DeclOf(fn); fd != nil {
		skipsConstants := false
		ast.Inspect(fd.Body, func(m ast.Node) bool {
			is, ok := m.(*ast.IfStmt)
			if !ok || !strings.Contains(exprString(is.Cond), "IsConcreteScalar()") || !endsInExit(is.Body) {
				return true
			}
			skipsConstants = true
			return true
		})
		n++
		r.Check(!skipsConstants, "chains/php-constant-references-inlined", "compiler.InlineObjectsWithTypes collects the objects whose references it replaces", fd.Pos(), "constants included (the objects are kept, the references replaced)",
			"constants are left out of the objects to inline — to keep the constant *objects* — which also keeps every *reference* to them: after the PHP chain `version: $ref Version` (Version: const \"v1\") still designates a scalar and the PHP jenny writes it as a class, `?\\Demo\\Demo\\Version $version`, `$version ?: \\Demo\\Demo\\Version` — neither a class nor a constant (the constant is Constants::VERSION)")
	}
	r.Count("hunted clauses of the normal forms (5th hunt)", n)
	r.Floor("hunted clauses of the normal forms (5th hunt)", 3)
}
