package main

// C19 — the insertion-ordered map. Engine E9 "omap".
//
// Representation invariant INV: keys(records) == set(order) and order has no
// duplicates. The rules below decide, from the source of internal/orderedmap,
// that every writer of the two fields has a shape that preserves INV, that
// every observer walks `order` (never the hash map), that sizes handed to
// make/slicing are non-negative, and that the one partial operation (At) is
// guarded at each of its call sites.

import (
	"fmt"
	"go/ast"
	"go/constant"
	"go/token"
	"go/types"
	"strings"

	"golang.org/x/tools/go/packages"
)

func init() { register("C19", checkC19) }

type omapInfo struct {
	pkg    *packages.Package
	info   *types.Info
	mapT   *types.Named
	recF   *types.Var
	ordF   *types.Var
	setFn  *types.Func
	newFn  *types.Func
	lenFn  *types.Func
	hasFn  *types.Func
	iterFn *types.Func
}

func (o *omapInfo) isRec(e ast.Expr) bool { return fieldOf(o.info, e) == o.recF }
func (o *omapInfo) isOrd(e ast.Expr) bool { return fieldOf(o.info, e) == o.ordF }

// condCtx: the chain of if-conditions (with polarity) a node sits under.
type condEntry struct {
	stmt   *ast.IfStmt
	inElse bool
}

func enclosingConds(parents map[ast.Node]ast.Node, n ast.Node) []condEntry {
	var out []condEntry
	child := n
	for p := parents[n]; p != nil; child, p = p, parents[p] {
		if is, ok := p.(*ast.IfStmt); ok {
			if child == is.Body {
				out = append(out, condEntry{is, false})
			} else if child == is.Else {
				out = append(out, condEntry{is, true})
			}
		}
	}
	return out
}

func enclosingLoops(parents map[ast.Node]ast.Node, n ast.Node) []ast.Node {
	var out []ast.Node
	for p := parents[n]; p != nil; p = parents[p] {
		switch p.(type) {
		case *ast.RangeStmt, *ast.ForStmt:
			out = append(out, p)
		}
	}
	return out
}

func enclosingFuncLit(parents map[ast.Node]ast.Node, n ast.Node) *ast.FuncLit {
	for p := parents[n]; p != nil; p = parents[p] {
		if fl, ok := p.(*ast.FuncLit); ok {
			return fl
		}
	}
	return nil
}

func checkC19(ctx *Ctx, r *Report) {
	r.Explanation = "Structural clauses of the ordered-map property decided from the source of internal/orderedmap: " +
		"(1) encapsulation — the two representation fields are written only by functions whose shape is one of {constructor, insert, remove, permute, lazy-init}; " +
		"(2) each shape preserves INV (keys(records)=set(order), order duplicate-free): insert appends the key under the negated presence test of that same key and stores unconditionally; remove deletes unconditionally and rebuilds order by an order-preserving filter on `elem == key`; derived maps are populated only through the insert method on a fresh map, with the loop key; " +
		"(3) every observer iterates the order slice and reads records with the loop key; no range over the hash map; " +
		"(4) make sizes and slice bounds are non-negative by a sign analysis; the partial accessor indexing order by a parameter is guarded by a length test at each call site in cog; " +
		"(5) no zero-value Map is constructed outside the package and every ast.Schema literal sets its object map."
	r.NotCovered = "functional correctness of user callbacks, JSON decode order (the decoder's order), Equal, Sort stability w.r.t. non-strict less functions; the exhaustive operation-sequence quantifier of the property is not explored (that would be model checking, a different family)."
	r.Exhaustive = true
	r.Trusted = []string{"Go map/slice/append semantics", "sort.SliceStable permutes its argument in place"}

	p := ctx.Pkg("internal/orderedmap")
	if p == nil {
		r.Undecided("package internal/orderedmap not found")
		return
	}
	o := &omapInfo{pkg: p, info: p.TypesInfo}
	// anchor: the generic struct type with exactly one map-typed and one
	// slice-typed field whose element is the key type parameter.
	for _, name := range p.Types.Scope().Names() {
		tn, ok := p.Types.Scope().Lookup(name).(*types.TypeName)
		if !ok {
			continue
		}
		nt, ok := tn.Type().(*types.Named)
		if !ok || nt.TypeParams().Len() != 2 {
			continue
		}
		st, ok := nt.Underlying().(*types.Struct)
		if !ok {
			continue
		}
		var rec, ord *types.Var
		for i := 0; i < st.NumFields(); i++ {
			switch st.Field(i).Type().Underlying().(type) {
			case *types.Map:
				rec = st.Field(i)
			case *types.Slice:
				ord = st.Field(i)
			}
		}
		if rec != nil && ord != nil && st.NumFields() == 2 {
			o.mapT, o.recF, o.ordF = nt, rec, ord
		}
	}
	if o.mapT == nil {
		r.Undecided("anchor lost: no generic struct {map, slice} in internal/orderedmap")
		return
	}
	if o.recF.Exported() || o.ordF.Exported() {
		r.Bad("omap/encapsulation", "Map."+o.recF.Name()+"/"+o.ordF.Name(), o.recF.Pos(), "representation fields are exported: any package may break INV")
	} else {
		r.OK("omap/encapsulation", "Map fields unexported", o.recF.Pos(), "records/order are package-private (Go visibility)")
	}

	// classify every function of the package
	type fnInfo struct {
		fd  *ast.FuncDecl
		obj *types.Func
	}
	var fns []fnInfo
	for _, f := range p.Syntax {
		for _, d := range f.Decls {
			if fd, ok := d.(*ast.FuncDecl); ok && fd.Body != nil {
				obj, _ := p.TypesInfo.Defs[fd.Name].(*types.Func)
				fns = append(fns, fnInfo{fd, obj})
			}
		}
	}
	r.Count("orderedmap functions", len(fns))

	// pass 1: find the insert method (stores records[k] and appends to order)
	// and the constructor (returns a composite literal of Map).
	for _, f := range fns {
		stores, appends, lits := 0, 0, 0
		ast.Inspect(f.fd.Body, func(n ast.Node) bool {
			switch x := n.(type) {
			case *ast.AssignStmt:
				for _, l := range x.Lhs {
					if ix, ok := l.(*ast.IndexExpr); ok && o.isRec(ix.X) {
						stores++
					}
					if o.isOrd(l) && len(x.Rhs) == 1 {
						if c, ok := x.Rhs[0].(*ast.CallExpr); ok && isBuiltinCall(o.info, c, "append") {
							appends++
						}
					}
				}
			case *ast.CompositeLit:
				if namedOf(o.info.TypeOf(x)) != nil && namedOf(o.info.TypeOf(x)).Origin() == o.mapT {
					lits++
				}
			}
			return true
		})
		sig := f.obj.Type().(*types.Signature)
		if stores > 0 && appends > 0 && sig.Recv() != nil && sig.Params().Len() == 2 {
			o.setFn = f.obj
		}
		if lits > 0 && sig.Recv() == nil && sig.Params().Len() == 0 {
			o.newFn = f.obj
		}
	}
	if o.setFn == nil || o.newFn == nil {
		r.Undecided("anchor lost: insert method (%v) or constructor (%v) of the ordered map not recognised", o.setFn, o.newFn)
		return
	}
	o.lenFn = ctx.LookupMethod("internal/orderedmap", o.mapT.Obj().Name(), "Len")
	o.hasFn = ctx.LookupMethod("internal/orderedmap", o.mapT.Obj().Name(), "Has")
	o.iterFn = ctx.LookupMethod("internal/orderedmap", o.mapT.Obj().Name(), "Iterate")

	for _, f := range fns {
		c19CheckFunc(ctx, r, o, f.fd, f.obj)
		c19ZeroValueAndEquality(ctx, r, o, f.fd, f.obj)
		c19SecondHunt(ctx, r, o, f.fd, f.obj)
		c19ThirdHunt(ctx, r, o, f.fd, f.obj)
	}
	r.Floor("orderedmap functions", 12)
	r.Floor("loops of the ordered map that call a callback", 1)
	r.Floor("omap stores into the records of the receiver", 1)
	r.Floor("omap writers classified", 3)
	r.Floor("omap observer loops", 3)

	c19Callers(ctx, r, o)
	c19JSONKeys(ctx, r, o)
}

// isFreshMapLocal: ident was defined by `x := New[...]()` in fd.
func (o *omapInfo) freshLocals(fd *ast.FuncDecl) map[types.Object]bool {
	fresh := map[types.Object]bool{}
	ast.Inspect(fd.Body, func(n ast.Node) bool {
		as, ok := n.(*ast.AssignStmt)
		if !ok || as.Tok != token.DEFINE || len(as.Lhs) != 1 || len(as.Rhs) != 1 {
			return true
		}
		call, ok := as.Rhs[0].(*ast.CallExpr)
		if !ok {
			return true
		}
		if callee(o.info, call) == o.newFn {
			if id, ok := as.Lhs[0].(*ast.Ident); ok {
				fresh[o.info.Defs[id]] = true
			}
		}
		return true
	})
	return fresh
}

func c19CheckFunc(ctx *Ctx, r *Report, o *omapInfo, fd *ast.FuncDecl, obj *types.Func) {
	name := ctx.FuncName(obj)
	info := o.info
	parents := parentMap(fd)
	sig := obj.Type().(*types.Signature)
	isMethod := sig.Recv() != nil && namedOf(sig.Recv().Type()) != nil && namedOf(sig.Recv().Type()).Origin() == o.mapT
	var recvObj types.Object
	if isMethod && len(fd.Recv.List) == 1 && len(fd.Recv.List[0].Names) == 1 {
		recvObj = info.Defs[fd.Recv.List[0].Names[0]]
	}
	onRecv := func(e ast.Expr) bool { // e is <recv>.field
		sel, ok := ast.Unparen(e).(*ast.SelectorExpr)
		if !ok {
			return false
		}
		id, ok := ast.Unparen(sel.X).(*ast.Ident)
		return ok && recvObj != nil && objOf(info, id) == recvObj
	}

	isRecvIdent := func(e ast.Expr) bool {
		id, ok := ast.Unparen(e).(*ast.Ident)
		return ok && recvObj != nil && objOf(info, id) == recvObj
	}

	// ---- collect write events
	type ev struct {
		kind string // recStore recDelete recAssign ordAppend ordAssign ordCall lit escape
		node ast.Node
		key  ast.Expr
		rhs  ast.Expr
		lhs  ast.Expr
	}
	var evs []ev
	consumed := map[ast.Node]bool{} // selector nodes accounted for
	ast.Inspect(fd.Body, func(n ast.Node) bool {
		switch x := n.(type) {
		case *ast.AssignStmt:
			for i, l := range x.Lhs {
				var rhs ast.Expr
				if len(x.Rhs) == len(x.Lhs) {
					rhs = x.Rhs[i]
				}
				if ix, ok := l.(*ast.IndexExpr); ok && o.isRec(ix.X) {
					evs = append(evs, ev{kind: "recStore", node: x, key: ix.Index, rhs: rhs, lhs: ix.X})
					consumed[ast.Unparen(ix.X)] = true
				} else if ix, ok := l.(*ast.IndexExpr); ok && o.isOrd(ix.X) {
					evs = append(evs, ev{kind: "ordElemStore", node: x, lhs: ix.X})
					consumed[ast.Unparen(ix.X)] = true
				} else if o.isRec(l) {
					evs = append(evs, ev{kind: "recAssign", node: x, rhs: rhs, lhs: l})
					consumed[ast.Unparen(l)] = true
				} else if o.isOrd(l) {
					k := "ordAssign"
					if c, ok := rhs.(*ast.CallExpr); ok && isBuiltinCall(info, c, "append") && len(c.Args) >= 1 && sameAccessPath(info, c.Args[0], l) {
						k = "ordAppend"
						consumed[ast.Unparen(c.Args[0])] = true
					}
					evs = append(evs, ev{kind: k, node: x, rhs: rhs, lhs: l})
					consumed[ast.Unparen(l)] = true
				}
			}
		case *ast.CallExpr:
			if isBuiltinCall(info, x, "delete") && len(x.Args) == 2 && o.isRec(x.Args[0]) {
				evs = append(evs, ev{kind: "recDelete", node: x, key: x.Args[1], lhs: x.Args[0]})
				consumed[ast.Unparen(x.Args[0])] = true
				return true
			}
			if isBuiltinCall(info, x, "len") || isBuiltinCall(info, x, "cap") {
				for _, a := range x.Args {
					consumed[ast.Unparen(a)] = true
				}
				return true
			}
			// `append(<fresh>, recv.order...)`: a snapshot of the order, the field itself is only read
			if isBuiltinCall(info, x, "append") && x.Ellipsis.IsValid() && len(x.Args) == 2 && o.isOrd(x.Args[1]) && !o.isOrd(x.Args[0]) && !o.isRec(x.Args[0]) {
				consumed[ast.Unparen(x.Args[1])] = true
				return true
			}
			for _, a := range x.Args {
				ua := ast.Unparen(a)
				if u, ok := ua.(*ast.UnaryExpr); ok && u.Op == token.AND {
					ua = ast.Unparen(u.X)
				}
				if o.isOrd(ua) || o.isRec(ua) {
					if consumed[ua] {
						continue
					}
					fn := callee(info, x)
					k := "escape"
					if o.isOrd(ua) && fn != nil && fn.Pkg() != nil && (fn.Pkg().Path() == "sort" || fn.Pkg().Path() == "slices") {
						k = "ordCall"
					}
					if fn != nil && fn.Pkg() != nil && fn.Pkg().Path() == "github.com/google/go-cmp/cmp" {
						k = "read" // cmp.Equal only reads
					}
					if k != "read" {
						evs = append(evs, ev{kind: k, node: x, lhs: ua})
					}
					consumed[ua] = true
				}
			}
		case *ast.CompositeLit:
			if nt := namedOf(info.TypeOf(x)); nt != nil && nt.Origin() == o.mapT {
				evs = append(evs, ev{kind: "lit", node: x})
			}
		case *ast.UnaryExpr:
			if x.Op == token.AND && (o.isOrd(x.X) || o.isRec(x.X)) && !consumed[ast.Unparen(x.X)] {
				evs = append(evs, ev{kind: "escape", node: x, lhs: x.X})
				consumed[ast.Unparen(x.X)] = true
			}
		}
		return true
	})

	// ---- classify writer shape
	count := func(kind string) int {
		n := 0
		for _, e := range evs {
			if e.kind == kind {
				n++
			}
		}
		return n
	}
	total := len(evs)
	if total > 0 {
		r.Count("omap writers classified", 1)
	}
	switch {
	case total == 0:
		// pure observer (or writer only through methods) — handled below
	case count("escape") > 0 || count("ordElemStore") > 0:
		for _, e := range evs {
			if e.kind == "escape" || e.kind == "ordElemStore" {
				r.Bad("omap/writer-shape", name, e.node.Pos(), fmt.Sprintf("representation field %s escapes or is written element-wise (%s): INV preservation cannot be established", exprString(e.lhs), e.kind))
			}
		}
	case count("lit") == total:
		// constructor: records must be initialised with make(map), order absent/empty
		for _, e := range evs {
			lit := e.node.(*ast.CompositeLit)
			okRec, okOrd := false, true
			for _, el := range lit.Elts {
				kv, ok := el.(*ast.KeyValueExpr)
				if !ok {
					okOrd = false
					continue
				}
				kid, _ := kv.Key.(*ast.Ident)
				if kid == nil {
					continue
				}
				var kobj types.Object
				if kv, ok := info.Uses[kid].(*types.Var); ok {
					kobj = kv.Origin()
				}
				switch kobj {
				case o.recF:
					if c, ok := kv.Value.(*ast.CallExpr); ok && isBuiltinCall(info, c, "make") {
						okRec = true
					}
				case o.ordF:
					okOrd = false
					if c, ok := kv.Value.(*ast.CallExpr); ok && isBuiltinCall(info, c, "make") && len(c.Args) >= 2 {
						if tv := info.Types[c.Args[1]]; tv.Value != nil && constant.Sign(tv.Value) == 0 {
							okOrd = true
						}
					}
					if isNilIdent(info, kv.Value) {
						okOrd = true
					}
				}
			}
			r.Check(okRec && okOrd, "omap/constructor", name, lit.Pos(),
				"literal initialises records with make(map) and leaves order empty: INV holds initially",
				"Map literal does not start from (empty allocated records, empty order): INV or nil-map safety not established")
		}
	case count("recStore") > 0 && count("recDelete") == 0:
		c19Insert(ctx, r, o, fd, name, parents, onRecv, func() (st, ap []ast.Node, keys []ast.Expr, other int) {
			for _, e := range evs {
				switch e.kind {
				case "recStore":
					st = append(st, e.node)
					keys = append(keys, e.key)
				case "ordAppend":
					ap = append(ap, e.node)
				case "recAssign":
					// lazy initialisation in front of the insert: `if records == nil { records = make(map) }` — records was
					// nil, so no key of order had a record to lose (order is empty then under INV)
					lazy := false
					if as, ok := e.node.(*ast.AssignStmt); ok {
						if mk, ok := e.rhs.(*ast.CallExpr); ok && isBuiltinCall(info, mk, "make") {
							for _, c := range enclosingConds(parents, as) {
								if be, ok := c.stmt.Cond.(*ast.BinaryExpr); ok && !c.inElse && be.Op == token.EQL && o.isRec(be.X) && isNilIdent(info, be.Y) {
									lazy = true
								}
							}
						}
					}
					if !lazy {
						other++
					}
				default:
					other++
				}
			}
			return
		})
	case count("recDelete") > 0:
		// remove shape
		ok := count("recStore") == 0 && count("ordAppend") == 0 && count("recAssign") == 0 && count("ordCall") == 0
		var del *ast.CallExpr
		var ordAssign *ast.AssignStmt
		for _, e := range evs {
			if e.kind == "recDelete" {
				del = e.node.(*ast.CallExpr)
			}
			if e.kind == "ordAssign" {
				ordAssign = e.node.(*ast.AssignStmt)
			}
		}
		if !ok || del == nil || ordAssign == nil || count("recDelete") != 1 || count("ordAssign") != 1 {
			r.Bad("omap/remove", name, fd.Pos(), "function deletes from records but is not of the remove shape (exactly one delete + one rebuild of order)")
			break
		}
		uncond := len(enclosingConds(parents, del)) == 0 && len(enclosingLoops(parents, del)) == 0 && enclosingFuncLit(parents, del) == nil
		uncondA := len(enclosingConds(parents, ordAssign)) == 0 && len(enclosingLoops(parents, ordAssign)) == 0 && enclosingFuncLit(parents, ordAssign) == nil
		r.Check(uncond && uncondA && onRecv(del.Args[0]), "omap/remove", name+" delete+rebuild unconditional", del.Pos(),
			"delete(records,key) and the order rebuild both execute on every path", "delete(records,key) or the rebuild of order is conditional: a removed key may stay in one of the two fields")
		// the rebuilt slice: local built by ranging over order, skipping == key
		rhsID, _ := ast.Unparen(ordAssign.Rhs[0]).(*ast.Ident)
		filterOK := false
		detail := "order is not rebuilt by an order-preserving filter loop over order"
		if rhsID != nil {
			local := objOf(info, rhsID)
			ast.Inspect(fd.Body, func(n ast.Node) bool {
				rs, ok := n.(*ast.RangeStmt)
				if !ok || !o.isOrd(rs.X) || !onRecv(rs.X) {
					return true
				}
				val, _ := rs.Value.(*ast.Ident)
				if val == nil {
					return true
				}
				elem := info.Defs[val]
				// body: if elem == key { continue } ; local = append(local, elem)
				skip, app, extra := false, false, 0
				for _, st := range rs.Body.List {
					switch s := st.(type) {
					case *ast.IfStmt:
						if be, ok := s.Cond.(*ast.BinaryExpr); ok && s.Init == nil && s.Else == nil && len(s.Body.List) == 1 {
							br, isBr := s.Body.List[0].(*ast.BranchStmt)
							lhsIsElem := isIdentOf(info, be.X, elem) && sameAccessPath(info, be.Y, del.Args[1])
							rhsIsElem := isIdentOf(info, be.Y, elem) && sameAccessPath(info, be.X, del.Args[1])
							if isBr && br.Tok == token.CONTINUE && be.Op == token.EQL && (lhsIsElem || rhsIsElem) {
								skip = true
								continue
							}
							// if elem != key { append }
							if be.Op == token.NEQ && (lhsIsElem || rhsIsElem) {
								if as, ok := s.Body.List[0].(*ast.AssignStmt); ok && isAppendOf(info, as, local, elem) {
									skip, app = true, true
									continue
								}
							}
						}
						extra++
					case *ast.AssignStmt:
						if isAppendOf(info, s, local, elem) {
							app = true
						} else {
							extra++
						}
					default:
						extra++
					}
				}
				if skip && app && extra == 0 {
					filterOK = true
				}
				return true
			})
		}
		r.Check(filterOK, "omap/remove", name+" order filter", ordAssign.Pos(),
			"order := [e for e in order if e != key], in order: relative order of the remaining keys preserved, every occurrence of key dropped", detail)
	case count("ordCall") == total:
		for _, e := range evs {
			call := e.node.(*ast.CallExpr)
			fn := callee(info, call)
			ok := fn != nil && (funcIs(fn, "sort", "SliceStable") || funcIs(fn, "sort", "Slice") || funcIs(fn, "slices", "SortStableFunc") || funcIs(fn, "slices", "SortFunc"))
			r.Check(ok && onRecv(e.lhs), "omap/permute", name, call.Pos(),
				"order is only permuted in place by "+fnNameOr(fn)+": the key set and duplicate-freedom are unchanged",
				"order handed to "+fnNameOr(fn)+", which is not a known in-place permutation")
			// the reference map sorts by the caller's order and keeps first-insertion order among keys that compare equal (the
			// method's own documentation says so): the permutation must be a stable sort
			stable := fn != nil && (funcIs(fn, "sort", "SliceStable") || funcIs(fn, "slices", "SortStableFunc") || funcIs(fn, "sort", "Stable"))
			r.Check(stable, "omap/permute", name+" stable", call.Pos(), "keys that compare equal keep their first-insertion order (stable sort)",
				"order is sorted with "+fnNameOr(fn)+", which is not stable: keys the caller's order does not distinguish lose their first-insertion order (visible from 13 keys on: shorter slices are insertion-sorted)")
		}
	case count("recAssign") == total:
		// lazy init: records = make(map) under `records == nil`
		for _, e := range evs {
			as := e.node.(*ast.AssignStmt)
			conds := enclosingConds(parents, as)
			okc := false
			for _, c := range conds {
				if be, ok := c.stmt.Cond.(*ast.BinaryExpr); ok && !c.inElse && be.Op == token.EQL && o.isRec(be.X) && isNilIdent(info, be.Y) {
					okc = true
				}
			}
			mk, _ := e.rhs.(*ast.CallExpr)
			r.Check(okc && mk != nil && isBuiltinCall(info, mk, "make"), "omap/lazy-init", name, as.Pos(),
				"records replaced only by a fresh empty map when it was nil (order is empty then under INV)",
				"records is re-assigned outside the nil-initialisation idiom: keys in order may lose their records")
		}
	default:
		r.Bad("omap/writer-shape", name, fd.Pos(), fmt.Sprintf("writes to the representation do not match any INV-preserving shape (events: %s)", evKinds(func() []string {
			var ks []string
			for _, e := range evs {
				ks = append(ks, e.kind)
			}
			return ks
		}())))
	}

	// ---- derived maps: every call of the insert method on something other
	// than the receiver must be on a fresh map and (inside a loop over order)
	// use the loop key.
	fresh := o.freshLocals(fd)
	// iterPair: when `n` sits in a function literal handed to the receiver's own Iterate, the (key, value) parameters
	// of that literal — Iterate produces the live pairs, in order (checked on Iterate itself)
	iterPair := func(n ast.Node) (types.Object, types.Object) {
		lit := enclosingFuncLit(parents, n)
		if lit == nil || o.iterFn == nil {
			return nil, nil
		}
		c, ok := parents[lit].(*ast.CallExpr)
		if !ok || callee(info, c) != o.iterFn {
			return nil, nil
		}
		sel, ok := c.Fun.(*ast.SelectorExpr)
		if !ok {
			return nil, nil
		}
		if id, ok := ast.Unparen(sel.X).(*ast.Ident); !ok || objOf(info, id) != recvObj {
			return nil, nil
		}
		var ps []types.Object
		for _, f := range lit.Type.Params.List {
			for _, nm := range f.Names {
				ps = append(ps, info.Defs[nm])
			}
		}
		if len(ps) != 2 {
			return nil, nil
		}
		return ps[0], ps[1]
	}
	ast.Inspect(fd.Body, func(n ast.Node) bool {
		call, ok := n.(*ast.CallExpr)
		if !ok || callee(info, call) != o.setFn {
			return true
		}
		sel := call.Fun.(*ast.SelectorExpr)
		rid, _ := ast.Unparen(sel.X).(*ast.Ident)
		if rid == nil {
			r.Bad("omap/derived", name, call.Pos(), "insert on a non-local map expression")
			return true
		}
		target := objOf(info, rid)
		if target == recvObj {
			r.OK("omap/derived", name+" Set on receiver", call.Pos(), "mutation goes through the insert method")
			return true
		}
		if !fresh[target] {
			r.Bad("omap/derived", name, call.Pos(), "insert into a map that is neither the receiver nor a fresh New() result")
			return true
		}
		r.Count("omap derived-map inserts", 1)
		// inside a range over receiver.order: key must be loop value; value read with same key
		for _, l := range enclosingLoops(parents, call) {
			rs, ok := l.(*ast.RangeStmt)
			if !ok || !o.isOrd(rs.X) {
				continue
			}
			val, _ := rs.Value.(*ast.Ident)
			okKey := val != nil && isIdentOf(info, call.Args[0], info.Defs[val])
			r.Check(okKey, "omap/derived", name+" key", call.Pos(), "derived map receives the loop key, in order", "derived map is populated under a key other than the loop key")
		}
		// polarity for predicate-style callbacks: if cb(...) { Set }
		for i := 0; i < sig.Params().Len(); i++ {
			ps, ok := sig.Params().At(i).Type().Underlying().(*types.Signature)
			if !ok || ps.Results().Len() != 1 {
				continue
			}
			cb := sig.Params().At(i)
			if b, ok := ps.Results().At(0).Type().Underlying().(*types.Basic); ok && b.Kind() == types.Bool {
				conds := enclosingConds(parents, call)
				pos := false
				for _, c := range conds {
					if cc, ok := ast.Unparen(c.stmt.Cond).(*ast.CallExpr); ok && !c.inElse {
						if id, ok := cc.Fun.(*ast.Ident); ok && objOf(info, id) == cb {
							pos = true
						}
					}
				}
				r.Check(pos, "omap/filter-polarity", name, call.Pos(), "element kept exactly under a positive predicate result", "element is not kept under `if predicate(key, value)` (negated, else-branch or unconditional)")
				// kept value is records[key] — or the pair the receiver's own Iterate hands to the callback
				if len(call.Args) == 2 {
					ix, _ := ast.Unparen(call.Args[1]).(*ast.IndexExpr)
					if kp, vp := iterPair(call); kp != nil {
						r.Check(isIdentOf(info, call.Args[0], kp) && isIdentOf(info, call.Args[1], vp), "omap/filter-value", name, call.Pos(), "kept pair is the one Iterate produced", "kept value is not the receiver's record for the same key")
					} else {
						r.Check(ix != nil && o.isRec(ix.X) && sameAccessPath(info, ix.Index, call.Args[0]), "omap/filter-value", name, call.Pos(), "kept value is records[key] of the same key", "kept value is not the receiver's record for the same key")
					}
				}
			} else {
				// mapping callback: Set must be unconditional within the loop and value = cb(key, records[key])
				conds := enclosingConds(parents, call)
				r.Check(len(conds) == 0, "omap/map-total", name, call.Pos(), "every key of the receiver is re-inserted", "mapped insertion is conditional: keys may be dropped")
				if len(call.Args) == 2 {
					cc, _ := ast.Unparen(call.Args[1]).(*ast.CallExpr)
					okv := false
					if cc != nil {
						if id, ok := cc.Fun.(*ast.Ident); ok && objOf(info, id) == cb && len(cc.Args) == 2 {
							ix, _ := ast.Unparen(cc.Args[1]).(*ast.IndexExpr)
							okv = sameAccessPath(info, cc.Args[0], call.Args[0]) && ix != nil && o.isRec(ix.X) && sameAccessPath(info, ix.Index, call.Args[0])
							// or the pair the receiver's own Iterate hands to the callback
							if kp, vp := iterPair(call); kp != nil {
								okv = isIdentOf(info, call.Args[0], kp) && isIdentOf(info, cc.Args[0], kp) && isIdentOf(info, cc.Args[1], vp)
							}
						}
					}
					r.Check(okv, "omap/map-value", name, call.Pos(), "mapped value is callback(key, records[key])", "mapped value is not callback(key, records[key]) for the loop key")
				}
			}
		}
		return true
	})

	// locals holding a snapshot of the receiver's order: `keys := append([]K(nil), recv.order...)`
	snapshots := map[types.Object]bool{}
	ast.Inspect(fd.Body, func(n ast.Node) bool {
		as, ok := n.(*ast.AssignStmt)
		if !ok || as.Tok != token.DEFINE || len(as.Lhs) != 1 || len(as.Rhs) != 1 {
			return true
		}
		c, ok := ast.Unparen(as.Rhs[0]).(*ast.CallExpr)
		if !ok || !isBuiltinCall(info, c, "append") || !c.Ellipsis.IsValid() || len(c.Args) != 2 || !o.isOrd(c.Args[1]) || !onRecv(c.Args[1]) {
			return true
		}
		if id, ok := as.Lhs[0].(*ast.Ident); ok {
			snapshots[info.Defs[id]] = true
		}
		return true
	})
	isOrder := func(e ast.Expr) bool {
		if o.isOrd(e) {
			return true
		}
		id, ok := ast.Unparen(e).(*ast.Ident)
		return ok && snapshots[objOf(info, id)]
	}

	// ---- observers: loops
	ast.Inspect(fd.Body, func(n ast.Node) bool {
		switch x := n.(type) {
		case *ast.RangeStmt:
			if o.isRec(x.X) {
				r.Bad("omap/observe-order", name, x.Pos(), "iterates the hash map `records`: iteration order is the runtime's, not first-insertion order")
				return true
			}
			if isOrder(x.X) {
				r.Count("omap observer loops", 1)
				val, _ := x.Value.(*ast.Ident)
				var elem types.Object
				if val != nil {
					elem = info.Defs[val]
				}
				okAll := true
				ast.Inspect(x.Body, func(m ast.Node) bool {
					ix, ok := m.(*ast.IndexExpr)
					if ok && o.isRec(ix.X) {
						if elem == nil || !isIdentOf(info, ix.Index, elem) {
							okAll = false
							r.Bad("omap/observe-key", name, ix.Pos(), "records read under an index other than the loop key while walking order")
						}
					}
					return true
				})
				if okAll {
					r.OK("omap/observe-order", name, x.Pos(), "walks order; records read with the loop key")
				}
			}
		}
		return true
	})
	// methods that observe all entries must do so via order: a method with a
	// func-typed parameter or slice result and no loop over order / Iterate call
	if isMethod && obj != o.setFn {
		hasCb, sliceRes := false, false
		for i := 0; i < sig.Params().Len(); i++ {
			if _, ok := sig.Params().At(i).Type().Underlying().(*types.Signature); ok {
				hasCb = true
			}
		}
		for i := 0; i < sig.Results().Len(); i++ {
			if _, ok := sig.Results().At(i).Type().Underlying().(*types.Slice); ok {
				sliceRes = true
			}
		}
		isSort := false
		for _, e := range evs {
			if e.kind == "ordCall" {
				isSort = true
			}
		}
		if (hasCb || sliceRes) && !isSort && obj.Name() != "MarshalJSON" {
			walks := false
			ast.Inspect(fd.Body, func(n ast.Node) bool {
				if rs, ok := n.(*ast.RangeStmt); ok && ((o.isOrd(rs.X) && onRecv(rs.X)) || isOrder(rs.X)) {
					walks = true
				}
				if c, ok := n.(*ast.CallExpr); ok && o.iterFn != nil && callee(info, c) == o.iterFn {
					walks = true
				}
				return true
			})
			r.Check(walks, "omap/observe-order", name+" enumerates via order", fd.Pos(), "enumeration is driven by the order slice", "method enumerates entries without walking the order slice")
		}
		if obj.Name() == "MarshalJSON" {
			walks := false
			ast.Inspect(fd.Body, func(n ast.Node) bool {
				if rs, ok := n.(*ast.RangeStmt); ok && o.isOrd(rs.X) {
					walks = true
				}
				if c, ok := n.(*ast.CallExpr); ok && o.iterFn != nil && callee(info, c) == o.iterFn {
					walks = true
				}
				return true
			})
			r.Check(walks, "omap/observe-order", name+" encodes via order", fd.Pos(), "JSON members are emitted in order", "JSON encoding does not walk the order slice")
			// keys and values reach the output through the JSON encoder only: the buffer otherwise receives constant punctuation
			raw := ""
			ast.Inspect(fd.Body, func(n ast.Node) bool {
				c, ok := n.(*ast.CallExpr)
				if !ok {
					return true
				}
				sel, ok := c.Fun.(*ast.SelectorExpr)
				if !ok {
					return true
				}
				switch sel.Sel.Name {
				case "WriteByte", "WriteString", "Write", "WriteRune":
				default:
					return true
				}
				if t := info.TypeOf(sel.X); t == nil || !strings.Contains(t.String(), "bytes.Buffer") {
					return true
				}
				for _, a := range c.Args {
					if tv, ok := info.Types[a]; !ok || tv.Value == nil {
						if raw == "" {
							raw = exprString(c)
						}
					}
				}
				return true
			})
			r.Check(raw == "", "omap/json-encoder-only", name+" writes data through the encoder", fd.Pos(), "the buffer only receives constant punctuation besides what json.Encoder writes",
				"MarshalJSON writes "+raw+" into the output itself: text that did not go through the JSON encoder is not escaped as JSON (control characters, invalid UTF-8) — the document is invalid and json.Marshal of the map fails")
		}
	}

	// ---- Len
	if isMethod && o.lenFn != nil && obj == o.lenFn {
		ok := false
		body := fd.Body.List
		// a leading `if recv == nil { return 0 }`: a nil map has no live key
		if len(body) == 2 {
			if is, isIf := body[0].(*ast.IfStmt); isIf && is.Init == nil && is.Else == nil && len(is.Body.List) == 1 {
				if be, isBin := ast.Unparen(is.Cond).(*ast.BinaryExpr); isBin && be.Op == token.EQL && exprString(be.Y) == "nil" && isRecvIdent(be.X) {
					if rs, isRet := is.Body.List[0].(*ast.ReturnStmt); isRet && len(rs.Results) == 1 && exprString(rs.Results[0]) == "0" {
						body = body[1:]
					}
				}
			}
		}
		if len(body) == 1 {
			if rs, isRet := body[0].(*ast.ReturnStmt); isRet && len(rs.Results) == 1 {
				if c, isCall := rs.Results[0].(*ast.CallExpr); isCall && isBuiltinCall(info, c, "len") && (o.isOrd(c.Args[0]) || o.isRec(c.Args[0])) && onRecv(c.Args[0]) {
					ok = true
				}
			}
		}
		r.Check(ok, "omap/len", name, fd.Pos(), "Len is len(order) (= number of live keys under INV)", "Len is not len(order)/len(records)")
	}

	// ---- sign analysis of make sizes / slice bounds; make+append misuse
	ast.Inspect(fd.Body, func(n ast.Node) bool {
		switch x := n.(type) {
		case *ast.CallExpr:
			if isBuiltinCall(info, x, "make") {
				for _, a := range x.Args[1:] {
					r.Count("omap size operands", 1)
					ok, why := nonNeg(info, a, parents, o)
					r.Check(ok, "omap/nonneg", name+" make("+exprString(a)+")", a.Pos(), "size operand is non-negative: "+why, "size operand may be negative ("+why+"): run-time panic `makeslice: len/cap out of range`")
				}
				// make([]T, n) with n possibly > 0, later appended to
				if len(x.Args) == 2 {
					if _, isSlice := info.TypeOf(x.Args[0]).Underlying().(*types.Slice); isSlice {
						if tv := info.Types[x.Args[1]]; !(tv.Value != nil && constant.Sign(tv.Value) == 0) {
							if as, ok := parents[x].(*ast.AssignStmt); ok && len(as.Lhs) == 1 {
								if id, ok := as.Lhs[0].(*ast.Ident); ok {
									local := objOf(info, id)
									appended := false
									ast.Inspect(fd.Body, func(m ast.Node) bool {
										if as2, ok := m.(*ast.AssignStmt); ok && len(as2.Rhs) == 1 {
											if c, ok := as2.Rhs[0].(*ast.CallExpr); ok && isBuiltinCall(info, c, "append") && isIdentOf(info, c.Args[0], local) {
												appended = true
											}
										}
										return true
									})
									r.Check(!appended, "omap/make-append", name, x.Pos(), "", "slice allocated with non-zero length and then appended to: result carries leading zero values")
								}
							}
						}
					}
				}
			}
		case *ast.SliceExpr:
			for _, b := range []ast.Expr{x.Low, x.High, x.Max} {
				if b == nil {
					continue
				}
				r.Count("omap size operands", 1)
				ok, why := nonNeg(info, b, parents, o)
				r.Check(ok, "omap/nonneg", name+" slice bound "+exprString(b), b.Pos(), "bound is non-negative: "+why, "slice bound may be negative ("+why+")")
			}
		}
		return true
	})
}

func evKinds(ks []string) string {
	out := ""
	for i, k := range ks {
		if i > 0 {
			out += ","
		}
		out += k
	}
	return out
}

func fnNameOr(fn *types.Func) string {
	if fn == nil {
		return "<dynamic callee>"
	}
	return fn.FullName()
}

func isIdentOf(info *types.Info, e ast.Expr, obj types.Object) bool {
	id, ok := ast.Unparen(e).(*ast.Ident)
	return ok && obj != nil && objOf(info, id) == obj
}

// isAppendOf: `local = append(local, elem)`
func isAppendOf(info *types.Info, as *ast.AssignStmt, local, elem types.Object) bool {
	if len(as.Lhs) != 1 || len(as.Rhs) != 1 || !isIdentOf(info, as.Lhs[0], local) {
		return false
	}
	c, ok := as.Rhs[0].(*ast.CallExpr)
	return ok && isBuiltinCall(info, c, "append") && len(c.Args) == 2 && isIdentOf(info, c.Args[0], local) && isIdentOf(info, c.Args[1], elem) && !c.Ellipsis.IsValid()
}

// c19Insert checks the insert shape.
func c19Insert(ctx *Ctx, r *Report, o *omapInfo, fd *ast.FuncDecl, name string, parents map[ast.Node]ast.Node, onRecv func(ast.Expr) bool, get func() ([]ast.Node, []ast.Node, []ast.Expr, int)) {
	info := o.info
	stores, appends, keys, other := get()
	if len(stores) != 1 || len(appends) != 1 || other != 0 {
		r.Bad("omap/insert", name, fd.Pos(), fmt.Sprintf("function stores into records but is not of the insert shape (stores=%d appends=%d other writes=%d)", len(stores), len(appends), other))
		return
	}
	store := stores[0].(*ast.AssignStmt)
	app := appends[0].(*ast.AssignStmt)
	key := keys[0]
	// store unconditional
	uncond := len(enclosingConds(parents, store)) == 0 && len(enclosingLoops(parents, store)) == 0 && enclosingFuncLit(parents, store) == nil
	r.Check(uncond, "omap/insert", name+" store unconditional", store.Pos(), "records[key] = value executes on every path", "records[key] = value is conditional: a key may enter order without a record")
	// append of the same key
	ac := app.Rhs[0].(*ast.CallExpr)
	sameKey := len(ac.Args) == 2 && !ac.Ellipsis.IsValid() && sameAccessPath(info, ac.Args[1], key)
	r.Check(sameKey, "omap/insert", name+" appended key", app.Pos(), "the key appended to order is the key stored in records", "order receives something other than the stored key")
	// append guarded by negated presence test of the same key
	conds := enclosingConds(parents, app)
	guard := false
	why := "append to order is not guarded by an absence test"
	if len(conds) == 1 && len(enclosingLoops(parents, app)) == 0 {
		c := conds[0]
		if pol, ok := presenceTest(info, o, c.stmt, key); ok {
			// pol == true means cond is "key present"
			if (pol && c.inElse) || (!pol && !c.inElse) {
				guard = true
			} else {
				why = "append to order happens when the key is already present (duplicate in order) and not when it is new"
			}
		} else {
			why = "guard of the append is not a presence test of the same key in records"
		}
	}
	r.Check(guard, "omap/insert", name+" append iff new key", app.Pos(), "order grows exactly when the key was absent from records: no duplicates, overwrite keeps position", why)
}

// presenceTest recognises `_, found := recv.records[key]; found` / `!found`,
// or recv.Has(key). Returns the polarity of the condition (true: "present").
func presenceTest(info *types.Info, o *omapInfo, is *ast.IfStmt, key ast.Expr) (bool, bool) {
	cond := ast.Unparen(is.Cond)
	neg := false
	if u, ok := cond.(*ast.UnaryExpr); ok && u.Op == token.NOT {
		neg = true
		cond = ast.Unparen(u.X)
	}
	switch c := cond.(type) {
	case *ast.Ident:
		as, ok := is.Init.(*ast.AssignStmt)
		if !ok || len(as.Lhs) != 2 || len(as.Rhs) != 1 {
			return false, false
		}
		okID, _ := as.Lhs[1].(*ast.Ident)
		ix, _ := ast.Unparen(as.Rhs[0]).(*ast.IndexExpr)
		if okID == nil || ix == nil || objOf(info, okID) != objOf(info, c) || !o.isRec(ix.X) || !sameAccessPath(info, ix.Index, key) {
			return false, false
		}
		return !neg, true
	case *ast.CallExpr:
		if o.hasFn != nil && callee(info, c) == o.hasFn && len(c.Args) == 1 && sameAccessPath(info, c.Args[0], key) {
			return !neg, true
		}
	}
	return false, false
}

// nonNeg: tiny sign analysis.
func nonNeg(info *types.Info, e ast.Expr, parents map[ast.Node]ast.Node, o *omapInfo) (bool, string) {
	e = ast.Unparen(e)
	if tv := info.Types[e]; tv.Value != nil {
		if constant.Sign(tv.Value) >= 0 {
			return true, "constant " + tv.Value.String()
		}
		return false, "negative constant"
	}
	switch x := e.(type) {
	case *ast.CallExpr:
		if isBuiltinCall(info, x, "len") || isBuiltinCall(info, x, "cap") {
			return true, "len/cap ≥ 0"
		}
		if fn := callee(info, x); fn != nil && o.lenFn != nil && fn == o.lenFn {
			return true, "Len() = len(order) ≥ 0"
		}
		if isBuiltinCall(info, x, "max") {
			for _, a := range x.Args {
				if ok, _ := nonNeg(info, a, parents, o); ok {
					return true, "max(…, non-negative)"
				}
			}
		}
		return false, "call result of unknown sign"
	case *ast.BinaryExpr:
		l, lw := nonNeg(info, x.X, parents, o)
		rr, rw := nonNeg(info, x.Y, parents, o)
		switch x.Op {
		case token.ADD, token.MUL:
			if l && rr {
				return true, "sum/product of non-negatives"
			}
			return false, lw + " " + x.Op.String() + " " + rw
		case token.SUB:
			// len(x) - c is possibly negative unless dominated by len(x) >= c … we
			// accept only an enclosing `if len(x) > 0` / `>= c` / `!= 0` on the same operand.
			for _, c := range enclosingConds(parents, e) {
				if be, ok := ast.Unparen(c.stmt.Cond).(*ast.BinaryExpr); ok && !c.inElse {
					if sameAccessPath(info, be.X, x.X) && (be.Op == token.GTR || be.Op == token.GEQ || be.Op == token.NEQ) {
						return true, "difference guarded by " + exprString(c.stmt.Cond)
					}
				}
			}
			return false, exprString(e) + " is negative when " + exprString(x.X) + " is smaller than " + exprString(x.Y)
		}
		return false, "operator " + x.Op.String()
	case *ast.Ident:
		return false, "variable of unknown sign"
	}
	return false, "expression of unknown sign"
}

// c19Callers: the partial accessor and zero-value construction, across cog.
func c19Callers(ctx *Ctx, r *Report, o *omapInfo) {
	// partial methods: index order by a parameter
	partial := map[*types.Func]bool{}
	for _, f := range o.pkg.Syntax {
		for _, d := range f.Decls {
			fd, ok := d.(*ast.FuncDecl)
			if !ok || fd.Body == nil || fd.Recv == nil {
				continue
			}
			obj := o.info.Defs[fd.Name].(*types.Func)
			params := map[types.Object]bool{}
			sig := obj.Type().(*types.Signature)
			for i := 0; i < sig.Params().Len(); i++ {
				params[sig.Params().At(i)] = true
			}
			ast.Inspect(fd.Body, func(n ast.Node) bool {
				if ix, ok := n.(*ast.IndexExpr); ok && o.isOrd(ix.X) {
					if id, ok := ast.Unparen(ix.Index).(*ast.Ident); ok && params[objOf(o.info, id)] {
						partial[obj] = true
					}
				}
				return true
			})
		}
	}
	r.Count("omap partial accessors", len(partial))
	for _, p := range ctx.Pkgs {
		info := p.TypesInfo
		for _, f := range p.Syntax {
			ast.Inspect(f, func(n ast.Node) bool {
				fd, ok := n.(*ast.FuncDecl)
				if !ok || fd.Body == nil {
					return true
				}
				fobj, _ := info.Defs[fd.Name].(*types.Func)
				parents := parentMap(fd)
				ast.Inspect(fd.Body, func(m ast.Node) bool {
					switch x := m.(type) {
					case *ast.CallExpr:
						fn := callee(info, x)
						if fn == nil || !partial[fn] {
							return true
						}
						r.Count("omap partial-accessor call sites", 1)
						sel := x.Fun.(*ast.SelectorExpr)
						guarded := false
						// (a) enclosing condition mentions recv.Len()
						for _, c := range enclosingConds(parents, x) {
							if mentionsLenOf(info, c.stmt.Cond, sel.X, o) {
								guarded = true
							}
						}
						// (b) an earlier `if <mentions recv.Len()> { …return }` in an enclosing block
						ast.Inspect(fd.Body, func(k ast.Node) bool {
							is, ok := k.(*ast.IfStmt)
							if !ok || is.End() > x.Pos() {
								return true
							}
							if mentionsLenOf(info, is.Cond, sel.X, o) && len(is.Body.List) > 0 {
								if _, isRet := is.Body.List[len(is.Body.List)-1].(*ast.ReturnStmt); isRet {
									guarded = true
								}
							}
							return true
						})
						r.Check(guarded, "omap/partial-guarded", ctx.FuncName(fobj)+" calls "+fn.Name(), x.Pos(), "index access is preceded by a length test on the same map", "index-based accessor called without a length test: index out of range on an empty/short map")
					case *ast.CompositeLit:
						if nt := namedOf(info.TypeOf(x)); nt != nil && nt.Origin() == o.mapT && p != o.pkg {
							r.Bad("omap/zero-value", ctx.FuncName(fobj), x.Pos(), "ordered map constructed by a literal outside its package: records is nil, Set panics")
						}
						if isNamed(info.TypeOf(x), modulePath+"/internal/ast", "Schema") {
							r.Count("ast.Schema literals", 1)
							has := false
							for _, el := range x.Elts {
								if kv, ok := el.(*ast.KeyValueExpr); ok {
									if id, ok := kv.Key.(*ast.Ident); ok && id.Name == "Objects" {
										has = true
									}
								}
							}
							r.Check(has, "omap/zero-value", ctx.FuncName(fobj)+" Schema literal", x.Pos(), "Schema literal sets Objects", "ast.Schema literal leaves Objects nil: the first AddObject dereferences a nil map")
						}
					}
					return true
				})
				return false
			})
		}
	}
	r.Floor("ast.Schema literals", 2)
}

func mentionsLenOf(info *types.Info, cond ast.Expr, recv ast.Expr, o *omapInfo) bool {
	found := false
	ast.Inspect(cond, func(n ast.Node) bool {
		c, ok := n.(*ast.CallExpr)
		if !ok {
			return true
		}
		if fn := callee(info, c); fn != nil && o.lenFn != nil && fn == o.lenFn {
			if sel, ok := c.Fun.(*ast.SelectorExpr); ok && sameAccessPath(info, sel.X, recv) {
				found = true
			}
		}
		return true
	})
	return found
}

// c19ZeroValueAndEquality: two clauses on the representation of an empty map. (a) The zero value of Map has nil
// records; every method that stores into the records of its receiver allocates them first under `records == nil`
// (a store into a nil map panics). (b) An empty order is nil after New / Filter / Map and a non-nil empty slice after
// Remove: no method hands the order (or records) of two maps to a deep-equality function, which tells nil from empty.
func c19ZeroValueAndEquality(ctx *Ctx, r *Report, o *omapInfo, fd *ast.FuncDecl, obj *types.Func) {
	if fd.Body == nil || fd.Recv == nil || len(fd.Recv.List) == 0 || len(fd.Recv.List[0].Names) == 0 {
		return
	}
	info := o.info
	recv := info.Defs[fd.Recv.List[0].Names[0]]
	name := ctx.FuncName(obj)
	parents := parentMap(fd)
	var firstStore ast.Node
	guardAt := token.NoPos
	ast.Inspect(fd.Body, func(n ast.Node) bool {
		switch x := n.(type) {
		case *ast.AssignStmt:
			for i, l := range x.Lhs {
				if ix, ok := ast.Unparen(l).(*ast.IndexExpr); ok && o.isRec(ix.X) {
					if root := rootIdent(ix.X); root != nil && objOf(info, root) == recv && firstStore == nil {
						firstStore = x
					}
				}
				if o.isRec(l) && i < len(x.Rhs) {
					if root := rootIdent(l); root != nil && objOf(info, root) == recv {
						if mk, ok := ast.Unparen(x.Rhs[i]).(*ast.CallExpr); ok && isBuiltinCall(info, mk, "make") {
							for _, c := range enclosingConds(parents, x) {
								if be, ok := c.stmt.Cond.(*ast.BinaryExpr); ok && !c.inElse && be.Op == token.EQL && o.isRec(be.X) && isNilIdent(info, be.Y) && !guardAt.IsValid() {
									guardAt = c.stmt.Pos()
								}
							}
						}
					}
				}
			}
		case *ast.CallExpr:
			fn := callee(info, x)
			if fn == nil || fn.Pkg() == nil {
				return true
			}
			deep := (fn.Pkg().Path() == "github.com/google/go-cmp/cmp" && fn.Name() == "Equal") || (fn.Pkg().Path() == "reflect" && fn.Name() == "DeepEqual")
			if !deep {
				return true
			}
			for _, a := range x.Args {
				if o.isOrd(a) || o.isRec(a) {
					r.Bad("omap/equal-by-content", name+" compares "+exprString(a)+" deeply", x.Pos(), "the representation field "+exprString(a)+" is handed to "+fn.Name()+", which tells a nil slice / map from an empty one: a map emptied by Remove (empty order) and a new one (nil order) hold the same content and compare unequal")
				}
			}
		}
		return true
	})
	if firstStore != nil {
		r.Count("omap stores into the records of the receiver", 1)
		r.Check(guardAt.IsValid() && guardAt < firstStore.Pos(), "omap/zero-value-safe", name+" allocates records before storing", firstStore.Pos(),
			"`records == nil` is tested and the map allocated before the first store",
			"the method stores into the records of its receiver without allocating them when they are nil: on the zero value of Map (every other method accepts it) this is `assignment to entry in nil map`")
	}
	if obj.Name() == "Equal" {
		r.OK("omap/equal-by-content", name+" anchor", fd.Pos(), "Equal is present and is checked for deep comparisons of the representation")
	}
}

// c19JSONKeys: a JSON object key is a string. Map[K comparable, V] defines MarshalJSON / UnmarshalJSON for every K:
// unless K is constrained to string kinds, MarshalJSON must turn the key into a string before it encodes it (the
// encoder writes an integer key bare: invalid JSON) and UnmarshalJSON must not assert the decoded token to K (true
// for K = string only).
func c19JSONKeys(ctx *Ctx, r *Report, o *omapInfo) {
	tps := o.mapT.TypeParams()
	if tps == nil || tps.Len() == 0 {
		return
	}
	stringsOnly := false
	if iface, ok := tps.At(0).Constraint().Underlying().(*types.Interface); ok {
		for i := 0; i < iface.NumEmbeddeds(); i++ {
			if u, ok := iface.EmbeddedType(i).(*types.Union); ok {
				all := u.Len() > 0
				for j := 0; j < u.Len(); j++ {
					if b, ok := u.Term(j).Type().Underlying().(*types.Basic); !ok || b.Kind() != types.String {
						all = false
					}
				}
				stringsOnly = all
			}
			if b, ok := iface.EmbeddedType(i).Underlying().(*types.Basic); ok && b.Kind() == types.String {
				stringsOnly = true
			}
		}
	}
	um := ctx.LookupMethod("internal/orderedmap", o.mapT.Obj().Name(), "UnmarshalJSON")
	fd, _ := ctx.DeclOf(um)
	if fd == nil || fd.Body == nil {
		r.Undecided("anchor lost: orderedmap UnmarshalJSON")
		return
	}
	asserts := false
	var at token.Pos
	ast.Inspect(fd.Body, func(n ast.Node) bool {
		if ta, ok := n.(*ast.TypeAssertExpr); ok && ta.Type != nil {
			if tp, ok := o.info.TypeOf(ta.Type).(*types.TypeParam); ok && tp.Index() == 0 {
				asserts = true
				at = ta.Pos()
			}
		}
		return true
	})
	r.Check(stringsOnly || !asserts, "omap/json-keys-are-strings", "orderedmap JSON methods and the key type", at,
		"the key type is constrained to strings, or the decoded key is converted rather than asserted",
		"Map is generic in any comparable key type but UnmarshalJSON asserts the decoded key token (a string) to K and MarshalJSON encodes the key as a JSON value: with `type name string` the bytes the map produced cannot be decoded back, with integer keys MarshalJSON returns invalid JSON without an error")
}

// c19SecondHunt — three edges of the ordered map (second hunting pass).
// (a) encoding/json calls a MarshalJSON with a pointer receiver only on addressable values: a Map held by value (a
// struct field, the value of another map) is otherwise encoded as a struct without exported fields, `{}`. MarshalJSON
// has a value receiver. (b) a method that calls a function it was given (Iterate, Map, Filter) hands control to code
// that may remove keys from, or sort, the very map: it must not call it from inside a loop over the order field
// itself, and inside the loop over a snapshot it reads the record with the comma-ok form so that a key removed in the
// meantime is skipped. (c) UnmarshalJSON treats the JSON literal null as a no-op, as encoding/json documents for custom
// decoders and as the map's own encoding of a nil map requires.
func c19SecondHunt(ctx *Ctx, r *Report, o *omapInfo, fd *ast.FuncDecl, obj *types.Func) {
	info := o.info
	sig, _ := obj.Type().(*types.Signature)
	if sig == nil || sig.Recv() == nil {
		return
	}
	name := "orderedmap.Map." + obj.Name()
	// (a)
	if obj.Name() == "MarshalJSON" {
		_, ptr := sig.Recv().Type().(*types.Pointer)
		r.Count("hunted clauses of the ordered map (2nd hunt)", 1)
		r.Check(!ptr, "omap/json-by-value", name+" receiver", fd.Pos(), "value receiver: encoding/json calls it for maps held by value too",
			"MarshalJSON has a pointer receiver: encoding/json does not call it for a value that is not addressable — a struct field of type Map, a Map stored in another Map — and encodes `{}` (a struct without exported fields) with no error")
	}
	// (b)
	callbacks := map[types.Object]bool{}
	for i := 0; i < sig.Params().Len(); i++ {
		if _, ok := sig.Params().At(i).Type().Underlying().(*types.Signature); ok {
			callbacks[sig.Params().At(i)] = true
		}
	}
	if len(callbacks) > 0 {
		ast.Inspect(fd.Body, func(n ast.Node) bool {
			rs, ok := n.(*ast.RangeStmt)
			if !ok {
				return true
			}
			callsBack := token.NoPos
			ast.Inspect(rs.Body, func(m ast.Node) bool {
				if c, ok := m.(*ast.CallExpr); ok {
					if id, ok := c.Fun.(*ast.Ident); ok && callbacks[objOf(info, id)] && callsBack == token.NoPos {
						callsBack = c.Pos()
					}
				}
				return true
			})
			if callsBack == token.NoPos {
				return true
			}
			r.Count("loops of the ordered map that call a callback", 1)
			if o.isOrd(rs.X) {
				r.Bad("omap/callback-on-snapshot", name+" calls its callback while ranging over order", rs.Pos(),
					"the callback is called from inside a loop over the order field itself: a callback that removes a key still gets it later (with the zero value — Filter and Map copy that dead key into the derived map), one that sorts makes a key come twice and another never")
				return true
			}
			// over a snapshot: the record is read with the comma-ok form and a dead key skipped
			live := false
			ast.Inspect(rs.Body, func(m ast.Node) bool {
				as, ok := m.(*ast.AssignStmt)
				if ok && len(as.Lhs) == 2 && len(as.Rhs) == 1 {
					if ix, ok := ast.Unparen(as.Rhs[0]).(*ast.IndexExpr); ok && o.isRec(ix.X) {
						live = true
					}
				}
				return true
			})
			r.Check(live, "omap/callback-on-snapshot", name+" skips keys removed during the iteration", rs.Pos(), "the record is read with the comma-ok form before the callback is called",
				"the loop calls the callback with records[key] without testing that the key is still there: a key removed by an earlier callback is produced with the zero value")
			return true
		})
	}
	// (c)
	if obj.Name() == "UnmarshalJSON" {
		null := false
		ast.Inspect(fd.Body, func(n ast.Node) bool {
			if lit, ok := n.(*ast.BasicLit); ok && lit.Kind == token.STRING && lit.Value == `"null"` {
				null = true
			}
			return true
		})
		r.Count("hunted clauses of the ordered map (2nd hunt)", 1)
		r.Check(null, "omap/decode-null", name+" accepts null", fd.Pos(), "the JSON literal null is handled",
			"UnmarshalJSON demands `{`: it rejects null, which is what a nil map is encoded to and what encoding/json hands to a custom decoder for a null value — `\"Objects\": null` can not be read back")
	}
}

// c19ThirdHunt: (a) a nil *Map is what a map encoded as `null` is decoded to (encoding/json leaves the pointer nil): it
// reads as an empty map, as a nil Go map does. Every method with a pointer receiver that touches the fields of the
// receiver tests it against nil before the first access; the methods that have to write into the receiver (a nil Go map
// panics on a write too) and the positional accessor are reviewed exceptions. (b) Equal compares values of any type: the
// go-cmp call is given options (go-cmp panics on unexported fields otherwise).
func c19ThirdHunt(ctx *Ctx, r *Report, o *omapInfo, fd *ast.FuncDecl, obj *types.Func) {
	info := o.info
	sig, _ := obj.Type().(*types.Signature)
	if sig == nil || sig.Recv() == nil {
		return
	}
	if nt := namedOf(sig.Recv().Type()); nt == nil || nt.Origin() != o.mapT {
		return
	}
	name := "orderedmap.Map." + obj.Name()
	_, ptr := sig.Recv().Type().(*types.Pointer)
	if ptr && len(fd.Recv.List) == 1 && len(fd.Recv.List[0].Names) == 1 {
		recvObj := info.Defs[fd.Recv.List[0].Names[0]]
		reviewed := map[string]string{
			"Set":           "writes into the receiver: a nil Go map panics on a write too",
			"UnmarshalJSON": "writes into the receiver; encoding/json allocates the pointer before it calls the method",
			"At":            "positional access: an index into an empty map is out of range whatever the receiver",
		}
		var firstAccess, guard token.Pos
		ast.Inspect(fd.Body, func(n ast.Node) bool {
			switch x := n.(type) {
			case *ast.SelectorExpr:
				if id, ok := ast.Unparen(x.X).(*ast.Ident); ok && objOf(info, id) == recvObj {
					if _, isField := info.Selections[x]; isField && info.Selections[x].Kind() == types.FieldVal && !firstAccess.IsValid() {
						firstAccess = x.Pos()
					}
				}
			case *ast.IfStmt:
				if be, ok := ast.Unparen(x.Cond).(*ast.BinaryExpr); ok && (be.Op == token.EQL || be.Op == token.LOR) {
					ast.Inspect(be, func(k ast.Node) bool {
						if b2, ok := k.(*ast.BinaryExpr); ok && b2.Op == token.EQL && exprString(b2.Y) == "nil" {
							if id, ok := ast.Unparen(b2.X).(*ast.Ident); ok && objOf(info, id) == recvObj && !guard.IsValid() && endsInExit(x.Body) {
								guard = x.Pos()
							}
						}
						return true
					})
				}
			}
			return true
		})
		if firstAccess.IsValid() {
			r.Count("methods of the ordered map reading the receiver's fields", 1)
			if why, ok := reviewed[obj.Name()]; ok {
				r.OK("omap/nil-receiver-reads-empty", name, fd.Pos(), "reviewed: "+why)
			} else {
				r.Check(guard.IsValid() && guard < firstAccess, "omap/nil-receiver-reads-empty", name, fd.Pos(), "the receiver is tested against nil before its fields are read",
					name+" reads the fields of its receiver without testing it: a map encoded as `null` is decoded to a nil *Map (`\"Objects\": null`), and "+obj.Name()+" on it panics with a nil pointer dereference — a nil Go map reads as empty")
			}
		}
	}
	// (b)
	ast.Inspect(fd.Body, func(n ast.Node) bool {
		c, ok := n.(*ast.CallExpr)
		if !ok {
			return true
		}
		f := callee(info, c)
		if f == nil || f.Pkg() == nil || !strings.HasSuffix(f.Pkg().Path(), "go-cmp/cmp") || f.Name() != "Equal" {
			return true
		}
		r.Count("value comparisons of the ordered map", 1)
		// one of the options is (a variable declared as) a call to an option constructor of go-cmp that speaks of
		// unexported fields
		handlesUnexported := false
		for _, opt := range c.Args[2:] {
			var call *ast.CallExpr
			switch x := ast.Unparen(opt).(type) {
			case *ast.CallExpr:
				call = x
			case *ast.Ident:
				if v, ok := objOf(info, x).(*types.Var); ok {
					for _, file := range o.pkg.Syntax {
						ast.Inspect(file, func(k ast.Node) bool {
							if vs, ok := k.(*ast.ValueSpec); ok && len(vs.Names) == 1 && len(vs.Values) == 1 && info.Defs[vs.Names[0]] == v {
								call, _ = ast.Unparen(vs.Values[0]).(*ast.CallExpr)
							}
							return true
						})
					}
				}
			}
			if call == nil {
				continue
			}
			if cf := callee(info, call); cf != nil && cf.Pkg() != nil && strings.Contains(cf.Pkg().Path(), "go-cmp/cmp") {
				switch cf.Name() {
				case "Exporter", "AllowUnexported", "IgnoreUnexported":
					handlesUnexported = true
				}
			}
		}
		r.Check(handlesUnexported, "omap/equal-handles-any-value", name+" compares values", c.Pos(), "go-cmp is told what to do with unexported fields",
			name+" calls cmp.Equal without options: for a value type with unexported fields (a struct, a Map held by value) go-cmp panics `cannot handle unexported field` — Equal panics whether the contents are equal or not")
		// one of the options is a Comparer over an interface that the Map *value* implements (a method with a value
		// receiver): go-cmp does not find the pointer-receiver Equal on a Map held by value and would compare the
		// fields `records` / `order`, telling nil from empty
		byContent := false
		filtered, structsOnly := false, false
		for _, opt := range c.Args[2:] {
			id, ok := ast.Unparen(opt).(*ast.Ident)
			if !ok {
				continue
			}
			v, ok := objOf(info, id).(*types.Var)
			if !ok {
				continue
			}
			// the declaration of the option
			for _, file := range o.pkg.Syntax {
				ast.Inspect(file, func(k ast.Node) bool {
					vs, ok := k.(*ast.ValueSpec)
					if !ok || len(vs.Names) != 1 || len(vs.Values) != 1 || info.Defs[vs.Names[0]] != v {
						return true
					}
					call, ok := ast.Unparen(vs.Values[0]).(*ast.CallExpr)
					if !ok {
						return true
					}
					// cmp.FilterPath(<filter>, cmp.Comparer(…)): the comparer restricted to some paths
					if cf := callee(info, call); cf != nil && cf.Name() == "FilterPath" && len(call.Args) == 2 {
						if inner, ok := ast.Unparen(call.Args[1]).(*ast.CallExpr); ok {
							filtered = true
							// the filter keeps struct values: a pointer to a map satisfies the interface too
							ast.Inspect(call.Args[0], func(z ast.Node) bool {
								if be, ok := z.(*ast.BinaryExpr); ok && be.Op == token.EQL && strings.Contains(exprString(be), "reflect.Struct") {
									structsOnly = true
								}
								return true
							})
							call = inner
						}
					}
					if len(call.Args) != 1 {
						return true
					}
					if cf := callee(info, call); cf == nil || cf.Name() != "Comparer" {
						return true
					}
					fl, ok := ast.Unparen(call.Args[0]).(*ast.FuncLit)
					if !ok || len(fl.Type.Params.List) == 0 {
						return true
					}
					iface, ok := info.TypeOf(fl.Type.Params.List[0].Type).Underlying().(*types.Interface)
					if !ok || iface.NumMethods() == 0 {
						return true
					}
					// every method of the interface is declared on Map with a value receiver
					all := true
					for i := 0; i < iface.NumMethods(); i++ {
						found := false
						for _, mfd := range methodDeclsOf(o.pkg, o.mapT.Obj().Name()) {
							if mfd.Name.Name != iface.Method(i).Name() || len(mfd.Recv.List) != 1 {
								continue
							}
							if _, ptr := mfd.Recv.List[0].Type.(*ast.StarExpr); !ptr {
								found = true
							}
						}
						if !found {
							all = false
						}
					}
					if all {
						byContent = true
					}
					return true
				})
			}
		}
		// a pointer to a Map has every method of the Map value: unless it is restricted to struct values, the comparer is
		// handed the pointers as well — the assertion to a Map value fails (never equal), a nil pointer panics
		if byContent {
			r.Check(filtered && structsOnly, "omap/equal-pointers-to-maps-use-equal", name+" compares values that can hold pointers to maps", c.Pos(), "the comparer of maps held by value is restricted to struct values (cmp.FilterPath)",
				name+" hands pointers to maps to the comparer written for maps held by value (a *Map satisfies its interface too): Map[string, *Map[string,int]] holding {\"x\":{\"a\":1}} is not Equal to itself, Map[string, ast.Schema] neither (Schema.Objects is a *Map), and a nil pointer panics with `value method … called using nil *Map pointer`")
		}
		r.Check(byContent, "omap/equal-follows-maps-held-by-value", name+" compares values that can hold maps", c.Pos(), "a Comparer over an interface the Map value implements sends maps held by value to Equal",
			name+" leaves maps held by value to go-cmp, which does not see the pointer-receiver Equal and compares `records` and `order` field by field: {x: *New()} and {x: a map emptied by Remove} both encode as {\"x\":{}} and are not Equal — nor is a map equal to its own JSON round trip")
		return true
	})
}

// methodDeclsOf: the method declarations of a (possibly generic) named type of the package, by syntax.
func methodDeclsOf(p *packages.Package, typeName string) []*ast.FuncDecl {
	var out []*ast.FuncDecl
	for _, f := range p.Syntax {
		for _, d := range f.Decls {
			fd, ok := d.(*ast.FuncDecl)
			if !ok || fd.Recv == nil || len(fd.Recv.List) != 1 {
				continue
			}
			t := fd.Recv.List[0].Type
			if st, ok := t.(*ast.StarExpr); ok {
				t = st.X
			}
			switch x := t.(type) {
			case *ast.IndexExpr:
				t = x.X
			case *ast.IndexListExpr:
				t = x.X
			}
			if id, ok := t.(*ast.Ident); ok && id.Name == typeName {
				out = append(out, fd)
			}
		}
	}
	return out
}
