#!/bin/bash
# usage: seedtest.sh <property> <seed-dir> [verify]
# Applies <seed-dir>/patch.diff to a scratch copy of /repo and runs the property's check on it.
# With 'verify' it first confirms, in the scratch copy, that the demo passes without the patch,
# that the patched tree builds and passes the existing suite, and that the demo fails with the patch.
set -u
here="$(cd "$(dirname "$0")" && pwd)"
prop="$1"; seed="$2"; mode="${3:-}"
export GOFLAGS=-mod=mod GOPROXY=off GOSUMDB=off GOTOOLCHAIN=local; unset GOWORK
S=$(mktemp -d /tmp/cogseed.XXXXXX); V=$(mktemp -d /tmp/cogseedv.XXXXXX)
trap 'rm -rf "$S" "$V"' EXIT
rsync -a --exclude .git /repo/ "$S"/
cp "$here/known_findings.txt" "$V/"
demo=$(ls "$seed"/*_test.go 2>/dev/null | head -1)
if [ "$mode" = verify ]; then
  mkdir -p "$S/internal/zzdemo"; cp "$demo" "$S/internal/zzdemo/zz_demo_test.go"
  (cd "$S" && go test -count=1 ./internal/zzdemo/ >/dev/null 2>&1) && echo "demo passes on unchanged tree: yes" || echo "demo passes on unchanged tree: NO"
  rm -rf "$S/internal/zzdemo"
fi
(cd "$S" && patch -p1 -s < "$seed/patch.diff") || { echo "patch does not apply"; exit 3; }
if [ "$mode" = verify ]; then
  (cd "$S" && go build ./... 2>&1 | tail -3 && go test -vet=off -count=1 ./... 2>&1 | grep -v "^ok\|no test files" | head -5; echo "suite done")
  mkdir -p "$S/internal/zzdemo"; cp "$demo" "$S/internal/zzdemo/zz_demo_test.go"
  (cd "$S" && go test -count=1 ./internal/zzdemo/ >/dev/null 2>&1) && echo "demo fails with patch: NO" || echo "demo fails with patch: yes"
  rm -rf "$S/internal/zzdemo"
fi
out=$("$here/bin/cogcheck" -property "$prop" -tier quick -repo "$S" -verif "$V" 2>&1); rc=$?
echo "check $prop exit=$rc"
grep "violated:\|UNDECIDED" <<<"$out" | sed "s#$S/##g" | cut -c1-400
