package main

// A cog-only call graph built from the type-checked syntax: static calls,
// interface calls resolved by class hierarchy over cog's named types, calls
// through func-typed struct fields resolved by the set of function values
// stored into that field anywhere in cog, and method values / function
// references (a function whose value is taken is considered called by the
// function taking it). Func literals belong to the function that contains them.

import (
	"go/ast"
	"go/types"
	"sort"

	"golang.org/x/tools/go/packages"
)

type cgNode struct {
	fn    *types.Func
	decl  *ast.FuncDecl
	pkg   *packages.Package
	out   map[*types.Func]bool
	calls []*ast.CallExpr
	// calls made inside a func literal to the local variable that literal is bound to
	// (`var walk func(…); walk = func(…) { … walk(…) … }`): recursion of the literal
	closureRec map[*ast.CallExpr]*ast.FuncLit
}

type callGraph struct {
	nodes map[*types.Func]*cgNode
	eng   *effectsEngine
}

func buildCallGraph(ctx *Ctx, eng *effectsEngine) *callGraph {
	g := &callGraph{nodes: map[*types.Func]*cgNode{}, eng: eng}
	ctx.AllFuncDecls(func(p *packages.Package, fd *ast.FuncDecl, obj *types.Func) {
		if fd.Body == nil {
			return
		}
		g.nodes[obj] = &cgNode{fn: obj, decl: fd, pkg: p, out: map[*types.Func]bool{}}
	})
	for _, n := range g.nodes {
		info := n.pkg.TypesInfo
		add := func(f *types.Func) {
			if f == nil {
				return
			}
			f = f.Origin()
			if _, ok := g.nodes[f]; ok {
				n.out[f] = true
				return
			}
			// interface method: all cog implementations
			if sig, ok := f.Type().(*types.Signature); ok && sig.Recv() != nil {
				if _, isI := sig.Recv().Type().Underlying().(*types.Interface); isI {
					for _, impl := range eng.implementations(f) {
						if _, ok := g.nodes[impl]; ok {
							n.out[impl] = true
						}
					}
				}
			}
		}
		// local closures: variable -> literal bound to it
		bound := map[types.Object]*ast.FuncLit{}
		ast.Inspect(n.decl.Body, func(m ast.Node) bool {
			if as, ok := m.(*ast.AssignStmt); ok && len(as.Lhs) == len(as.Rhs) {
				for i, l := range as.Lhs {
					if lit, ok := ast.Unparen(as.Rhs[i]).(*ast.FuncLit); ok {
						if id, ok := l.(*ast.Ident); ok && objOf(info, id) != nil {
							bound[objOf(info, id)] = lit
						}
					}
				}
			}
			return true
		})
		n.closureRec = map[*ast.CallExpr]*ast.FuncLit{}
		ast.Inspect(n.decl.Body, func(m ast.Node) bool {
			switch x := m.(type) {
			case *ast.CallExpr:
				n.calls = append(n.calls, x)
				if id, ok := ast.Unparen(x.Fun).(*ast.Ident); ok {
					if lit, ok := bound[objOf(info, id)]; ok && lit.Pos() <= x.Pos() && x.End() <= lit.End() {
						n.closureRec[x] = lit
						n.out[n.fn] = true
					}
				}
				if fn := callee(info, x); fn != nil {
					add(fn)
					return true
				}
				// call through a func-typed field
				if f := fieldOf(info, x.Fun); f != nil {
					for _, v := range eng.fieldFuncValues(f) {
						switch e := ast.Unparen(v.expr).(type) {
						case *ast.SelectorExpr:
							if fo, ok := v.pkg.TypesInfo.Uses[e.Sel].(*types.Func); ok {
								add(fo)
							}
						case *ast.Ident:
							if fo, ok := v.pkg.TypesInfo.Uses[e].(*types.Func); ok {
								add(fo)
							}
						case *ast.FuncLit:
							// attributed to the function containing the literal
							if owner := g.ownerOf(ctx, v.pkg, e); owner != nil {
								n.out[owner] = true
							}
						}
					}
				}
			case *ast.Ident:
				// function / method value taken
				if fo, ok := info.Uses[x].(*types.Func); ok {
					add(fo)
				}
			}
			return true
		})
	}
	return g
}

func (g *callGraph) ownerOf(ctx *Ctx, p *packages.Package, lit *ast.FuncLit) *types.Func {
	for fn, n := range g.nodes {
		if n.pkg == p && n.decl.Pos() <= lit.Pos() && lit.End() <= n.decl.End() {
			return fn
		}
	}
	return nil
}

// sccs returns the strongly connected components that contain a cycle.
func (g *callGraph) sccs() [][]*types.Func {
	index := map[*types.Func]int{}
	low := map[*types.Func]int{}
	onStack := map[*types.Func]bool{}
	var stack []*types.Func
	var out [][]*types.Func
	next := 0
	var keys []*types.Func
	for f := range g.nodes {
		keys = append(keys, f)
	}
	sort.Slice(keys, func(i, j int) bool { return keys[i].FullName() < keys[j].FullName() })
	var strong func(v *types.Func)
	strong = func(v *types.Func) {
		index[v] = next
		low[v] = next
		next++
		stack = append(stack, v)
		onStack[v] = true
		var succ []*types.Func
		for w := range g.nodes[v].out {
			succ = append(succ, w)
		}
		sort.Slice(succ, func(i, j int) bool { return succ[i].FullName() < succ[j].FullName() })
		for _, w := range succ {
			if _, seen := index[w]; !seen {
				strong(w)
				if low[w] < low[v] {
					low[v] = low[w]
				}
			} else if onStack[w] && index[w] < low[v] {
				low[v] = index[w]
			}
		}
		if low[v] == index[v] {
			var comp []*types.Func
			for {
				w := stack[len(stack)-1]
				stack = stack[:len(stack)-1]
				onStack[w] = false
				comp = append(comp, w)
				if w == v {
					break
				}
			}
			if len(comp) > 1 || g.nodes[v].out[v] {
				sort.Slice(comp, func(i, j int) bool { return comp[i].FullName() < comp[j].FullName() })
				out = append(out, comp)
			}
		}
	}
	for _, k := range keys {
		if _, seen := index[k]; !seen {
			strong(k)
		}
	}
	return out
}

// reachableFrom returns every function reachable from the roots.
func (g *callGraph) reachableFrom(roots []*types.Func) map[*types.Func]*types.Func {
	parent := map[*types.Func]*types.Func{}
	var queue []*types.Func
	for _, r := range roots {
		if r != nil {
			if _, ok := g.nodes[r]; ok {
				parent[r] = nil
				queue = append(queue, r)
			}
		}
	}
	for len(queue) > 0 {
		v := queue[0]
		queue = queue[1:]
		var succ []*types.Func
		for w := range g.nodes[v].out {
			succ = append(succ, w)
		}
		sort.Slice(succ, func(i, j int) bool { return succ[i].FullName() < succ[j].FullName() })
		for _, w := range succ {
			if _, seen := parent[w]; !seen {
				parent[w] = v
				queue = append(queue, w)
			}
		}
	}
	return parent
}
