#!/bin/bash
# usage: run_demo.sh <repo-dir> <demo_test.go file> [go test args...]
# Copies <repo-dir> (without .git) to a scratch directory under /tmp, drops the demo test
# into internal/zzdemo, runs it, and removes the scratch copy. Not part of any check.
set -u
export GOFLAGS=-mod=mod GOPROXY=off GOSUMDB=off GOTOOLCHAIN=local; unset GOWORK
repo="$1"; demo="$2"; shift 2
S=$(mktemp -d /tmp/cogdemo.XXXXXX)
rsync -a --exclude .git "$repo"/ "$S"/
mkdir -p "$S/internal/zzdemo"
cp "$demo" "$S/internal/zzdemo/zz_demo_test.go"
(cd "$S" && go test -count=1 -v ./internal/zzdemo/ "$@" 2>&1 | grep -v "^=== RUN" | head -80)
rc=$?
rm -rf "$S"
# every scratch copy has its own path, so the build cache grows with each demo: keep it below 20 GB
# (never while a check is loading /repo: go/packages reads export data from that cache, and a check whose cache
# vanishes under it fails with "package … without types was imported")
if [ "$(du -s "$(go env GOCACHE)" 2>/dev/null | cut -f1)" -gt 20000000 ] 2>/dev/null && ! pgrep -f 'bin/cogcheck|thorough.sh' >/dev/null 2>&1; then go clean -cache >/dev/null 2>&1; fi
exit $rc
