package main

// C04 — no panic, no hang. Engine E6 "cgraph" (+ local dataflow).
//
// Only the clauses listed in DESIGN.md §3.C04 are decided; nil-dereference and
// index-range safety in general are not.

import (
	"fmt"
	"go/ast"
	"go/token"
	"go/types"
	"sort"
	"strings"

	"golang.org/x/tools/go/packages"
)

func init() { register("C04", checkC04) }

// isLookupFunc: cog functions that fetch an object/builder/schema designated
// by a reference or a name, or that resolve a reference to what it designates.
func isLookupFunc(fn *types.Func) bool {
	if fn == nil || fn.Pkg() == nil || !strings.HasPrefix(fn.Pkg().Path(), modulePath) {
		return false
	}
	n := fn.Name()
	return strings.HasPrefix(n, "Locate") || strings.HasPrefix(n, "Resolve")
}

func checkC04(ctx *Ctx, r *Report) {
	r.Explanation = "Structural clauses, each a necessary condition for a part of the property (a reported site is a potential panic/hang; on the pinned tree every reported site was triaged): (1) bounded recursion through references — on the cog-only call graph (static calls, interface calls by class hierarchy, func-typed fields by the values stored into them), every recursive call whose argument derives from the result of an object lookup / reference resolution is guarded: by a visited set or depth bound, or by a dominating kind test restricting the looked-up type to a leaf kind (scalar/enum: nothing to descend into); closures bound to a local variable and calling it are recursion too; lookups include every function returning what a Locate*/Resolve* function returned; loops whose variable is reassigned from a lookup result leave on an already visited reference; a loop that runs until a queue is empty while functions reachable from its body refill that queue skips entries it has already handled; (2) no explicit panic(...) is reachable from the pipeline entry points; (3) single-value type assertions on `any` values are dominated by a comma-ok assertion / type switch on the same expression or sit in the reviewed table; (4) pointers returned with a found-flag/error by cog lookups are not used where the flag was discarded; (5) in the JSON-family parsers, constant indexing into slices owned by the schema libraries is dominated by a length / non-nil / type-presence guard; (6) selections through the kind-specific pointer members of ast.Type (.Scalar, .Ref, .Array, …) on an indexed or ranged collection element are dominated by a kind test on that element (or by a kind-equality with a tested element); (7) every access to a kind-specific member of ast.Type anywhere in cog (AsStruct(), .Struct.…, *.Scalar, …: the accessors dereference a pointer that is nil for any other kind) is dominated by a test that the same access path has that kind — recognised: enclosing conditions, && / || operands, switch on Kind, loop conditions, earlier exit guards, boolean locals, kind-equality with a tested path, Visitor On<K> callbacks, values built by a constructor of that kind, copies and aliases, cog predicates whose body implies a kind (summaries derived from source), (Type, bool) resolvers whose true result has one kind, and — for parameters — the same test at every call site up to five levels up (interface calls included); the type of an enum member is a scalar by construction (checked on every producer); 20 accesses sit in a reviewed table; (8) every constant index into a slice or a string (x.Args[0], parts[1], input[0]) is dominated by a length test on the same access path (len comparisons, non-empty string tests, HasPrefix, switch on len, literals / strings.Split / make of known length, aliases, and — for parameters — every call site), or relies on one of three IR invariants checked on their producers (enums have members, unions have branches, constraints carry an argument), or sits in a reviewed table (38 entries, 20 of them statements about the CUE API); (9) every selection through a pointer member of the IR other than the kind members (Option.Default, PathItem.Index / TypeHint, AssignmentValue.Argument / Envelope, PathIndex.Argument, factory arguments: 44 sites) is dominated by a non-nil test on the same access path, follows an assignment of an address in the same function, or sits in a reviewed table (8 entries); (10) every set that is both probed and filled in a function derives its keys the same way on both sides (a visited set probed with other keys than it is filled with never stops a worklist); (11) every function of a recursive component that leaves early when its argument is in a set records the argument in that set unconditionally between the test and the first call that can come back (translation tables, whose looked-up value is used, are not visited sets); (12) no `for {}` loop has only exits of the form `x == snapshot` with the snapshot taken of a value rather than of a size (no instance on the tree: the rule is run over built-in positive and negative examples on every check); (13) ast.Path values are non-empty at every producer (MakePath rejects \"\", path literals have elements): Last() / RemoveLast() and the converter index them; (14) pointer entries of the lists the configuration loader fills are nil-tested before use; (15) IR types decoded from the YAML configuration are validated before any accessor can run: (ast.Type).Validate has a clause per kind that rejects a nil payload, empty enums / unions and unknown kinds and descends into nested types, and every configuration struct from which a field chain reaches an ast.Type has a method (or its loader a function) that calls Validate on each chain without dropping the verdict; (16) in the compiler passes an IR node obtained from a lookup is stored elsewhere only through DeepCopy() (the visitors rewrite nodes in place: shared nodes are re-expanded at every visit); (17) on the inclusion graph of the templates of the five languages, an invocation that closes a cycle and follows a reference is excluded for collections defined in terms of themselves (isRecursiveCollection in the else-part, or resolvesToConstraints on every entry)."
	r.NotCovered = "non-constant indexes, constraints given literally in configuration files (their argument lists are not validated), nil dereference of other pointers (Object lookups through Get on missing keys, PathItem.Index, OptionDefault), stack depth on deeply nested acyclic input, time/space blow-up, panics inside third-party libraries."
	r.Exhaustive = true
	r.Assumptions = []string{"text/template converts a panic inside a template function into an error (safeCall): functions only invoked from templates are not entry-point reachable by static edges", "library slices are either nil or populated (a non-nil test is accepted as a guard for index 0)"}

	eng := newEffectsEngine(ctx)
	g := buildCallGraph(ctx, eng)
	r.Count("call graph nodes", len(g.nodes))
	like := c04Recursion(ctx, r, g)
	c04RefLoops(ctx, r, like)
	c04Worklists(ctx, r, g)
	c04VisitedProtocol(ctx, r, g)
	c04InterfaceEquality(ctx, r)
	c04UnfoldOnce(ctx, r)
	c04InterfaceEqualitySelfTest(ctx, r)
	c04Fixpoints(ctx, r)
	c04FixpointSelfTest(ctx, r)
	c04Panics(ctx, r, g)
	c04Assertions(ctx, r)
	c04Lookups(ctx, r)
	c04ParserFrontier(ctx, r)
	c04KindGuardedElements(ctx, r)
	c04VisitedKeyConsistency(ctx, r)
	c04KindGuardedAccess(ctx, r, eng)
	c04EnumMemberScalar(ctx, r)
	c04ReflectIndexes(ctx, r)
	c04OpenAPINilSchemas(ctx, r)
	c04ConstantIndexes(ctx, r, eng)
	c04NonEmptyInvariants(ctx, r)
	c04PathInvariant(ctx, r)
	c04NilGuardedMembers(ctx, r, eng)
	cfgNilEntries(ctx, r)
	cfgNilMaps(ctx, r)
	c04ConfigTypesValidated(ctx, r)
	c04SharedNodes(ctx, r, g)
	c04TemplateRecursion(ctx, r)
	c20StrictHelper(ctx, r)
	c04CueDepthBounded(ctx, r, g)
	c04FourthHunt(ctx, r)
	c04FifthHunt(ctx, r)
	c06ListAliasExpandedOnce(ctx, r)
}

// ---------------------------------------------------------------------------
// (1) recursion through references

// c04LookupLike: functions that hand out what a reference designates: the Locate*/Resolve*
// family, plus (fixpoint) every cog function that returns a value derived from one of them.
func c04LookupLike(ctx *Ctx, g *callGraph) map[*types.Func]bool {
	like := map[*types.Func]bool{}
	for fn := range g.nodes {
		if isLookupFunc(fn) {
			like[fn] = true
		}
	}
	for changed := true; changed; {
		changed = false
		for fn, n := range g.nodes {
			if like[fn] {
				continue
			}
			sig := fn.Type().(*types.Signature)
			carries := false
			for i := 0; i < sig.Results().Len(); i++ {
				t := sig.Results().At(i).Type()
				if typeContainsRef(t) && !isErrorType(t) {
					carries = true
				}
			}
			if !carries {
				continue
			}
			info := n.pkg.TypesInfo
			derived := c04LookupDerived(info, n.decl, like)
			found := false
			ast.Inspect(n.decl.Body, func(m ast.Node) bool {
				if _, ok := m.(*ast.FuncLit); ok {
					return false
				}
				rs, ok := m.(*ast.ReturnStmt)
				if !ok {
					return true
				}
				for _, res := range rs.Results {
					if t := info.TypeOf(res); t == nil || !typeContainsRef(t) || isErrorType(t) {
						continue
					}
					// the returned expression is itself the looked-up value (or a part of it), not something computed from it
					e := ast.Unparen(res)
					if c, ok := e.(*ast.CallExpr); ok {
						if f := callee(info, c); f != nil && like[f.Origin()] {
							found = true
						}
						continue
					}
					if id := rootIdent(e); id != nil && isAccessPath(e) {
						if _, ok := derived[objOf(info, id)]; ok {
							found = true
						}
					}
				}
				return true
			})
			if found {
				like[fn] = true
				changed = true
			}
		}
	}
	return like
}

func isAccessPath(e ast.Expr) bool {
	switch x := ast.Unparen(e).(type) {
	case *ast.Ident:
		return true
	case *ast.SelectorExpr:
		return isAccessPath(x.X)
	case *ast.StarExpr:
		return isAccessPath(x.X)
	case *ast.IndexExpr:
		return isAccessPath(x.X)
	}
	return false
}

func isErrorType(t types.Type) bool {
	return t != nil && t.String() == "error"
}

// c04LookupDerived: locals of fd that (transitively) hold the result of a lookup.
func c04LookupDerived(info *types.Info, fd *ast.FuncDecl, like map[*types.Func]bool) map[types.Object]ast.Expr {
	isLookup := func(call *ast.CallExpr) bool {
		return isLookupCall(info, call, like)
	}
	lookupDerived := map[types.Object]ast.Expr{}
	for changed := true; changed; {
		changed = false
		ast.Inspect(fd.Body, func(m ast.Node) bool {
			var lhs []ast.Expr
			var rhsList []ast.Expr
			switch x := m.(type) {
			case *ast.AssignStmt:
				lhs, rhsList = x.Lhs, x.Rhs
			case *ast.RangeStmt:
				// `for _, f := range resolved.Struct.Fields`
				if x.Value != nil {
					lhs, rhsList = []ast.Expr{x.Value}, []ast.Expr{x.X}
				}
			case *ast.ValueSpec:
				for _, nm := range x.Names {
					lhs = append(lhs, nm)
				}
				rhsList = x.Values
			default:
				return true
			}
			var from ast.Expr
			for _, rhs := range rhsList {
				ast.Inspect(rhs, func(k ast.Node) bool {
					if _, ok := k.(*ast.FuncLit); ok {
						return false
					}
					if call, ok := k.(*ast.CallExpr); ok && isLookup(call) {
						from = call
					}
					if id, ok := k.(*ast.Ident); ok {
						if src, ok := lookupDerived[objOf(info, id)]; ok && from == nil {
							from = src
						}
					}
					return true
				})
			}
			if from != nil {
				for _, l := range lhs {
					if id, ok := l.(*ast.Ident); ok && id.Name != "_" {
						if o := objOf(info, id); o != nil {
							if _, seen := lookupDerived[o]; !seen {
								// only values that can carry a type onward
								if typeContainsRef(o.Type()) && !isErrorType(o.Type()) {
									lookupDerived[o] = from
									changed = true
								}
							}
						}
					}
				}
			}
			return true
		})
	}
	return lookupDerived
}

// isLookupCall: the call hands out what a reference designates — a Locate*/Resolve* function, a function that
// returns what one of them returned (like), or a table of IR types / objects read by key (objectsToInline.Get(ref)).
func isLookupCall(info *types.Info, call *ast.CallExpr, like map[*types.Func]bool) bool {
	fn := callee(info, call)
	if fn == nil {
		return false
	}
	if isLookupFunc(fn) || like[fn.Origin()] {
		return true
	}
	if fn.Name() == "Get" && fn.Pkg() != nil && fn.Pkg().Path() == omapPkgPath {
		if t := info.TypeOf(call); t != nil && irCarrier(t) {
			return true
		}
	}
	return false
}

func c04Recursion(ctx *Ctx, r *Report, g *callGraph) map[*types.Func]bool {
	like := c04LookupLike(ctx, g)
	r.Count("lookup-like functions (Locate*/Resolve* and functions returning what they return)", len(like))
	comps := g.sccs()
	r.Count("recursive SCCs", len(comps))
	r.Floor("recursive SCCs", 30)
	edges := 0
	for _, c := range comps {
		member := map[*types.Func]bool{}
		for _, f := range c {
			member[f] = true
		}
		for _, f := range c {
			n := g.nodes[f]
			info := n.pkg.TypesInfo
			parents := parentMap(n.decl)
			lookupDerived := c04LookupDerived(info, n.decl, like)
			seen := map[string]int{}
			for _, call := range n.calls {
				fn := callee(info, call)
				calleeName := ""
				if lit := n.closureRec[call]; lit != nil {
					calleeName = exprString(call.Fun) + "[closure]"
				} else if fn != nil && member[fn.Origin()] {
					calleeName = fn.Name()
				} else {
					continue
				}
				var derivedArg ast.Expr
				for _, a := range call.Args {
					ast.Inspect(a, func(k ast.Node) bool {
						if id, ok := k.(*ast.Ident); ok {
							if _, ok := lookupDerived[objOf(info, id)]; ok {
								derivedArg = a
							}
						}
						if c2, ok := k.(*ast.CallExpr); ok && isLookupCall(info, c2, nil) {
							derivedArg = a
						}
						return true
					})
				}
				if derivedArg == nil {
					continue
				}
				edges++
				cons := fmt.Sprintf("%s → %s(%s)", ctx.FuncName(f), calleeName, exprString(derivedArg))
				seen[cons]++
				if seen[cons] > 1 {
					cons = fmt.Sprintf("%s #%d", cons, seen[cons])
				}
				guard := c04RecursionGuard(info, n.decl, parents, call, derivedArg)
				if guard == "" {
					guard = c04RefCaseOnly(info, n, parents, call, derivedArg, lookupDerived, len(c) == 1)
				}
				if guard == "" {
					guard = c04FiniteValueDescent(info, n.decl, parents, call)
				}
				if guard == "" {
					if why, ok := c04RecursionExemptions[cons]; ok {
						guard = "reviewed: " + why
					}
				}
				r.Check(guard != "", "cgraph/bounded-recursion", cons, call.Pos(), guard,
					"the recursion follows a reference (the argument comes from an object lookup / reference resolution) without a visited set, a depth bound, or a kind test restricting the looked-up type to a leaf kind: a recursive definition (A: [...A], M: [string]: M, V: string | [...V], N: {children: [...N]}) or a reference cycle makes cog recurse until the stack overflows (a fatal error, not a recoverable panic)")
			}
		}
	}
	r.Count("reference-following recursive call edges", edges)
	r.Floor("reference-following recursive call edges", 10)
	return like
}

// c04RecursionGuard returns a description of the guard, or "".
func c04RecursionGuard(info *types.Info, fd *ast.FuncDecl, parents map[ast.Node]ast.Node, call *ast.CallExpr, arg ast.Expr) string {
	// (a) visited set / depth bound: the function (or literal) tests membership in a map/set and
	//     inserts into it, or compares an integer parameter with a bound, before recursing.
	visited := ""
	ast.Inspect(fd.Body, func(n ast.Node) bool {
		is, ok := n.(*ast.IfStmt)
		if !ok || is.Pos() > call.Pos() || len(is.Body.List) == 0 {
			return true
		}
		exits := false
		switch last := is.Body.List[len(is.Body.List)-1].(type) {
		case *ast.ReturnStmt:
			exits = true
		case *ast.BranchStmt:
			exits = last.Tok == token.CONTINUE || last.Tok == token.BREAK
		}
		if !exits {
			return true
		}
		// the test must be on the way to the call: the statement list holding it also holds (a statement holding)
		// the call, and leaving a loop only counts when the call sits in that loop too
		onTheWay := true
		for q := parents[ast.Node(is)]; q != nil && !containsNode(q, call); q = parents[q] {
			switch b := q.(type) {
			case *ast.BlockStmt:
				// a block that always returns never falls through to the call
				if len(b.List) > 0 {
					if _, returns := b.List[len(b.List)-1].(*ast.ReturnStmt); returns {
						onTheWay = false
					}
				}
			case *ast.FuncLit:
				onTheWay = false
			}
		}
		if !onTheWay {
			return true
		}
		if br, ok := is.Body.List[len(is.Body.List)-1].(*ast.BranchStmt); ok && br.Label == nil {
			var loop ast.Node
			for q := parents[ast.Node(is)]; q != nil && loop == nil; q = parents[q] {
				switch q.(type) {
				case *ast.ForStmt, *ast.RangeStmt:
					loop = q
				case *ast.FuncLit:
					q = nil
				}
				if q == nil {
					break
				}
			}
			if loop == nil || !containsNode(loop, call) {
				return true
			}
		}
		// membership test: `_, seen := m[k]; seen` / m.Has(k) / m[k] — on a container this function also fills before recursing
		isMember := false
		check := func(e ast.Node) {
			ast.Inspect(e, func(k ast.Node) bool {
				switch x := k.(type) {
				case *ast.IndexExpr:
					if _, isMap := info.TypeOf(x.X).Underlying().(*types.Map); isMap && c04FilledBefore(info, fd, x.X, call) {
						isMember = true
					}
				case *ast.CallExpr:
					if fn := callee(info, x); fn != nil && (fn.Name() == "Has" || fn.Name() == "Contains") {
						if sel, ok := x.Fun.(*ast.SelectorExpr); ok && c04FilledBefore(info, fd, sel.X, call) {
							isMember = true
						}
					}
				}
				return true
			})
		}
		check(is.Cond)
		if is.Init != nil {
			check(is.Init)
		}
		if isMember {
			visited = "visited-set test (" + exprString(is.Cond) + ") before recursing, on a set filled before the call"
		}
		// depth bound
		if be, ok := ast.Unparen(is.Cond).(*ast.BinaryExpr); ok && (be.Op == token.GTR || be.Op == token.GEQ || be.Op == token.LSS || be.Op == token.LEQ) {
			if b, ok := info.TypeOf(be.X).Underlying().(*types.Basic); ok && b.Info()&types.IsInteger != 0 {
				if id, ok := ast.Unparen(be.X).(*ast.Ident); ok {
					if v, ok := objOf(info, id).(*types.Var); ok && !v.IsField() {
						visited = "depth bound (" + exprString(is.Cond) + ")"
					}
				}
			}
		}
		return true
	})
	if visited != "" {
		return visited
	}
	// (b) a dominating kind test on the looked-up value that restricts it to a leaf kind
	//     (scalar, enum): such a type has no member through which the recursion could meet a
	//     reference again. A test for a composite kind (array, map, struct, disjunction, …) or
	//     a mere "is no longer a reference" test is NOT a guard: `A: [...A]`, `M: [string]: M`,
	//     `V: string | [...V]` are legal recursive definitions.
	kindGuard := func(cond ast.Expr, negated bool) string {
		out := ""
		ast.Inspect(cond, func(k ast.Node) bool {
			c, ok := k.(*ast.CallExpr)
			if !ok {
				return true
			}
			fn := callee(info, c)
			if fn == nil || fn.Pkg() == nil || fn.Pkg().Path() != astPkgPath {
				return true
			}
			switch fn.Name() {
			case "IsConcreteScalar", "IsScalar", "IsEnum", "IsAny", "IsAnyOf":
				// the tested value must be (part of) what is passed on
				if sel, ok := c.Fun.(*ast.SelectorExpr); ok {
					tested := rootIdent(sel.X)
					passed := rootIdent(arg)
					if tested != nil && passed != nil && objOf(info, tested) == objOf(info, passed) && !negated {
						if fn.Name() == "IsAnyOf" {
							for _, a := range c.Args {
								if sa := exprString(a); !strings.HasSuffix(sa, "KindScalar") && !strings.HasSuffix(sa, "KindEnum") {
									return true
								}
							}
						}
						out = "kind test " + exprString(c) + " on the looked-up type: recursion continues on a leaf type, which has no member to descend into"
					}
				}
			}
			return true
		})
		return out
	}
	for _, c := range enclosingConds(parents, call) {
		cond := c.stmt.Cond
		neg := c.inElse
		if u, ok := ast.Unparen(cond).(*ast.UnaryExpr); ok && u.Op == token.NOT {
			neg = !neg
		}
		if gdesc := kindGuard(cond, neg); gdesc != "" {
			return gdesc
		}
	}
	// switch on the kind of the looked-up object: `switch obj.Type.Kind { case KindMap: … }`
	for p := parents[ast.Node(call)]; p != nil; p = parents[p] {
		cc, ok := p.(*ast.CaseClause)
		if !ok {
			continue
		}
		sw, ok := parents[parents[cc]].(*ast.SwitchStmt)
		if !ok || sw.Tag == nil {
			continue
		}
		if f := fieldOf(info, sw.Tag); f != nil && f.Name() == "Kind" {
			tested, passed := rootIdent(sw.Tag), rootIdent(arg)
			if tested != nil && passed != nil && objOf(info, tested) == objOf(info, passed) {
				leafOnly := cc.List != nil
				for _, e := range cc.List {
					if se := exprString(e); !strings.HasSuffix(se, "KindScalar") && !strings.HasSuffix(se, "KindEnum") {
						leafOnly = false
					}
				}
				if leafOnly {
					return "switch on the kind of the looked-up type (case " + exprString(cc.List[0]) + "): recursion continues on a leaf type"
				}
			}
		}
	}
	return ""
}

// ---------------------------------------------------------------------------
// (2) reachable panics

var c04PanicExemptions = map[string]string{
	"internal/jennies/common.GeneratedCommentHeader panic #1": "the template parsed and executed here is a constant of the package: the panic is independent of any input",
}

// reviewed recursion edges (one reason each)
var c04RecursionExemptions = map[string]string{
	"internal/jennies/typescript.RawTypes.defaultValueForStructs → defaultValueForStructs(fieldType.AsStruct())": "each call consumes one nesting level of the (finite) default value: the recursion only continues while the value given for the field is itself an object",
	"internal/veneers.EnvelopeFieldValue.AsIR → AsIR(path)":                                                      "the recursion walks the (finite) veneers configuration value: AssignmentValue → Envelope → values; `path` is only the target path of that value",
	"internal/jennies/php.defaultValueForTypeRec → defaultValueForType(fieldOverrides)":                          "each call consumes one nesting level of the (finite) default-value object it was given",
	"internal/jennies/python.defaultValueForTypeRec → defaultValueForType(fieldOverrides)":                       "each call consumes one nesting level of the (finite) default-value object it was given",
	"internal/jennies/java.RawTypes.formatReferenceDefaults → genDefaultForType(v)":                              "each call consumes one nesting level of the (finite) default value `v` it was given: the recursion only continues while that value is a map holding an entry for the field",
	"internal/jennies/golang.typeFormatter.formatField → doFormatType(fieldType)":                                "fieldType is either the field's own type (structural recursion) or, under IsConcreteScalar, a scalar leaf",
}

func c04EntryPoints(ctx *Ctx) []*types.Func {
	var roots []*types.Func
	add := func(f *types.Func) {
		if f != nil {
			roots = append(roots, f)
		}
	}
	for _, m := range []string{"Run", "LoadSchemas", "ContextForLanguage"} {
		add(ctx.LookupMethod("internal/codegen", "Pipeline", m))
	}
	add(ctx.LookupFunc("internal/codegen", "PipelineFromFile"))
	add(ctx.LookupMethod(".", "SchemaToTypesPipeline", "Run"))
	add(ctx.LookupMethod("internal/yaml", "CompilerLoader", "PassesFrom"))
	add(ctx.LookupMethod("internal/yaml", "VeneersLoader", "RewriterFrom"))
	// cmd/cli commands
	for _, rel := range []string{"cmd/cli/generate", "cmd/cli/inspect"} {
		if p := ctx.Pkg(rel); p != nil {
			for _, n := range p.Types.Scope().Names() {
				if f, ok := p.Types.Scope().Lookup(n).(*types.Func); ok {
					add(f)
				}
			}
		}
	}
	return roots
}

func c04Panics(ctx *Ctx, r *Report, g *callGraph) {
	roots := c04EntryPoints(ctx)
	if len(roots) < 6 {
		r.Undecided("anchor lost: pipeline entry points (%d resolved)", len(roots))
		return
	}
	reach := g.reachableFrom(roots)
	r.Count("functions reachable from the entry points", len(reach))
	r.Floor("functions reachable from the entry points", 400)
	total := 0
	placeholders := 0
	var fns []*types.Func
	for f := range g.nodes {
		fns = append(fns, f)
	}
	sort.Slice(fns, func(i, j int) bool { return fns[i].FullName() < fns[j].FullName() })
	for _, f := range fns {
		n := g.nodes[f]
		info := n.pkg.TypesInfo
		k := 0
		parents := parentMap(n.decl)
		ast.Inspect(n.decl.Body, func(m ast.Node) bool {
			call, ok := m.(*ast.CallExpr)
			if !ok || !isBuiltinCall(info, call, "panic") {
				return true
			}
			total++
			// inside a function literal used only as a template function? (FuncMap value)
			if fl := enclosingFuncLit(parents, call); fl != nil {
				if kv, ok := parents[fl].(*ast.KeyValueExpr); ok {
					if cl, ok := parents[kv].(*ast.CompositeLit); ok && strings.Contains(types.TypeString(info.TypeOf(cl), nil), "FuncMap") {
						placeholders++
						return true
					}
				}
			}
			k++
			cons := fmt.Sprintf("%s panic #%d", ctx.FuncName(f), k)
			if _, reachable := reach[f]; !reachable {
				r.OK("cgraph/no-reachable-panic", cons, call.Pos(), "not reachable from the pipeline entry points by static call edges")
				return true
			}
			// path for the report
			var path []string
			for cur := f; cur != nil; cur = reach[cur] {
				path = append(path, ctx.FuncName(cur))
				if len(path) > 6 {
					break
				}
			}
			if why, ok := c04PanicExemptions[cons]; ok {
				r.OK("cgraph/no-reachable-panic", cons, call.Pos(), "exempt: "+why)
				return true
			}
			r.Bad("cgraph/no-reachable-panic", cons, call.Pos(), "explicit panic reachable from an entry point (callers, innermost first: "+strings.Join(path, " ← ")+"): instead of returning an error the run crashes")
			return true
		})
	}
	r.Count("explicit panic sites", total)
	r.Count("template function placeholders (panic recovered by text/template)", placeholders)
	r.OK("cgraph/no-reachable-panic", "template function placeholders", token.NoPos, fmt.Sprintf("%d placeholder closures in FuncMap literals: only invoked by text/template, whose safeCall turns their panic into an error", placeholders))
}

// ---------------------------------------------------------------------------
// (3) unchecked single-value type assertions

// reviewed assertions that cannot fail (one reason each); keyed by function + asserted expression
var c04AssertionTable = map[string]string{
	"internal/jennies/template.Template.builtins v[i].(string)":                                       "the `dict` template helper: only ever invoked by text/template, whose safeCall turns the panic into an error returned by the run",
	"internal/jennies/common.maybeGet data[key].(T)":                                                  "only reachable through the apiDeclare* template functions: recovered by text/template's safeCall",
	"internal/jsonschema.generator.walkObject schema.AdditionalProperties.(*schemaparser.Schema)":     "preceded by the guard `_, ok := AdditionalProperties.(bool); if AdditionalProperties == nil || ok { return }`, and the schema library only stores nil, a bool or a *Schema there",
	"internal/jennies/typescript.RawTypes.defaultValuesForReference typeDef.Default.(map[string]any)": "guarded by hasStructDefaults(…, typeDef.Default), which is exactly the comma-ok form of this assertion",
}

// reviewed discarded lookup flags
var c04LookupTable = map[string]string{
	"internal/veneers/builder.composeBuilderForType uses Locate #1": "every builder's Package is copied from a schema of the very slice handed to the rewriter and no veneer changes it: the lookup cannot fail inside the pipeline",
}

func c04Assertions(ctx *Ctx, r *Report) {
	n := 0
	ctx.AllFuncDecls(func(p *packages.Package, fd *ast.FuncDecl, obj *types.Func) {
		if fd.Body == nil || strings.HasPrefix(p.PkgPath, modulePath+"/cmd/") {
			return
		}
		info := p.TypesInfo
		parents := parentMap(fd)
		seen := map[string]int{}
		ast.Inspect(fd.Body, func(m ast.Node) bool {
			ta, ok := m.(*ast.TypeAssertExpr)
			if !ok || ta.Type == nil {
				return true
			}
			// comma-ok form?
			if as, ok := parents[ta].(*ast.AssignStmt); ok && len(as.Lhs) == 2 && len(as.Rhs) == 1 {
				return true
			}
			if vs, ok := parents[ta].(*ast.ValueSpec); ok && len(vs.Names) == 2 {
				return true
			}
			n++
			key := ctx.FuncName(obj) + " " + exprString(ta)
			seen[key]++
			cons := key
			if seen[key] > 1 {
				cons = fmt.Sprintf("%s #%d", key, seen[key])
			}
			// dominated by a comma-ok assertion / type switch on the same expression to the same type
			guarded := ""
			ast.Inspect(fd.Body, func(k ast.Node) bool {
				switch x := k.(type) {
				case *ast.IfStmt:
					if !containsNode(x.Body, ta) && !(x.Pos() < ta.Pos() && endsInExit(x.Body)) {
						return true
					}
					// if _, ok := X.(T); ok { … ta … }   or   if _, ok := X.(T); !ok { return }
					if as, ok := x.Init.(*ast.AssignStmt); ok && len(as.Rhs) == 1 {
						if t2, ok := ast.Unparen(as.Rhs[0]).(*ast.TypeAssertExpr); ok && len(as.Lhs) == 2 && sameAccessPath(info, t2.X, ta.X) && t2.Type != nil && types.Identical(info.TypeOf(t2.Type), info.TypeOf(ta.Type)) {
							// polarity: `ok` for the body form, `!ok` for the early-exit form
							okID, _ := as.Lhs[1].(*ast.Ident)
							cond := ast.Unparen(x.Cond)
							negated := false
							if u, isNot := cond.(*ast.UnaryExpr); isNot && u.Op == token.NOT {
								negated, cond = true, ast.Unparen(u.X)
							}
							if okID != nil && isIdentOf(info, cond, objOf(info, okID)) && negated == !containsNode(x.Body, ta) {
								guarded = "dominated by a comma-ok assertion of the same expression to the same type"
							}
						}
					}
				case *ast.AssignStmt:
					if len(x.Lhs) == 2 && len(x.Rhs) == 1 && x.Pos() < ta.Pos() {
						if t2, ok := ast.Unparen(x.Rhs[0]).(*ast.TypeAssertExpr); ok && sameAccessPath(info, t2.X, ta.X) && t2.Type != nil && types.Identical(info.TypeOf(t2.Type), info.TypeOf(ta.Type)) {
							// followed by `if !ok { return }`
							okID, _ := x.Lhs[1].(*ast.Ident)
							ast.Inspect(fd.Body, func(j ast.Node) bool {
								if is, ok := j.(*ast.IfStmt); ok && is.Pos() > x.Pos() && is.Pos() < ta.Pos() && endsInExit(is.Body) {
									if u, ok := ast.Unparen(is.Cond).(*ast.UnaryExpr); ok && u.Op == token.NOT && okID != nil && isIdentOf(info, u.X, objOf(info, okID)) {
										guarded = "preceded by a comma-ok assertion whose failure leaves the function"
									}
								}
								return true
							})
						}
					}
				case *ast.TypeSwitchStmt:
					// only a switch on the very expression asserted, in a clause that lists the asserted type alone
					if containsNode(x.Body, ta) && typeSwitchCovers(info, x, ta) {
						guarded = "inside the clause of a type switch on the same expression that lists the asserted type"
					}
				}
				return true
			})
			// kind-guarded scalar payloads: x.Scalar.Value.(string) under `ScalarKind == KindString` / IsConcreteScalar…
			if guarded == "" {
				for _, c := range enclosingConds(parents, ta) {
					txt := exprString(c.stmt.Cond)
					if strings.Contains(txt, "KindString") && strings.Contains(types.TypeString(info.TypeOf(ta.Type), nil), "string") && !c.inElse {
						guarded = "guarded by a scalar-kind test (" + txt + ") on the value's type"
					}
				}
			}
			if guarded == "" {
				if why, ok := c04AssertionTable[key]; ok {
					guarded = "reviewed: " + why
					// entries that rely on a guard in the same function: re-verify the guard
					if strings.Contains(why, "preceded by the guard") && !boolOrNilGuard(info, fd, ta) {
						guarded = ""
					}
					if strings.Contains(why, "guarded by hasStructDefaults") {
						okG := false
						for _, c := range enclosingConds(parents, ta) {
							if strings.Contains(exprString(c.stmt.Cond), "hasStructDefaults") && !c.inElse {
								okG = true
							}
						}
						if !okG {
							guarded = ""
						}
					}
				}
			}
			r.Check(guarded != "", "flow/checked-assertion", cons, ta.Pos(), guarded,
				"single-value type assertion "+exprString(ta)+" on a value whose dynamic type comes from the input or from user configuration: if it holds anything else cog panics with an interface-conversion error")
			return true
		})
	})
	r.Count("single-value type assertions", n)
	r.Floor("single-value type assertions", 15)
}

func endsInExit(b *ast.BlockStmt) bool {
	if b == nil || len(b.List) == 0 {
		return false
	}
	switch last := b.List[len(b.List)-1].(type) {
	case *ast.ReturnStmt:
		return true
	case *ast.BranchStmt:
		return last.Tok == token.CONTINUE || last.Tok == token.BREAK
	}
	return false
}

// ---------------------------------------------------------------------------
// (4) pointer-returning lookups

func c04Lookups(ctx *Ctx, r *Report) {
	n := 0
	errT := types.Universe.Lookup("error").Type()
	ctx.AllFuncDecls(func(p *packages.Package, fd *ast.FuncDecl, obj *types.Func) {
		if fd.Body == nil {
			return
		}
		info := p.TypesInfo
		k := 0
		ast.Inspect(fd.Body, func(m ast.Node) bool {
			as, ok := m.(*ast.AssignStmt)
			if !ok || len(as.Lhs) != 2 || len(as.Rhs) != 1 {
				return true
			}
			call, ok := ast.Unparen(as.Rhs[0]).(*ast.CallExpr)
			if !ok {
				return true
			}
			fn := callee(info, call)
			if fn == nil || fn.Pkg() == nil || !strings.HasPrefix(fn.Pkg().Path(), modulePath) {
				return true
			}
			sig := fn.Type().(*types.Signature)
			if sig.Results().Len() != 2 {
				return true
			}
			if _, isPtr := sig.Results().At(0).Type().Underlying().(*types.Pointer); !isPtr {
				return true
			}
			flagT := sig.Results().At(1).Type()
			if b, ok := flagT.Underlying().(*types.Basic); !(ok && b.Kind() == types.Bool) && !types.Identical(flagT, errT) {
				return true
			}
			n++
			flagID, _ := as.Lhs[1].(*ast.Ident)
			ptrID, _ := as.Lhs[0].(*ast.Ident)
			if flagID == nil || ptrID == nil || ptrID.Name == "_" {
				return true
			}
			k++
			cons := fmt.Sprintf("%s uses %s #%d", ctx.FuncName(obj), fn.Name(), k)
			if flagID.Name != "_" {
				r.OK("flow/checked-lookup", cons, as.Pos(), "the found-flag / error is bound")
				return true
			}
			// flag discarded: the pointer must not be dereferenced
			ptr := objOf(info, ptrID)
			deref := token.NoPos
			ast.Inspect(fd.Body, func(k ast.Node) bool {
				if sel, ok := k.(*ast.SelectorExpr); ok && isIdentOf(info, sel.X, ptr) && sel.Pos() > as.End() {
					deref = sel.Pos()
				}
				if st, ok := k.(*ast.StarExpr); ok && isIdentOf(info, st.X, ptr) {
					deref = st.Pos()
				}
				// handed to another function, which cannot know that the lookup failed
				if c, ok := k.(*ast.CallExpr); ok && c.Pos() > as.End() {
					for _, a := range c.Args {
						if isIdentOf(info, a, ptr) {
							deref = a.Pos()
						}
					}
				}
				return true
			})
			// a nil test on the pointer replaces the flag
			ast.Inspect(fd.Body, func(k ast.Node) bool {
				if be, ok := k.(*ast.BinaryExpr); ok && (be.Op == token.EQL || be.Op == token.NEQ) {
					if (isIdentOf(info, be.X, ptr) && isNilIdent(info, be.Y)) || (isIdentOf(info, be.Y, ptr) && isNilIdent(info, be.X)) {
						deref = token.NoPos
					}
				}
				return true
			})
			if why, ok := c04LookupTable[cons]; ok && deref != token.NoPos {
				r.OK("flow/checked-lookup", cons, as.Pos(), "reviewed: "+why)
				return true
			}
			r.Check(deref == token.NoPos, "flow/checked-lookup", cons, as.Pos(), "flag discarded but the pointer is not dereferenced",
				fmt.Sprintf("the found-flag of %s is discarded and the returned pointer is dereferenced or handed to another function (at %s) without a nil test: for a missing entry cog dereferences nil", fn.Name(), ctx.Pos(deref)))
			return true
		})
	})
	r.Count("pointer-returning lookups", n)
	r.Floor("pointer-returning lookups", 5)
}

// ---------------------------------------------------------------------------
// (5) parser frontier, JSON family

func c04ParserFrontier(ctx *Ctx, r *Report) {
	libs := map[string]bool{"github.com/santhosh-tekuri/jsonschema/v5": true, "github.com/getkin/kin-openapi/openapi3": true}
	n := 0
	for _, rel := range []string{"internal/jsonschema", "internal/openapi"} {
		p := ctx.Pkg(rel)
		if p == nil {
			r.Undecided("parser package %s not found", rel)
			continue
		}
		info := p.TypesInfo
		for _, file := range p.Syntax {
			for _, d := range file.Decls {
				fd, ok := d.(*ast.FuncDecl)
				if !ok || fd.Body == nil {
					continue
				}
				fobj, _ := info.Defs[fd.Name].(*types.Func)
				parents := parentMap(fd)
				seen := map[string]int{}
				ast.Inspect(fd.Body, func(m ast.Node) bool {
					ix, ok := m.(*ast.IndexExpr)
					if !ok {
						return true
					}
					tv := info.Types[ix.Index]
					if tv.Value == nil {
						return true
					}
					if _, isSlice := info.TypeOf(ix.X).Underlying().(*types.Slice); !isSlice {
						return true
					}
					// base: field of / call on a library-declared value
					base := ast.Unparen(ix.X)
					fromLib := false
					switch b := base.(type) {
					case *ast.SelectorExpr:
						if f := fieldOf(info, b); f != nil && f.Pkg() != nil && libs[f.Pkg().Path()] {
							fromLib = true
						}
					case *ast.CallExpr:
						if fn := callee(info, b); fn != nil && fn.Pkg() != nil && libs[fn.Pkg().Path()] {
							fromLib = true
						}
					}
					if !fromLib {
						return true
					}
					n++
					key := ctx.FuncName(fobj) + " " + exprString(ix)
					seen[key]++
					cons := key
					if seen[key] > 1 {
						cons = fmt.Sprintf("%s #%d", key, seen[key])
					}
					guard := ""
					mentionsBase := func(e ast.Node) bool {
						found := false
						ast.Inspect(e, func(k ast.Node) bool {
							if ex, ok := k.(ast.Expr); ok && sameAccessPath(info, ex, base) {
								found = true
							}
							// Type.Is(...)/Includes(...) on the same owner
							if c, ok := k.(*ast.CallExpr); ok {
								if fn := callee(info, c); fn != nil && (fn.Name() == "Is" || fn.Name() == "Includes" || fn.Name() == "Permits") {
									if sel, ok := c.Fun.(*ast.SelectorExpr); ok {
										if bc, ok := base.(*ast.CallExpr); ok {
											if bs, ok := bc.Fun.(*ast.SelectorExpr); ok && sameAccessPath(info, sel.X, bs.X) {
												found = true
											}
										}
									}
								}
							}
							return !found
						})
						return found
					}
					for _, c := range enclosingConds(parents, ix) {
						if mentionsBase(c.stmt.Cond) {
							guard = "enclosing condition on the same slice (" + exprString(c.stmt.Cond) + ")"
						}
					}
					ast.Inspect(fd.Body, func(k ast.Node) bool {
						is, ok := k.(*ast.IfStmt)
						if ok && is.Pos() < ix.Pos() && endsInExit(is.Body) && mentionsBase(is.Cond) {
							guard = "earlier guard on the same slice (" + exprString(is.Cond) + ") that leaves the function"
						}
						if ok && is.End() < ix.Pos() && is.Else == nil && mentionsBase(is.Cond) && strings.Contains(exprString(is.Cond), "== 0") && repairsEmptiness(info, is.Body, base) {
							guard = "earlier test of the same slice (" + exprString(is.Cond) + ") whose body makes it non-empty"
						}
						if sw, ok := k.(*ast.SwitchStmt); ok && containsNode(sw, ix) {
							for _, cc := range sw.Body.List {
								cl := cc.(*ast.CaseClause)
								if !containsNode(cl, ix) {
									continue
								}
								for _, e := range cl.List {
									if mentionsBase(e) {
										guard = "switch case on the same slice (" + exprString(e) + ")"
									}
								}
							}
						}
						return true
					})
					// single-purpose unexported helper: every caller guards
					if guard == "" && !fobj.Exported() {
						guard = c04CallersGuard(ctx, p, fobj, base)
					}
					r.Check(guard != "", "flow/parser-frontier", cons, ix.Pos(), guard,
						"constant index into a slice owned by the schema library ("+exprString(base)+") without a length / non-nil / type-presence guard: a schema that leaves it empty makes cog panic with index out of range")
					return true
				})
			}
		}
	}
	r.Count("constant indexes into library slices", n)
	r.Floor("constant indexes into library slices", 4)
}

// c04CallersGuard: every call site of the helper in its package is dominated by a condition
// mentioning the same field on the caller's argument.
func c04CallersGuard(ctx *Ctx, p *packages.Package, helper *types.Func, base ast.Expr) string {
	info := p.TypesInfo
	var fieldName string
	switch b := base.(type) {
	case *ast.SelectorExpr:
		fieldName = b.Sel.Name
	case *ast.CallExpr:
		if s, ok := b.Fun.(*ast.SelectorExpr); ok {
			fieldName = s.Sel.Name
			if inner, ok := ast.Unparen(s.X).(*ast.SelectorExpr); ok {
				fieldName = inner.Sel.Name
			}
		}
	}
	if fieldName == "" {
		return ""
	}
	sites, guarded := 0, 0
	for _, file := range p.Syntax {
		for _, d := range file.Decls {
			fd, ok := d.(*ast.FuncDecl)
			if !ok || fd.Body == nil {
				continue
			}
			parents := parentMap(fd)
			ast.Inspect(fd.Body, func(m ast.Node) bool {
				c, ok := m.(*ast.CallExpr)
				if !ok || callee(info, c) != helper {
					return true
				}
				sites++
				ok2 := false
				for _, cond := range enclosingConds(parents, c) {
					if strings.Contains(exprString(cond.stmt.Cond), fieldName) {
						ok2 = true
					}
				}
				for par := parents[ast.Node(c)]; par != nil; par = parents[par] {
					if cc, isCase := par.(*ast.CaseClause); isCase {
						for _, e := range cc.List {
							if strings.Contains(exprString(e), fieldName) {
								ok2 = true
							}
						}
					}
				}
				if ok2 {
					guarded++
				}
				return true
			})
		}
	}
	if sites > 0 && sites == guarded {
		return fmt.Sprintf("unexported helper: each of its %d call sites is guarded by a condition on %s", sites, fieldName)
	}
	// one more level: the helper's callers are themselves unexported helpers whose call sites are all guarded
	if sites > 0 && depthOfCallersGuard < 2 {
		depthOfCallersGuard++
		defer func() { depthOfCallersGuard-- }()
		all := true
		n := 0
		for _, file := range p.Syntax {
			for _, d := range file.Decls {
				fd, ok := d.(*ast.FuncDecl)
				if !ok || fd.Body == nil {
					continue
				}
				calls := false
				ast.Inspect(fd.Body, func(m ast.Node) bool {
					if c, ok := m.(*ast.CallExpr); ok && callee(info, c) == helper {
						calls = true
					}
					return true
				})
				if !calls {
					continue
				}
				caller, _ := info.Defs[fd.Name].(*types.Func)
				if caller == nil || caller.Exported() {
					all = false
					continue
				}
				n++
				if c04CallersGuard(ctx, p, caller, base) == "" {
					all = false
				}
			}
		}
		if all && n > 0 {
			return fmt.Sprintf("unexported helper: every caller (%d) is itself only called under a condition on %s", n, fieldName)
		}
	}
	return ""
}

var depthOfCallersGuard int

// c04KindGuardedElements: a selection through a kind-specific pointer member of ast.Type
// (x.Scalar.F, x.Ref.F, …) whose base is an *element* of a collection of types — an indexed
// expression or a range variable — must be dominated by a kind test on that same element
// (directly, or through an equality of kinds with an element that is tested). This is the
// "tested one element, used another" shape; member accesses on a function's own parameters,
// whose kind is established by the caller, are not decided (see NOT COVERED).
func c04KindGuardedElements(ctx *Ctx, r *Report) {
	typeT := ctx.LookupType("internal/ast", "Type")
	if typeT == nil {
		r.Undecided("anchor lost: ast.Type")
		return
	}
	st := typeT.Underlying().(*types.Struct)
	members := map[*types.Var]bool{}
	for i := 0; i < st.NumFields(); i++ {
		if _, ok := st.Field(i).Type().(*types.Pointer); ok {
			members[st.Field(i)] = true
		}
	}
	total := 0
	ctx.AllFuncDecls(func(p *packages.Package, fd *ast.FuncDecl, obj *types.Func) {
		if fd.Body == nil || p.PkgPath == astPkgPath {
			return
		}
		info := p.TypesInfo
		parents := parentMap(fd)
		rangeVars := map[types.Object]bool{}
		ast.Inspect(fd.Body, func(n ast.Node) bool {
			if rs, ok := n.(*ast.RangeStmt); ok {
				if id, ok := rs.Value.(*ast.Ident); ok && namedOf(info.TypeOf(id)) == typeT {
					rangeVars[objOf(info, id)] = true
				}
			}
			return true
		})
		seen := map[string]int{}
		ast.Inspect(fd.Body, func(n ast.Node) bool {
			sel, ok := n.(*ast.SelectorExpr)
			if !ok {
				return true
			}
			inner, ok := ast.Unparen(sel.X).(*ast.SelectorExpr)
			if !ok {
				return true
			}
			f := fieldOf(info, inner)
			if f == nil || !members[f] {
				return true
			}
			base := ast.Unparen(inner.X)
			isElement := false
			if _, ok := base.(*ast.IndexExpr); ok && namedOf(info.TypeOf(base)) == typeT {
				isElement = true
			}
			if id, ok := base.(*ast.Ident); ok && rangeVars[objOf(info, id)] {
				isElement = true
			}
			if !isElement {
				return true
			}
			total++
			// kind tests on an expression
			kindTested := func(cond ast.Node, e ast.Expr) bool {
				found := false
				ast.Inspect(cond, func(k ast.Node) bool {
					if c, ok := k.(*ast.CallExpr); ok {
						if s, ok := c.Fun.(*ast.SelectorExpr); ok && sameAccessPath(info, s.X, e) && strings.HasPrefix(s.Sel.Name, "Is") {
							found = true
						}
					}
					if be, ok := k.(*ast.BinaryExpr); ok {
						if fs := fieldOf(info, be.X); fs != nil && fs.Name() == "Kind" && fs.Pkg() != nil && fs.Pkg().Path() == astPkgPath {
							if s, ok := ast.Unparen(be.X).(*ast.SelectorExpr); ok && sameAccessPath(info, s.X, e) {
								if _, isSel := ast.Unparen(be.Y).(*ast.SelectorExpr); isSel && fieldOf(info, be.Y) == nil {
									found = true // compared with a Kind constant
								}
							}
						}
						if fieldOf(info, be.X) == f && isNilIdent(info, be.Y) {
							if s, ok := ast.Unparen(be.X).(*ast.SelectorExpr); ok && sameAccessPath(info, s.X, e) {
								found = true
							}
						}
					}
					return !found
				})
				return found
			}
			guardedExpr := func(e ast.Expr) bool {
				for _, c := range enclosingConds(parents, sel) {
					if kindTested(c.stmt.Cond, e) {
						return true
					}
				}
				// short-circuit: `x.IsRef() && x.Ref.F == …` — the selection sits in the right operand of a conjunction
				// whose left operand tests the kind
				child := ast.Node(sel)
				for p := parents[child]; p != nil; child, p = p, parents[p] {
					if _, isExpr := p.(ast.Expr); !isExpr {
						break
					}
					if be, ok := p.(*ast.BinaryExpr); ok && be.Op == token.LAND && child == ast.Node(be.Y) && kindTested(be.X, e) {
						return true
					}
				}
				g := false
				ast.Inspect(fd.Body, func(k ast.Node) bool {
					if is, ok := k.(*ast.IfStmt); ok && is.Pos() < sel.Pos() && endsInExit(is.Body) && kindTested(is.Cond, e) {
						g = true
					}
					return true
				})
				return g
			}
			guarded := guardedExpr(base)
			if !guarded {
				// equality of kinds with a tested element: `if a.Kind != b.Kind { return }`
				ast.Inspect(fd.Body, func(k ast.Node) bool {
					is, ok := k.(*ast.IfStmt)
					if !ok || is.Pos() > sel.Pos() || !endsInExit(is.Body) {
						return true
					}
					be, ok := ast.Unparen(is.Cond).(*ast.BinaryExpr)
					if !ok || be.Op != token.NEQ {
						return true
					}
					lx, lok := ast.Unparen(be.X).(*ast.SelectorExpr)
					ry, rok := ast.Unparen(be.Y).(*ast.SelectorExpr)
					if !lok || !rok || lx.Sel.Name != "Kind" || ry.Sel.Name != "Kind" {
						return true
					}
					if sameAccessPath(info, lx.X, base) && guardedExpr(ry.X) || sameAccessPath(info, ry.X, base) && guardedExpr(lx.X) {
						guarded = true
					}
					return true
				})
			}
			key := ctx.FuncName(obj) + " " + exprString(sel)
			seen[key]++
			cons := key
			if seen[key] > 1 {
				cons = fmt.Sprintf("%s #%d", key, seen[key])
			}
			r.Check(guarded, "flow/kind-guarded-element", cons, sel.Pos(), "dominated by a kind test on the same element",
				"the kind-specific member "+exprString(inner)+" of a collection element is selected without a kind test on that element (another element may have been tested): a nil pointer is dereferenced when the element is of another kind")
			return true
		})
	})
	r.Count("kind-member selections on collection elements", total)
	r.Floor("kind-member selections on collection elements", 5)
}

// c04VisitedKeyConsistency: a set / map that is both probed (Has, Get, m[k]) and filled
// (Set, m[k] = …) must derive its keys the same way on both sides. When the probe of a
// worklist's visited set uses another derivation than the insertion, the guard never fires
// and the loop (or recursion) does not terminate on cyclic input.
func c04VisitedKeyConsistency(ctx *Ctx, r *Report) {
	type usage struct {
		reads, writes map[string]token.Pos
		name          string
	}
	n := 0
	ctx.AllFuncDecls(func(p *packages.Package, fd *ast.FuncDecl, obj *types.Func) {
		if fd.Body == nil {
			return
		}
		info := p.TypesInfo
		// local aliases: objects := rootObjects
		alias := map[types.Object]types.Object{}
		ast.Inspect(fd.Body, func(m ast.Node) bool {
			if as, ok := m.(*ast.AssignStmt); ok && len(as.Lhs) == len(as.Rhs) {
				for i, l := range as.Lhs {
					lid, lok := l.(*ast.Ident)
					rid, rok := ast.Unparen(as.Rhs[i]).(*ast.Ident)
					if lok && rok && objOf(info, lid) != nil && objOf(info, rid) != nil {
						alias[objOf(info, lid)] = objOf(info, rid)
					}
				}
			}
			return true
		})
		canon := func(o types.Object) types.Object {
			for i := 0; i < 4; i++ {
				if a, ok := alias[o]; ok && a != o {
					o = a
				} else {
					break
				}
			}
			return o
		}
		// identity of a container: local variable (canonical) or struct field
		containerOf := func(e ast.Expr) (any, string) {
			e = ast.Unparen(e)
			if f := fieldOf(info, e); f != nil {
				return f, f.Name()
			}
			if id, ok := e.(*ast.Ident); ok {
				if o := objOf(info, id); o != nil {
					return canon(o), id.Name
				}
			}
			return nil, ""
		}
		uses := map[any]*usage{}
		get := func(c any, name string) *usage {
			u := uses[c]
			if u == nil {
				u = &usage{reads: map[string]token.Pos{}, writes: map[string]token.Pos{}, name: name}
				uses[c] = u
			}
			return u
		}
		// keys bound by Iterate callbacks: param -> container iterated
		iterKey := map[types.Object]any{}
		var sig func(e ast.Expr, depth int) []string
		sig = func(e ast.Expr, depth int) []string {
			e = ast.Unparen(e)
			switch x := e.(type) {
			case *ast.CallExpr:
				name := ""
				switch f := x.Fun.(type) {
				case *ast.SelectorExpr:
					name = f.Sel.Name
				case *ast.Ident:
					name = f.Name
				}
				return []string{name}
			case *ast.Ident:
				if c, ok := iterKey[objOf(info, x)]; ok && depth < 2 {
					if u := uses[c]; u != nil {
						var out []string
						for k := range u.writes {
							out = append(out, k)
						}
						return out
					}
				}
				return []string{""}
			case *ast.BinaryExpr:
				return []string{"concat"}
			case *ast.SelectorExpr:
				return []string{"." + x.Sel.Name}
			case *ast.CompositeLit:
				// a key built field by field: one that leaves fields of its type out is not the key the whole value
				// gives (`RefType{ReferredType: name}` against `object.SelfRef`)
				if st, ok := info.TypeOf(x).Underlying().(*types.Struct); ok && len(x.Elts) < st.NumFields() {
					var set []string
					for _, el := range x.Elts {
						if kv, ok := el.(*ast.KeyValueExpr); ok {
							set = append(set, exprString(kv.Key))
						}
					}
					sort.Strings(set)
					return []string{"partial{" + strings.Join(set, ",") + "}"}
				}
			}
			return []string{""}
		}
		// pass 1: iterate bindings
		ast.Inspect(fd.Body, func(m ast.Node) bool {
			c, ok := m.(*ast.CallExpr)
			if !ok {
				return true
			}
			sel, ok := c.Fun.(*ast.SelectorExpr)
			if !ok || sel.Sel.Name != "Iterate" || len(c.Args) != 1 {
				return true
			}
			if fl, ok := c.Args[0].(*ast.FuncLit); ok && len(fl.Type.Params.List) > 0 && len(fl.Type.Params.List[0].Names) > 0 {
				if cont, _ := containerOf(sel.X); cont != nil {
					iterKey[info.Defs[fl.Type.Params.List[0].Names[0]]] = cont
				}
			}
			return true
		})
		// pass 2 (twice, so that iterate-bound keys see the writes of the iterated container)
		for round := 0; round < 2; round++ {
			ast.Inspect(fd.Body, func(m ast.Node) bool {
				switch x := m.(type) {
				case *ast.CallExpr:
					sel, ok := x.Fun.(*ast.SelectorExpr)
					if !ok || len(x.Args) == 0 {
						return true
					}
					fn := callee(info, x)
					if fn == nil || fn.Pkg() == nil || fn.Pkg().Path() != omapPkgPath {
						return true
					}
					cont, name := containerOf(sel.X)
					if cont == nil {
						return true
					}
					switch fn.Name() {
					case "Has", "Get":
						for _, s := range sig(x.Args[0], 0) {
							get(cont, name).reads[s] = x.Pos()
						}
					case "Set":
						for _, s := range sig(x.Args[0], 0) {
							get(cont, name).writes[s] = x.Pos()
						}
					}
				case *ast.IndexExpr:
					if _, isMap := info.TypeOf(x.X).Underlying().(*types.Map); !isMap {
						return true
					}
					if b, ok := info.TypeOf(x.Index).Underlying().(*types.Basic); !ok || b.Info()&types.IsString == 0 {
						return true
					}
					cont, name := containerOf(x.X)
					if cont == nil {
						return true
					}
					isWrite := false
					if as, ok := parentOf(fd, x).(*ast.AssignStmt); ok {
						for _, l := range as.Lhs {
							if l == ast.Expr(x) {
								isWrite = true
							}
						}
					}
					for _, s := range sig(x.Index, 0) {
						if isWrite {
							get(cont, name).writes[s] = x.Pos()
						} else {
							get(cont, name).reads[s] = x.Pos()
						}
					}
				}
				return true
			})
		}
		for _, u := range uses {
			if len(u.reads) == 0 || len(u.writes) == 0 {
				continue
			}
			n++
			keys := func(m map[string]token.Pos) []string {
				var out []string
				for k := range m {
					if k == "" {
						continue // a plain identifier says nothing about how the key was derived
					}
					out = append(out, k)
				}
				sort.Strings(out)
				return out
			}
			rk, wk := keys(u.reads), keys(u.writes)
			same := strings.Join(rk, ",") == strings.Join(wk, ",")
			// plain identifiers carry no information about their derivation: only compare when both sides are informative
			if !same && (len(rk) == 0 || len(wk) == 0) {
				same = true
			}
			var pos token.Pos
			for _, p2 := range u.reads {
				pos = p2
			}
			r.Check(same, "flow/visited-key-consistency", ctx.FuncName(obj)+" "+u.name, pos, "probes and insertions derive their keys the same way ("+strings.Join(rk, ",")+")",
				fmt.Sprintf("%s is probed with keys derived by {%s} but filled with keys derived by {%s}: a visited-set guard built on it never fires for keys on which the two derivations differ, and the traversal does not terminate on cyclic input", u.name, strings.Join(rk, ","), strings.Join(wk, ",")))
		}
	})
	r.Count("probed-and-filled sets", n)
	r.Floor("probed-and-filled sets", 8)
}

func parentOf(root ast.Node, target ast.Node) ast.Node {
	var parent ast.Node
	var stack []ast.Node
	ast.Inspect(root, func(n ast.Node) bool {
		if parent != nil {
			return false
		}
		if n == nil {
			stack = stack[:len(stack)-1]
			return true
		}
		if n == target && len(stack) > 0 {
			parent = stack[len(stack)-1]
			return false
		}
		stack = append(stack, n)
		return true
	})
	return parent
}

// boolOrNilGuard: before the assertion X.(T) the function leaves when X is nil or holds a bool:
// `_, ok := X.(bool); if X == nil || ok { return … }`.
func boolOrNilGuard(info *types.Info, fd *ast.FuncDecl, ta *ast.TypeAssertExpr) bool {
	found := false
	var okObj types.Object
	ast.Inspect(fd.Body, func(n ast.Node) bool {
		switch x := n.(type) {
		case *ast.AssignStmt:
			if len(x.Lhs) == 2 && len(x.Rhs) == 1 && x.Pos() < ta.Pos() {
				if t2, ok := ast.Unparen(x.Rhs[0]).(*ast.TypeAssertExpr); ok && sameAccessPath(info, t2.X, ta.X) && t2.Type != nil && info.TypeOf(t2.Type).String() == "bool" {
					if id, ok := x.Lhs[1].(*ast.Ident); ok {
						okObj = objOf(info, id)
					}
				}
			}
		case *ast.IfStmt:
			if okObj == nil || x.Pos() > ta.Pos() || !endsInExit(x.Body) {
				return true
			}
			be, ok := ast.Unparen(x.Cond).(*ast.BinaryExpr)
			if !ok || be.Op != token.LOR {
				return true
			}
			nilTest, okTest := false, false
			for _, side := range []ast.Expr{be.X, be.Y} {
				if isIdentOf(info, side, okObj) {
					okTest = true
				}
				if b2, ok := ast.Unparen(side).(*ast.BinaryExpr); ok && b2.Op == token.EQL && sameAccessPath(info, b2.X, ta.X) && isNilIdent(info, b2.Y) {
					nilTest = true
				}
			}
			if nilTest && okTest {
				found = true
			}
		}
		return true
	})
	return found
}

// c04RefCaseOnly: a function that is alone in its recursive component (or hands the looked-up value to no
// other call than its self-calls), whose every self-call sits in
// the branch handling a *reference* parameter (`case ast.KindRef:` of a switch on the parameter's
// kind, or `if p.IsRef()`), and which passes on a resolved value after leaving when that value is
// still a reference: the callee then takes another branch, in which there is no self-call. The
// recursion depth is at most two.
func c04RefCaseOnly(info *types.Info, n *cgNode, parents map[ast.Node]ast.Node, call *ast.CallExpr, arg ast.Expr, derived map[types.Object]ast.Expr, alone bool) string {
	inRefCase := func(c *ast.CallExpr) bool {
		for p := parents[ast.Node(c)]; p != nil; p = parents[p] {
			switch x := p.(type) {
			case *ast.CaseClause:
				sw, ok := parents[parents[x]].(*ast.SwitchStmt)
				if !ok || sw.Tag == nil {
					continue
				}
				if f := fieldOf(info, sw.Tag); f == nil || f.Name() != "Kind" {
					continue
				}
				if id := rootIdent(sw.Tag); id == nil || !isParamOf(info, n.decl, objOf(info, id)) {
					continue
				}
				if len(x.List) == 1 && strings.HasSuffix(exprString(x.List[0]), "KindRef") {
					return true
				}
			}
		}
		for _, ce := range enclosingConds(parents, c) {
			if ce.inElse {
				continue
			}
			if cc, ok := ast.Unparen(ce.stmt.Cond).(*ast.CallExpr); ok {
				if fn := callee(info, cc); fn != nil && fn.Name() == "IsRef" {
					if sel, ok := cc.Fun.(*ast.SelectorExpr); ok {
						if id := rootIdent(sel.X); id != nil && isParamOf(info, n.decl, objOf(info, id)) {
							return true
						}
					}
				}
			}
		}
		return false
	}
	for _, c := range n.calls {
		self := n.closureRec[c] != nil
		if fn := callee(info, c); fn != nil && fn.Origin() == n.fn {
			self = true
		}
		if self && !inRefCase(c) {
			return ""
		}
		if !self && !alone {
			// the call graph places other functions in the component (func literals are attributed to the
			// function containing them): no other call of this function may carry the looked-up value away
			for _, a := range c.Args {
				carried := false
				ast.Inspect(a, func(k ast.Node) bool {
					if id, ok := k.(*ast.Ident); ok {
						if _, ok := derived[objOf(info, id)]; ok {
							carried = true
						}
					}
					return true
				})
				if carried {
					return ""
				}
			}
		}
	}
	// the passed value is known not to be a reference any more
	refExit := ""
	ast.Inspect(n.decl.Body, func(m ast.Node) bool {
		is, ok := m.(*ast.IfStmt)
		if !ok || is.Pos() > call.Pos() || !endsInExit(is.Body) {
			return true
		}
		if c, ok := ast.Unparen(is.Cond).(*ast.CallExpr); ok {
			if fn := callee(info, c); fn != nil && fn.Name() == "IsRef" {
				if sel, ok := c.Fun.(*ast.SelectorExpr); ok {
					tested, passed := rootIdent(sel.X), rootIdent(arg)
					if tested != nil && passed != nil && objOf(info, tested) == objOf(info, passed) && isAccessPath(arg) && sameAccessPath(info, sel.X, arg) {
						refExit = "every self-call sits in the branch taken for a reference parameter, and the function leaves when the resolved value is still a reference (" + exprString(is.Cond) + "): the callee takes a branch without self-call (depth ≤ 2)"
					}
				}
			}
		}
		return true
	})
	return refExit
}

func isParamOf(info *types.Info, fd *ast.FuncDecl, o types.Object) bool {
	if o == nil || fd.Type.Params == nil {
		return false
	}
	for _, f := range fd.Type.Params.List {
		for _, nm := range f.Names {
			if info.Defs[nm] == o {
				return true
			}
		}
	}
	return false
}

// c04FilledBefore: the container expression is inserted into (m[k] = v, m.Set(k, …), m.Add(k)) in fd before `before`.
func c04FilledBefore(info *types.Info, fd *ast.FuncDecl, container ast.Expr, before ast.Node) bool {
	found := false
	ast.Inspect(fd.Body, func(n ast.Node) bool {
		if n == nil || found {
			return false
		}
		if n.Pos() > before.Pos() {
			return false
		}
		switch x := n.(type) {
		case *ast.AssignStmt:
			for _, l := range x.Lhs {
				if ix, ok := ast.Unparen(l).(*ast.IndexExpr); ok && sameAccessPath(info, ix.X, container) {
					found = true
				}
			}
		case *ast.CallExpr:
			if sel, ok := x.Fun.(*ast.SelectorExpr); ok && (sel.Sel.Name == "Set" || sel.Sel.Name == "Add") && sameAccessPath(info, sel.X, container) {
				found = true
			}
		}
		return true
	})
	return found
}

// c04RefLoops: a `for` loop whose loop-carried variable is reassigned from the result of a
// lookup (it follows references iteratively) needs a visited-set exit: aliases can form
// cycles (`A: B`, `B: A`) and types can be recursive (`A: [...A]`).
func c04RefLoops(ctx *Ctx, r *Report, like map[*types.Func]bool) {
	n := 0
	ctx.AllFuncDecls(func(p *packages.Package, fd *ast.FuncDecl, obj *types.Func) {
		if fd.Body == nil {
			return
		}
		info := p.TypesInfo
		idx := 0
		ast.Inspect(fd.Body, func(m ast.Node) bool {
			loop, ok := m.(*ast.ForStmt)
			if !ok {
				return true
			}
			// loop-carried variable: declared outside the loop, assigned inside from a value that a lookup
			// made in the loop produced (directly or through locals of the loop)
			var carried types.Object
			var carriedPos token.Pos
			local := map[types.Object]bool{}
			for changed := true; changed; {
				changed = false
				ast.Inspect(loop.Body, func(k ast.Node) bool {
					if _, ok := k.(*ast.FuncLit); ok {
						return false
					}
					as, ok := k.(*ast.AssignStmt)
					if !ok {
						return true
					}
					fromLookup := false
					for _, rhs := range as.Rhs {
						ast.Inspect(rhs, func(q ast.Node) bool {
							switch x := q.(type) {
							case *ast.CallExpr:
								if f := callee(info, x); f != nil && (isLookupFunc(f) || like[f.Origin()]) {
									fromLookup = true
								}
							case *ast.Ident:
								if local[objOf(info, x)] {
									fromLookup = true
								}
							}
							return true
						})
					}
					if !fromLookup {
						return true
					}
					for _, l := range as.Lhs {
						id, ok := l.(*ast.Ident)
						if !ok || id.Name == "_" {
							continue
						}
						o := objOf(info, id)
						if o == nil || !typeContainsRef(o.Type()) || isErrorType(o.Type()) {
							continue
						}
						if !local[o] {
							local[o] = true
							changed = true
						}
						if o.Pos() < loop.Pos() || o.Pos() > loop.End() {
							carried, carriedPos = o, as.Pos()
						}
					}
					return true
				})
			}
			if carried == nil {
				return true
			}
			n++
			idx++
			cons := fmt.Sprintf("%s loop #%d on %s", ctx.FuncName(obj), idx, carried.Name())
			guard := ""
			ast.Inspect(loop.Body, func(k ast.Node) bool {
				is, ok := k.(*ast.IfStmt)
				if !ok || len(is.Body.List) == 0 {
					return true
				}
				exits := false
				switch last := is.Body.List[len(is.Body.List)-1].(type) {
				case *ast.ReturnStmt:
					exits = true
				case *ast.BranchStmt:
					exits = last.Tok == token.BREAK
				}
				if !exits {
					return true
				}
				check := func(e ast.Node) {
					ast.Inspect(e, func(q ast.Node) bool {
						switch x := q.(type) {
						case *ast.IndexExpr:
							if _, isMap := info.TypeOf(x.X).Underlying().(*types.Map); isMap && c04FilledBefore(info, fd, x.X, loop.Body.List[len(loop.Body.List)-1]) {
								guard = "visited-set exit (" + exprString(is.Cond) + ") on a set filled in the loop"
							}
						case *ast.CallExpr:
							if fn := callee(info, x); fn != nil && (fn.Name() == "Has" || fn.Name() == "Contains") {
								if sel, ok := x.Fun.(*ast.SelectorExpr); ok && c04FilledBefore(info, fd, sel.X, loop.Body.List[len(loop.Body.List)-1]) {
									guard = "visited-set exit (" + exprString(is.Cond) + ") on a set filled in the loop"
								}
							}
						}
						return true
					})
				}
				check(is.Cond)
				if is.Init != nil {
					check(is.Init)
				}
				return true
			})
			if guard == "" {
				if why, ok := c04RecursionExemptions[cons]; ok {
					guard = "reviewed: " + why
				}
			}
			r.Check(guard != "", "flow/bounded-ref-loop", cons, carriedPos, guard,
				"the loop follows references (its variable "+carried.Name()+" is reassigned from the result of a lookup) without leaving on an already visited reference: an alias cycle (A: B, B: A) or a recursive definition makes it spin forever")
			return true
		})
	})
	r.Count("reference-following loops", n)
	r.Floor("reference-following loops", 5)
}

// c04Worklists: a loop that runs until a queue is empty while the work done in its body can put entries back into that
// queue terminates only if entries already handled are recognised: the body must skip (return / continue) on a membership
// test over a set it fills.
func c04Worklists(ctx *Ctx, r *Report, g *callGraph) {
	n := 0
	// who inserts into which field: field object -> functions containing `X.f.Set(…)`, `X.f = append(X.f, …)`, `X.f[k] = v`
	inserters := map[*types.Var]map[*types.Func]bool{}
	for fn, node := range g.nodes {
		info := node.pkg.TypesInfo
		ast.Inspect(node.decl.Body, func(m ast.Node) bool {
			var target ast.Expr
			switch x := m.(type) {
			case *ast.CallExpr:
				if sel, ok := x.Fun.(*ast.SelectorExpr); ok && (sel.Sel.Name == "Set" || sel.Sel.Name == "Add") {
					target = sel.X
				}
			case *ast.AssignStmt:
				for i, l := range x.Lhs {
					if ix, ok := ast.Unparen(l).(*ast.IndexExpr); ok {
						target = ix.X
					}
					if i < len(x.Rhs) {
						if c, ok := ast.Unparen(x.Rhs[i]).(*ast.CallExpr); ok {
							if id, ok := c.Fun.(*ast.Ident); ok && id.Name == "append" {
								target = l
							}
						}
					}
				}
			}
			if target != nil {
				if f := fieldOf(info, target); f != nil {
					if inserters[f] == nil {
						inserters[f] = map[*types.Func]bool{}
					}
					inserters[f][fn] = true
				}
			}
			return true
		})
	}
	for fn, node := range g.nodes {
		info := node.pkg.TypesInfo
		idx := 0
		ast.Inspect(node.decl.Body, func(m ast.Node) bool {
			loop, ok := m.(*ast.ForStmt)
			if !ok {
				return true
			}
			// queues whose emptiness ends the loop
			queues := map[*types.Var]string{}
			noteQueue := func(cond ast.Expr) {
				ast.Inspect(cond, func(k ast.Node) bool {
					c, ok := k.(*ast.CallExpr)
					if !ok {
						return true
					}
					var q ast.Expr
					if id, ok := c.Fun.(*ast.Ident); ok && id.Name == "len" && len(c.Args) == 1 {
						q = c.Args[0]
					}
					if sel, ok := c.Fun.(*ast.SelectorExpr); ok && sel.Sel.Name == "Len" {
						q = sel.X
					}
					if q != nil {
						if f := fieldOf(info, q); f != nil {
							queues[f] = exprString(q)
						}
					}
					return true
				})
			}
			if loop.Cond != nil {
				noteQueue(loop.Cond)
			}
			for _, st := range loop.Body.List {
				if is, ok := st.(*ast.IfStmt); ok && len(is.Body.List) == 1 {
					if b, ok := is.Body.List[0].(*ast.BranchStmt); ok && b.Tok == token.BREAK {
						noteQueue(is.Cond)
					}
				}
			}
			if len(queues) == 0 {
				return true
			}
			// functions reachable from the calls of the body
			var roots []*types.Func
			ast.Inspect(loop.Body, func(k ast.Node) bool {
				if c, ok := k.(*ast.CallExpr); ok {
					if f := callee(info, c); f != nil {
						roots = append(roots, f.Origin())
					}
				}
				return true
			})
			reach := g.reachableFrom(roots)
			for q, qs := range queues {
				refilledBy := ""
				for f := range inserters[q] {
					if _, ok := reach[f]; ok && f != fn {
						refilledBy = ctx.FuncName(f)
					}
				}
				if refilledBy == "" {
					continue
				}
				n++
				idx++
				cons := fmt.Sprintf("%s worklist on %s", ctx.FuncName(fn), qs)
				// a skip on a membership test over a set filled in the loop
				guard := ""
				ast.Inspect(loop.Body, func(k ast.Node) bool {
					is, ok := k.(*ast.IfStmt)
					if !ok || len(is.Body.List) == 0 {
						return true
					}
					exits := false
					switch last := is.Body.List[len(is.Body.List)-1].(type) {
					case *ast.ReturnStmt:
						exits = true
					case *ast.BranchStmt:
						exits = last.Tok == token.CONTINUE
					}
					if !exits {
						return true
					}
					check := func(e ast.Node) {
						ast.Inspect(e, func(z ast.Node) bool {
							switch x := z.(type) {
							case *ast.IndexExpr:
								if _, isMap := info.TypeOf(x.X).Underlying().(*types.Map); isMap && c04FilledBefore(info, node.decl, x.X, &ast.Ident{NamePos: loop.Body.End()}) {
									guard = "entries already handled are skipped (" + exprString(x) + ")"
								}
							case *ast.CallExpr:
								if f := callee(info, x); f != nil && (f.Name() == "Has" || f.Name() == "Contains") {
									if sel, ok := x.Fun.(*ast.SelectorExpr); ok && c04FilledBefore(info, node.decl, sel.X, &ast.Ident{NamePos: loop.Body.End()}) {
										guard = "entries already handled are skipped (" + exprString(x) + ")"
									}
								}
							}
							return true
						})
					}
					check(is.Cond)
					if is.Init != nil {
						check(is.Init)
					}
					return true
				})
				r.Check(guard != "", "flow/worklist-visited", cons, loop.Pos(), guard,
					fmt.Sprintf("the loop ends when %s is empty, and %s (reachable from its body) puts entries back into it; nothing in the body recognises an entry that was already handled: two entries that lead to each other (a recursive definition) keep the loop running forever", qs, refilledBy))
			}
			return true
		})
	}
	r.Count("worklist loops", n)
	r.Floor("worklist loops", 1)
}

// c04VisitedProtocol: a function of a recursive component that starts by leaving when its argument is already in a set
// (`if seen[k] { return }`, `if objects.Has(name) { return }`) records the argument in that set in the same block,
// unconditionally, before it calls back into the component. An insertion made under a further condition lets the
// excluded shapes recurse forever.
func c04VisitedProtocol(ctx *Ctx, r *Report, g *callGraph) {
	// wrappers that insert into a field: func -> field
	wrapper := map[*types.Func]*types.Var{}
	for fn, node := range g.nodes {
		if len(node.decl.Body.List) != 1 {
			continue
		}
		es, ok := node.decl.Body.List[0].(*ast.ExprStmt)
		if !ok {
			continue
		}
		if c, ok := es.X.(*ast.CallExpr); ok {
			if sel, ok := c.Fun.(*ast.SelectorExpr); ok && sel.Sel.Name == "Set" {
				if f := fieldOf(node.pkg.TypesInfo, sel.X); f != nil {
					wrapper[fn] = f
				}
			}
		}
	}
	n := 0
	for _, comp := range g.sccs() {
		member := map[*types.Func]bool{}
		for _, f := range comp {
			member[f] = true
		}
		for _, fn := range comp {
			node := g.nodes[fn]
			info := node.pkg.TypesInfo
			parents := parentMap(node.decl)
			// identity of a container expression: field object or local object
			ident := func(e ast.Expr) any {
				if f := fieldOf(info, e); f != nil {
					return f
				}
				if id, ok := ast.Unparen(e).(*ast.Ident); ok {
					return objOf(info, id)
				}
				return nil
			}
			ast.Inspect(node.decl.Body, func(m ast.Node) bool {
				guard, ok := m.(*ast.IfStmt)
				if !ok || !endsInExit(guard.Body) || guard.Else != nil {
					return true
				}
				// an exit written in a function literal leaves that literal (a template helper, a callback), not the
				// function of the recursive component: it guards no descent of that function
				for cur := parents[ast.Node(guard)]; cur != nil; cur = parents[cur] {
					if _, inLiteral := cur.(*ast.FuncLit); inLiteral {
						return true
					}
				}
				var container any
				var containerExpr ast.Expr
				probe := func(e ast.Node) {
					ast.Inspect(e, func(k ast.Node) bool {
						switch x := k.(type) {
						case *ast.IndexExpr:
							if _, isMap := info.TypeOf(x.X).Underlying().(*types.Map); isMap {
								container, containerExpr = ident(x.X), x.X
							}
						case *ast.CallExpr:
							if f := callee(info, x); f != nil && f.Name() == "Has" {
								if sel, ok := x.Fun.(*ast.SelectorExpr); ok {
									container, containerExpr = ident(sel.X), sel.X
								}
							}
						}
						return true
					})
				}
				// only positive membership: `if seen[k]`, `if _, found := m[k]; found`, `if x.Has(k)`
				if u, ok := ast.Unparen(guard.Cond).(*ast.UnaryExpr); ok && u.Op == token.NOT {
					return true
				}
				probe(guard.Cond)
				if guard.Init != nil {
					probe(guard.Init)
				}
				if container == nil {
					return true
				}
				// `if v, found := table[k]; found { return v }` looks a value up (a translation table, a memo), it does not
				// record visits
				if as, ok := guard.Init.(*ast.AssignStmt); ok && len(as.Lhs) == 2 {
					if vid, ok := as.Lhs[0].(*ast.Ident); ok && vid.Name != "_" {
						// the value itself is what the function answers with (`return v`, `return v, nil`); a stored value that
						// is only compared or quoted in an error (`seen[name] = location`) still records a visit
						usesValue := false
						ast.Inspect(guard.Body, func(k ast.Node) bool {
							if ret, ok := k.(*ast.ReturnStmt); ok {
								for _, res := range ret.Results {
									if id, ok := ast.Unparen(res).(*ast.Ident); ok && info.Uses[id] == info.Defs[vid] {
										usesValue = true
									}
								}
							}
							return true
						})
						if usesValue {
							return true
						}
					}
				}
				blk, ok := parents[ast.Node(guard)].(*ast.BlockStmt)
				if !ok {
					return true
				}
				// insertions into the same container anywhere in the function
				type ins struct {
					stmt ast.Stmt
					top  bool
				}
				var insertions []ins
				isInsertion := func(st ast.Node) bool {
					found := false
					ast.Inspect(st, func(k ast.Node) bool {
						switch x := k.(type) {
						case *ast.FuncLit:
							return false
						case *ast.AssignStmt:
							for _, l := range x.Lhs {
								if ix, ok := ast.Unparen(l).(*ast.IndexExpr); ok && ident(ix.X) == container {
									found = true
								}
							}
						case *ast.CallExpr:
							if sel, ok := x.Fun.(*ast.SelectorExpr); ok && (sel.Sel.Name == "Set" || sel.Sel.Name == "Add") && ident(sel.X) == container {
								found = true
							}
							if f := callee(info, x); f != nil {
								if wf, ok := wrapper[f.Origin()]; ok && any(wf) == container {
									found = true
								}
							}
						}
						return true
					})
					return found
				}
				ast.Inspect(node.decl.Body, func(k ast.Node) bool {
					st, ok := k.(ast.Stmt)
					if !ok || !isInsertion(st) {
						return true
					}
					switch st.(type) {
					case *ast.ExprStmt, *ast.AssignStmt:
						insertions = append(insertions, ins{st, parents[k] == ast.Node(blk)})
						return false
					}
					return true
				})
				if len(insertions) == 0 {
					return true
				}
				// first call back into the component after the guard, in source order
				firstRec := token.Pos(1 << 40)
				for _, c := range node.calls {
					if c.Pos() <= guard.End() {
						continue
					}
					if f := callee(info, c); f != nil && member[f.Origin()] && c.Pos() < firstRec {
						firstRec = c.Pos()
					}
					if node.closureRec[c] != nil && c.Pos() < firstRec {
						firstRec = c.Pos()
					}
				}
				if firstRec == token.Pos(1<<40) {
					return true
				}
				n++
				okP := false
				for _, in := range insertions {
					if in.top && in.stmt.Pos() > guard.End() && in.stmt.Pos() < firstRec {
						okP = true
					}
				}
				r.Check(okP, "flow/visited-before-descent", fmt.Sprintf("%s marks %s before descending", ctx.FuncName(fn), exprString(containerExpr)), guard.Pos(),
					"the argument is recorded in the set, unconditionally, between the membership test and the first call back into the recursive component",
					fmt.Sprintf("%s leaves when its argument is already in %s, but does not record it there unconditionally before calling back into its recursive component (the insertion is missing on some path, conditional, or comes after the recursive call): definitions that refer to themselves through the unrecorded shapes recurse until the stack overflows", ctx.FuncName(fn), exprString(containerExpr)))
				return true
			})
		}
	}
	r.Count("visited-set protocols in recursive components", n)
	r.Floor("visited-set protocols in recursive components", 3)
}

// c04Fixpoints: a `for` loop without condition whose only way out is "the value did not change in this iteration"
// terminates only if the iterated transformation reaches a fixed point: snapshots of sizes of growing sets are
// accepted (bounded by the finite universe they draw from); snapshots of strings or other unbounded values are not,
// unless the loop also counts its iterations.
func c04Fixpoints(ctx *Ctx, r *Report) {
	n := 0
	ctx.AllFuncDecls(func(p *packages.Package, fd *ast.FuncDecl, obj *types.Func) {
		if fd.Body == nil {
			return
		}
		info := p.TypesInfo
		parents := parentMap(fd)
		k := 0
		ast.Inspect(fd.Body, func(m ast.Node) bool {
			loop, ok := m.(*ast.ForStmt)
			if !ok || loop.Cond != nil || loop.Init != nil || loop.Post != nil {
				return true
			}
			// snapshots taken at the top of the body: `previous := x`
			snap := map[types.Object]ast.Expr{}
			for _, st := range loop.Body.List {
				if as, ok := st.(*ast.AssignStmt); ok && as.Tok == token.DEFINE && len(as.Lhs) == 1 && len(as.Rhs) == 1 {
					if id, ok := as.Lhs[0].(*ast.Ident); ok {
						snap[info.Defs[id]] = as.Rhs[0]
					}
				}
			}
			// exits of the loop
			var exits []ast.Node
			ast.Inspect(loop.Body, func(q ast.Node) bool {
				switch x := q.(type) {
				case *ast.FuncLit:
					return false
				case *ast.ForStmt, *ast.RangeStmt, *ast.SwitchStmt, *ast.SelectStmt:
					if q != ast.Node(loop.Body) {
						// a break inside belongs to the inner statement; returns still leave
						ast.Inspect(x, func(z ast.Node) bool {
							if _, ok := z.(*ast.FuncLit); ok {
								return false
							}
							if rs, ok := z.(*ast.ReturnStmt); ok {
								exits = append(exits, rs)
							}
							return true
						})
						return false
					}
				case *ast.BranchStmt:
					if x.Tok == token.BREAK {
						exits = append(exits, x)
					}
				case *ast.ReturnStmt:
					exits = append(exits, x)
				}
				return true
			})
			if len(exits) == 0 {
				return true
			}
			fixpointOnly := true
			unbounded := ""
			for _, e := range exits {
				isFix := false
				for _, ce := range enclosingConds(parents, e) {
					if ce.stmt.Pos() < loop.Pos() {
						continue
					}
					be, ok := ast.Unparen(ce.stmt.Cond).(*ast.BinaryExpr)
					if !ok || be.Op != token.EQL {
						continue
					}
					for _, side := range []ast.Expr{be.X, be.Y} {
						if id, ok := ast.Unparen(side).(*ast.Ident); ok {
							if src, ok := snap[objOf(info, id)]; ok {
								isFix = true
								// what is snapshotted?
								if t := info.TypeOf(src); t != nil {
									if b, ok := t.Underlying().(*types.Basic); ok && b.Info()&types.IsInteger != 0 {
										// a size (len / Len): bounded growth
									} else {
										unbounded = exprString(src)
									}
								}
							}
						}
					}
				}
				if !isFix {
					fixpointOnly = false
				}
			}
			if !fixpointOnly {
				return true
			}
			n++
			k++
			r.Check(unbounded == "", "flow/bounded-fixpoint", fmt.Sprintf("%s fixpoint loop #%d", ctx.FuncName(obj), k), loop.Pos(), "the loop iterates until a size stops growing: bounded by the finite set it draws from",
				fmt.Sprintf("the loop only ends when %s is the same as before the iteration: nothing bounds the number of iterations, and a transformation that keeps changing the value (a parameter referring to itself) never reaches a fixed point — the run hangs", unbounded))
			return true
		})
	})
	r.Count("fixpoint loops", n)
}

// typeSwitchCovers: ta sits in a clause of `switch [v :=] X.(type)` where X is ta.X (or ta.X is the bound
// variable) and every type listed by the clause is identical to the asserted one.
func typeSwitchCovers(info *types.Info, sw *ast.TypeSwitchStmt, ta *ast.TypeAssertExpr) bool {
	var subject ast.Expr
	var bound types.Object
	switch a := sw.Assign.(type) {
	case *ast.ExprStmt:
		if t, ok := ast.Unparen(a.X).(*ast.TypeAssertExpr); ok {
			subject = t.X
		}
	case *ast.AssignStmt:
		if len(a.Rhs) == 1 {
			if t, ok := ast.Unparen(a.Rhs[0]).(*ast.TypeAssertExpr); ok {
				subject = t.X
			}
		}
	}
	if subject == nil {
		return false
	}
	for _, st := range sw.Body.List {
		cc, ok := st.(*ast.CaseClause)
		if !ok || !containsNode(cc, ta) {
			continue
		}
		if a, ok := sw.Assign.(*ast.AssignStmt); ok && len(a.Lhs) == 1 {
			bound = info.Implicits[cc]
		}
		same := sameAccessPath(info, subject, ta.X)
		if !same && bound != nil {
			if id, ok := ast.Unparen(ta.X).(*ast.Ident); ok && info.Uses[id] == bound {
				same = true
			}
		}
		if !same || len(cc.List) == 0 {
			return false
		}
		want := info.TypeOf(ta.Type)
		for _, e := range cc.List {
			if t := info.TypeOf(e); t == nil || !types.Identical(t, want) {
				return false
			}
		}
		return true
	}
	return false
}

// c04CueDepthBounded: the CUE front-end walks values that CUE evaluates lazily: a definition that refines a
// reference to itself (`Node: {children: [...Node & {leaf: bool}]}`) is not a reference any more and unfolds for ever —
// a structural recursion over an infinite value, which the reference-following rule (cgraph/bounded-recursion) does
// not see. The entry of that recursion, generator.declareNode, counts its nesting in a field of the generator,
// restores it on exit and leaves with an error beyond a constant bound.
func c04CueDepthBounded(ctx *Ctx, r *Report, g *callGraph) {
	fn := ctx.LookupMethod("internal/simplecue", "generator", "declareNode")
	fd, p := ctx.DeclOf(fn)
	if fd == nil || fd.Body == nil {
		r.Undecided("anchor lost: simplecue.generator.declareNode")
		return
	}
	// it must be recursive at all for the obligation to make sense
	recursive := false
	for _, c := range g.sccs() {
		in := false
		for _, f := range c {
			if f == fn {
				in = true
			}
		}
		if in && len(c) > 1 {
			recursive = true
		}
	}
	if !recursive {
		r.OK("cgraph/cue-recursion-depth-bounded", "simplecue.generator.declareNode", fd.Pos(), "declareNode is not part of a recursive component")
		return
	}
	info := p.TypesInfo
	recv := info.Defs[fd.Recv.List[0].Names[0]]
	var counter *types.Var
	incAt, decDeferred, bounded := token.NoPos, false, false
	errT := types.Universe.Lookup("error").Type()
	ast.Inspect(fd.Body, func(n ast.Node) bool {
		switch x := n.(type) {
		case *ast.IncDecStmt:
			if s, ok := ast.Unparen(x.X).(*ast.SelectorExpr); ok && isIdentOf(info, s.X, recv) {
				if f := fieldOf(info, s); f != nil {
					if x.Tok == token.INC && !incAt.IsValid() {
						counter, incAt = f, x.Pos()
					}
				}
			}
		case *ast.DeferStmt:
			ast.Inspect(x.Call, func(m ast.Node) bool {
				if d, ok := m.(*ast.IncDecStmt); ok && d.Tok == token.DEC {
					if f := fieldOf(info, d.X); f != nil && f == counter {
						decDeferred = true
					}
				}
				return true
			})
		case *ast.IfStmt:
			if be, ok := ast.Unparen(x.Cond).(*ast.BinaryExpr); ok && (be.Op == token.GTR || be.Op == token.GEQ) {
				if f := fieldOf(info, be.X); f != nil && f == counter && counter != nil {
					if tv, ok := info.Types[be.Y]; ok && tv.Value != nil && blockReturnsError(info, x.Body, errT) {
						bounded = true
					}
				}
			}
		}
		return true
	})
	// the increment comes before any call back into the component
	first := token.NoPos
	ast.Inspect(fd.Body, func(n ast.Node) bool {
		if c, ok := n.(*ast.CallExpr); ok && !first.IsValid() {
			if f := callee(info, c); f != nil && f.Pkg() == p.Types && f != fn && strings.HasPrefix(f.Name(), "declare") {
				first = c.Pos()
			}
		}
		return true
	})
	ok := counter != nil && decDeferred && bounded && (!first.IsValid() || incAt < first)
	r.Check(ok, "cgraph/cue-recursion-depth-bounded", "simplecue.generator.declareNode", fd.Pos(), "the nesting depth is counted, restored on exit and compared with a constant bound before the node is expanded",
		"declareNode expands the value it is given without any bound on the nesting: CUE evaluates lazily, and `Node: {children: [...Node & {leaf: bool}]}` — a self-reference refined by a unification, which is no longer a reference — is unfolded until the stack overflows (a fatal error after ~14 s, or a hang with larger objects)")
}

// c04InterfaceEquality: `a == b` between two values of type `any` panics at run time when their dynamic type is not
// comparable (a list, a map: "comparing uncomparable type []interface {}"), and so does `m[k]` for a map keyed by `any`
// ("hash of unhashable type"). The values cog keeps in `any` fields — defaults, constants, enum values — are whatever
// the input document held. In the packages that handle the IR no `==` / `!=` has two operands of an empty interface
// type (nil and constants excepted), and no map keyed by an empty interface is indexed by a value that does not come
// out of a range over a map with the same key type.
func c04InterfaceEquality(ctx *Ctx, r *Report) {
	n := 0
	isAny := func(t types.Type) bool {
		if t == nil {
			return false
		}
		it, ok := t.Underlying().(*types.Interface)
		return ok && it.Empty()
	}
	ctx.AllFuncDecls(func(p *packages.Package, fd *ast.FuncDecl, obj *types.Func) {
		if fd.Body == nil {
			return
		}
		if !strings.Contains(p.PkgPath, "/internal/") && !strings.Contains(p.PkgPath, "/cmd/") {
			return
		}
		info := p.TypesInfo
		// keys that come out of a range over a map are hashable
		rangeKeys := map[types.Object]bool{}
		ast.Inspect(fd.Body, func(m ast.Node) bool {
			if rs, ok := m.(*ast.RangeStmt); ok {
				if _, isMap := info.TypeOf(rs.X).Underlying().(*types.Map); isMap {
					if id, ok := rs.Key.(*ast.Ident); ok {
						rangeKeys[info.Defs[id]] = true
					}
				}
			}
			return true
		})
		k := 0
		ast.Inspect(fd.Body, func(m ast.Node) bool {
			switch x := m.(type) {
			case *ast.BinaryExpr:
				if x.Op != token.EQL && x.Op != token.NEQ {
					return true
				}
				tx, ty := info.Types[x.X], info.Types[x.Y]
				if !isAny(tx.Type) || !isAny(ty.Type) || tx.IsNil() || ty.IsNil() || tx.Value != nil || ty.Value != nil {
					return true
				}
				n++
				k++
				r.Bad("flow/interface-values-compared-deeply", fmt.Sprintf("%s compares %s #%d", ctx.FuncName(obj), exprString(x), k), x.Pos(),
					fmt.Sprintf("%s compares two values of type any with %s: when both hold a list or a map (an enum member and a default taken from the input document) the comparison panics `comparing uncomparable type []interface {}`", ctx.FuncName(obj), x.Op))
			case *ast.IndexExpr:
				mt, ok := info.TypeOf(x.X).Underlying().(*types.Map)
				if !ok || !isAny(mt.Key()) {
					return true
				}
				tk := info.Types[x.Index]
				if tk.Value != nil || !isAny(tk.Type) {
					return true
				}
				if id, ok := ast.Unparen(x.Index).(*ast.Ident); ok && rangeKeys[objOf(info, id)] {
					return true
				}
				n++
				k++
				r.Bad("flow/interface-values-compared-deeply", fmt.Sprintf("%s indexes %s #%d", ctx.FuncName(obj), exprString(x), k), x.Pos(),
					fmt.Sprintf("%s uses a value of type any as a map key: a list or a map there panics `hash of unhashable type`", ctx.FuncName(obj)))
			}
			return true
		})
	})
	r.Count("comparisons / map keys of empty-interface values", n)
	if n == 0 {
		r.OK("flow/interface-values-compared-deeply", "values of type any in cog's own packages", token.NoPos, "none is compared with == or used as a map key")
	}
}

func c04InterfaceEqualitySelfTest(ctx *Ctx, r *Report) {
	selfTest(ctx, r, "flow/interface-values-compared-deeply", "any_values_compared", true, `package fx
func member(values []any, wanted any) int {
	for i, v := range values {
		if v == wanted {
			return i
		}
	}
	return -1
}`, c04InterfaceEquality)
	selfTest(ctx, r, "flow/interface-values-compared-deeply", "any_value_as_key", true, `package fx
func distinct(values []any) int {
	seen := make(map[any]struct{})
	for _, v := range values {
		seen[v] = struct{}{}
	}
	return len(seen)
}`, c04InterfaceEquality)
	selfTest(ctx, r, "flow/interface-values-compared-deeply", "any_values_deep_equal", false, `package fx
import "reflect"
func member(values []any, wanted any) int {
	for i, v := range values {
		if v != nil && reflect.DeepEqual(v, wanted) {
			return i
		}
	}
	return -1
}`, c04InterfaceEquality)
}

// c04UnfoldOnce: FlattenDisjunctions replaces a reference to a union by the branches of that union, recursively. The set
// of references *being* unfolded (entries deleted on the way back) stops cycles; it does not stop a union reached twice
// from being unfolded twice — and `Dn: D(n-1) | D(n-1) | bool` doubles the work at every level: 40 definitions do not
// return. Bounded time needs a second, monotone set — tested before the recursive call, inserted into, never deleted
// from — of the references already unfolded within the call.
func c04UnfoldOnce(ctx *Ctx, r *Report) {
	fn := ctx.LookupMethod("internal/ast/compiler", "FlattenDisjunctions", "flattenDisjunction")
	fd, p := ctx.DeclOf(fn)
	if fd == nil {
		r.Undecided("anchor lost: compiler.FlattenDisjunctions.flattenDisjunction")
		return
	}
	info := p.TypesInfo
	type setInfo struct{ tested, inserted, deleted bool }
	sets := map[types.Object]*setInfo{}
	// sets keyed by the reference being followed (`branch.Ref.String()`), not the set of branches already emitted
	byRef := func(key ast.Expr) bool { return strings.Contains(exprString(key), ".Ref") }
	get := func(e ast.Expr) *setInfo {
		id, ok := ast.Unparen(e).(*ast.Ident)
		if !ok {
			return nil
		}
		o := objOf(info, id)
		if o == nil {
			return nil
		}
		if _, isMap := o.Type().Underlying().(*types.Map); !isMap {
			return nil
		}
		if sets[o] == nil {
			sets[o] = &setInfo{}
		}
		return sets[o]
	}
	ast.Inspect(fd.Body, func(m ast.Node) bool {
		switch x := m.(type) {
		case *ast.IfStmt:
			if as, ok := x.Init.(*ast.AssignStmt); ok && len(as.Rhs) == 1 && endsInExit(x.Body) {
				if ix, ok := ast.Unparen(as.Rhs[0]).(*ast.IndexExpr); ok && byRef(ix.Index) {
					if si := get(ix.X); si != nil {
						si.tested = true
					}
				}
			}
		case *ast.AssignStmt:
			for _, l := range x.Lhs {
				if ix, ok := ast.Unparen(l).(*ast.IndexExpr); ok && byRef(ix.Index) {
					if si := get(ix.X); si != nil {
						si.inserted = true
					}
				}
			}
		case *ast.CallExpr:
			if isBuiltinCall(info, x, "delete") && len(x.Args) == 2 {
				if si := get(x.Args[0]); si != nil {
					si.deleted = true
				}
			}
		}
		return true
	})
	cycle, done := false, false
	for _, si := range sets {
		if si.tested && si.inserted && si.deleted {
			cycle = true
		}
		if si.tested && si.inserted && !si.deleted {
			done = true
		}
	}
	if !cycle {
		r.Undecided("anchor changed: flattenDisjunction no longer keeps the set of references being unfolded")
		return
	}
	r.Count("unfolding loops over referenced unions", 1)
	r.Check(done, "flow/unfold-once", "FlattenDisjunctions.flattenDisjunction unfolds a referenced union once", fd.Pos(), "a set of the references already unfolded is tested before the recursive call and never shrinks",
		"flattenDisjunction only remembers the references it is in the middle of unfolding: a union reached through two branches is unfolded twice, at every level — `D0: string | integer`, `Dn: D(n-1) | D(n-1) | boolean` takes 2^n steps for three branches, and 40 definitions do not return")
}

// c04FourthHunt — fourth hunt: three ways of taking 2^n steps on an input of n lines.
//   - checkDocumentShape follows aliases (and merge keys) before yaml.v3's own alias budget applies: what an anchor
//     holds is checked once — the alias case consults and fills a set keyed by the anchored node before it recurses;
//   - a function that *replaces a reference by a walk or a copy of what it designates* and only guards against cycles
//     with an in-progress set (set on the way in, `defer delete` on the way out) does the work once per path through
//     a DAG: openapi.walkRef and InlineObjectsWithTypes.processRef count what they inline and leave with an error
//     beyond a constant. Decided for every method of internal/openapi and internal/ast/compiler that has such a set
//     on its receiver.
func c04FourthHunt(ctx *Ctx, r *Report) {
	n := 0
	// (a)
	if fn := ctx.LookupFunc("internal/yaml", "checkDocumentShape"); fn == nil {
		r.Undecided("anchor lost: yaml.checkDocumentShape")
	} else if fd, p := ctx.DeclOf(fn); fd != nil {
		info := p.TypesInfo
		once := false
		ast.Inspect(fd.Body, func(m ast.Node) bool {
			cc, ok := m.(*ast.CaseClause)
			if !ok {
				return true
			}
			kinds := ""
			for _, e := range cc.List {
				kinds += exprString(e) + " "
			}
			if !strings.Contains(kinds, "AliasNode") {
				return true
			}
			// the recursive call on node.Alias
			var recursion token.Pos
			ast.Inspect(cc, func(k ast.Node) bool {
				if c, ok := k.(*ast.CallExpr); ok && callee(info, c) == fn && len(c.Args) > 0 && strings.HasSuffix(exprString(c.Args[0]), ".Alias") {
					recursion = c.Pos()
				}
				return true
			})
			if !recursion.IsValid() {
				return false
			}
			// before it: a comma-ok lookup in a map that leaves, and a store into the same map
			var looked, stored types.Object
			ast.Inspect(cc, func(k ast.Node) bool {
				switch x := k.(type) {
				case *ast.IfStmt:
					if x.Pos() > recursion || !endsInExit(x.Body) {
						return true
					}
					if as, ok := x.Init.(*ast.AssignStmt); ok && len(as.Lhs) == 2 && len(as.Rhs) == 1 {
						if ix, ok := ast.Unparen(as.Rhs[0]).(*ast.IndexExpr); ok {
							if id, ok := ast.Unparen(ix.X).(*ast.Ident); ok {
								if _, isMap := info.TypeOf(ix.X).Underlying().(*types.Map); isMap {
									looked = objOf(info, id)
								}
							}
						}
					}
				case *ast.AssignStmt:
					if x.Pos() > recursion || len(x.Lhs) != 1 {
						return true
					}
					if ix, ok := ast.Unparen(x.Lhs[0]).(*ast.IndexExpr); ok {
						if id, ok := ast.Unparen(ix.X).(*ast.Ident); ok {
							stored = objOf(info, id)
						}
					}
				}
				return true
			})
			if looked != nil && looked == stored {
				once = true
			}
			return false
		})
		n++
		r.Check(once, "flow/alias-checked-once", "yaml.checkDocumentShape follows an alias", fd.Pos(), "after looking the anchored node up in a set of what was already checked, and adding it",
			"checkDocumentShape follows every alias it meets, with no memory of what it already checked: 40 anchors each using the previous one twice (`- &l1 {<<: [*l0, *l0]}` …, 1.2 KB) cost 2^40 visits before yaml.v3, which refuses the document in a millisecond (excessive aliasing), gets to see it — PipelineFromFile never returns")
	}
	// (b)
	inliners := 0
	for _, rel := range []string{"internal/openapi", "internal/ast/compiler"} {
		p := ctx.Pkg(rel)
		if p == nil {
			r.Undecided("anchor lost: %s", rel)
			continue
		}
		info := p.TypesInfo
		for _, file := range p.Syntax {
			for _, d := range file.Decls {
				fd, ok := d.(*ast.FuncDecl)
				if !ok || fd.Body == nil || fd.Recv == nil || len(fd.Recv.List) != 1 || len(fd.Recv.List[0].Names) != 1 {
					continue
				}
				recv := info.Defs[fd.Recv.List[0].Names[0]]
				// an in-progress set on the receiver: `defer delete(recv.f, k)`
				var set *types.Var
				ast.Inspect(fd.Body, func(m ast.Node) bool {
					ds, ok := m.(*ast.DeferStmt)
					if !ok || len(ds.Call.Args) != 2 {
						return true
					}
					if id, ok := ast.Unparen(ds.Call.Fun).(*ast.Ident); !ok || id.Name != "delete" {
						return true
					}
					if sel, ok := ast.Unparen(ds.Call.Args[0]).(*ast.SelectorExpr); ok && isIdentOf(info, sel.X, recv) {
						set = fieldOf(info, sel)
					}
					return true
				})
				if set == nil {
					continue
				}
				inliners++
				// a counter on the receiver, incremented here and compared with a constant under an error exit
				counters := map[*types.Var]bool{}
				ast.Inspect(fd.Body, func(m ast.Node) bool {
					if inc, ok := m.(*ast.IncDecStmt); ok && inc.Tok == token.INC {
						// `recv.n++`, or `*recv.n++` when the receiver is a value and the counter is shared through a pointer
						target := ast.Unparen(inc.X)
						if star, ok := target.(*ast.StarExpr); ok {
							target = ast.Unparen(star.X)
						}
						if sel, ok := target.(*ast.SelectorExpr); ok && isIdentOf(info, sel.X, recv) {
							if f := fieldOf(info, sel); f != nil {
								counters[f] = true
							}
						}
					}
					return true
				})
				bounded := false
				ast.Inspect(fd.Body, func(m ast.Node) bool {
					is, ok := m.(*ast.IfStmt)
					if !ok || len(is.Body.List) == 0 {
						return true
					}
					rs, ok := is.Body.List[len(is.Body.List)-1].(*ast.ReturnStmt)
					if !ok || len(rs.Results) == 0 || isNilIdent(info, rs.Results[len(rs.Results)-1]) {
						return true
					}
					be, ok := ast.Unparen(is.Cond).(*ast.BinaryExpr)
					if !ok || (be.Op != token.GTR && be.Op != token.GEQ) {
						return true
					}
					left := ast.Unparen(be.X)
					if star, ok := left.(*ast.StarExpr); ok {
						left = ast.Unparen(star.X)
					}
					sel, ok := left.(*ast.SelectorExpr)
					if !ok || !counters[fieldOf(info, sel)] {
						return true
					}
					if tv, ok := info.Types[be.Y]; ok && tv.Value != nil {
						bounded = true
					}
					return true
				})
				fobj, _ := info.Defs[fd.Name].(*types.Func)
				n++
				r.Check(bounded, "flow/inlining-bounded", ctx.FuncName(fobj)+" guards its recursion with the in-progress set "+set.Name(), fd.Pos(), "and counts what it inlines: beyond a constant it leaves with an error",
					ctx.FuncName(fobj)+" only guards against cycles (the set "+set.Name()+" is emptied on the way out): a reference reached through k paths at each of n levels is expanded k^n times — a valid 7 KB OpenAPI document (40 schemas whose nested object refers twice to the next one's) or 42 lines of CUE with PHP among the outputs never return")
			}
		}
	}
	r.Count("methods guarding a recursion with an in-progress set on their receiver (front-ends, passes)", inliners)
	r.Floor("methods guarding a recursion with an in-progress set on their receiver (front-ends, passes)", 2)
	r.Count("hunted clauses of termination (4th hunt)", n)
	r.Floor("hunted clauses of termination (4th hunt)", 3)
}

// c04FiniteValueDescent: the recursive call sits in a loop over the components of a decoded value — `items` from
// `value.([]any)` / `value.(map[string]any)`, `value` a parameter of interface type — and hands one component on: the
// recursion is structural on a literal of the schema (a default, a constant), which is finite whatever the types refer
// to.
func c04FiniteValueDescent(info *types.Info, decl *ast.FuncDecl, parents map[ast.Node]ast.Node, call *ast.CallExpr) string {
	params := map[types.Object]bool{}
	if decl.Type.Params != nil {
		for _, f := range decl.Type.Params.List {
			for _, name := range f.Names {
				if o := info.Defs[name]; o != nil {
					if _, isIface := o.Type().Underlying().(*types.Interface); isIface {
						params[o] = true
					}
				}
			}
		}
	}
	// variables holding a component list of such a parameter
	components := map[types.Object]string{}
	// position of each parameter: the component has to travel in the position of the value it was taken from
	position := map[types.Object]int{}
	if decl.Type.Params != nil {
		i := 0
		for _, f := range decl.Type.Params.List {
			for _, name := range f.Names {
				position[info.Defs[name]] = i
				i++
			}
		}
	}
	origin := map[types.Object]types.Object{}
	ast.Inspect(decl.Body, func(m ast.Node) bool {
		as, ok := m.(*ast.AssignStmt)
		if !ok || len(as.Rhs) != 1 || len(as.Lhs) == 0 {
			return true
		}
		ta, ok := ast.Unparen(as.Rhs[0]).(*ast.TypeAssertExpr)
		if !ok || ta.Type == nil {
			return true
		}
		src, ok := ast.Unparen(ta.X).(*ast.Ident)
		if !ok || !params[info.Uses[src]] {
			return true
		}
		if id, ok := as.Lhs[0].(*ast.Ident); ok {
			if o := objOf(info, id); o != nil {
				components[o] = exprString(as.Rhs[0])
				origin[o] = info.Uses[src]
			}
		}
		return true
	})
	// `entries[key]`: an element of the decoded value, whatever the loop ranges over (the sorted keys, usually)
	for i, a := range call.Args {
		ix, ok := ast.Unparen(a).(*ast.IndexExpr)
		if !ok {
			continue
		}
		src, ok := ast.Unparen(ix.X).(*ast.Ident)
		if !ok {
			continue
		}
		if from, ok := components[info.Uses[src]]; ok && i == position[origin[info.Uses[src]]] {
			return fmt.Sprintf("the recursion descends into the components of a decoded value (%s, from %s): a literal of the schema, finite whatever its type refers to", exprString(a), from)
		}
	}
	for q := parents[ast.Node(call)]; q != nil; q = parents[q] {
		rs, ok := q.(*ast.RangeStmt)
		if !ok {
			continue
		}
		src, ok := ast.Unparen(rs.X).(*ast.Ident)
		if !ok {
			continue
		}
		from, ok := components[info.Uses[src]]
		if !ok {
			continue
		}
		for _, v := range []ast.Expr{rs.Value, rs.Key} {
			vid, ok := v.(*ast.Ident)
			if !ok {
				continue
			}
			for i, a := range call.Args {
				if i != position[origin[info.Uses[src]]] {
					continue
				}
				uses := false
				ast.Inspect(a, func(z ast.Node) bool {
					if id, ok := z.(*ast.Ident); ok && info.Uses[id] == info.Defs[vid] && info.Defs[vid] != nil {
						uses = true
					}
					return true
				})
				if uses {
					return fmt.Sprintf("the recursion descends into the components of a decoded value (%s of %s, from %s): a literal of the schema, finite whatever its type refers to", vid.Name, src.Name, from)
				}
			}
		}
	}
	return ""
}

// c04FifthHunt — fifth hunt of C04:
//   - parameters refer to each other and every key is substituted into the result of the previous ones: the growth of
//     an interpolated setting is bounded (a size test with an error exit before the substitution);
//   - (finding) the `if` of an input is compiled with every builtin of the expression language and evaluated without a
//     step, time or context bound.
func c04FifthHunt(ctx *Ctx, r *Report) {
	n := 0
	if fn := ctx.LookupMethod("internal/codegen", "Pipeline", "interpolate"); fn == nil {
		r.Undecided("anchor lost: codegen.Pipeline.interpolate")
	} else if fd, p := ctx.DeclOf(fn); fd != nil {
		info := p.TypesInfo
		bounded := false
		ast.Inspect(fd.Body, func(m ast.Node) bool {
			rs, ok := m.(*ast.RangeStmt)
			if !ok {
				return true
			}
			replaces := false
			var guard *ast.IfStmt
			for _, st := range rs.Body.List {
				if is, ok := st.(*ast.IfStmt); ok && endsInExit(is.Body) && guard == nil && !replaces {
					// a comparison with a constant bound
					cmp := false
					ast.Inspect(is.Cond, func(q ast.Node) bool {
						if be, ok := q.(*ast.BinaryExpr); ok && (be.Op == token.GTR || be.Op == token.GEQ) {
							if tv, ok := info.Types[be.Y]; ok && tv.Value != nil {
								cmp = true
							}
						}
						return true
					})
					if cmp {
						guard = is
					}
				}
				ast.Inspect(st, func(q ast.Node) bool {
					if c, ok := q.(*ast.CallExpr); ok {
						if f := callee(info, c); f != nil && f.Name() == "ReplaceAll" {
							replaces = true
						}
					}
					return true
				})
			}
			if replaces && guard != nil {
				bounded = true
			}
			return true
		})
		n++
		r.Check(bounded, "flow/interpolation-bounded", "codegen.Pipeline.interpolate substitutes the parameters into a setting", fd.Pos(), "a size test with an exit comes before each substitution",
			"every parameter is substituted into the result of the previous ones without a bound: `p00: \"%p01%%p01%\"` … `p39: \"%p40%%p40%\"`, `p40: x` and `output.directory: out/%p00%` double the text forty times — a 975-byte pipeline file ends in `fatal error: out of memory`, which is no error return")
	}
	if fn := ctx.LookupMethod("internal/codegen", "Input", "shouldLoadSchemas"); fn == nil {
		r.Undecided("anchor lost: codegen.Input.shouldLoadSchemas")
	} else if fd, p := ctx.DeclOf(fn); fd != nil {
		info := p.TypesInfo
		restricted := false
		ast.Inspect(fd.Body, func(m ast.Node) bool {
			c, ok := m.(*ast.CallExpr)
			if !ok {
				return true
			}
			f := callee(info, c)
			if f == nil || f.Pkg() == nil || !strings.Contains(f.Pkg().Path(), "expr-lang/expr") {
				return true
			}
			switch f.Name() {
			case "DisableBuiltin", "DisableAllBuiltins", "WithContext", "MaxNodes":
				restricted = true
			}
			return true
		})
		usesContext := false
		if fd.Type.Params != nil {
			for _, f := range fd.Type.Params.List {
				if strings.HasSuffix(exprString(f.Type), "context.Context") {
					usesContext = true
				}
			}
		}
		n++
		r.Check(restricted || usesContext, "flow/input-condition-bounded", "codegen.Input.shouldLoadSchemas evaluates the condition of an input", fd.Pos(), "with the iterating builtins disabled, or against a context / deadline",
			"the `if` of an input is compiled with every builtin of the expression language and run without a step, time or context bound: `if: \"let xs = split(sprintf('%900000d', 1), ''); all(xs, {all(xs, {all(xs, {# != 'x'})})})\"` — a 242-byte pipeline — takes about 7·10^17 evaluator steps; Pipeline.Run ignores its cancelled context and never returns")
	}
	r.Count("hunted clauses of the termination rules (5th hunt)", n)
	r.Floor("hunted clauses of the termination rules (5th hunt)", 2)
}
