#!/usr/bin/env python3
"""Regenerates MANIFEST.json from the table below (kept here so that the manifest stays valid and consistent)."""
import json, os
here = os.path.dirname(os.path.abspath(__file__))
ENV = "GOFLAGS=-mod=mod GOPROXY=off GOSUMDB=off GOTOOLCHAIN=local"
checks = {
 "C19": dict(
   text="Structural necessary conditions of the ordered-map property, decided exhaustively over internal/orderedmap: every writer of the representation fields has an invariant-preserving shape (insert / remove / permute / constructor / lazy-init), observers walk the order slice, size operands are non-negative, partial accessor guarded at call sites. Not the operation-sequence behaviour itself.",
   note="Trusted: go/types model of the program, Go map/slice semantics, sort.SliceStable. Unrecognised but correct re-implementations of Set/Remove would be reported (idiom tables in c19.go).",
   technique="custom AST/type-resolved lint: representation-invariant writer shapes + sign analysis (go/packages, go/types)",
   design="§3.C19"),
}
checks["C18"]=dict(
   text="Necessary structural conditions for faithful, independent copies, decided exhaustively over every DeepCopy method of cog: field coverage (each declared field produced from the same source field), alias freedom (reference-bearing fields produced only by copying producers), no in-place store through shared `any` payloads anywhere in cog, and Passes.Process working on the copy only.",
   note="Trusted: go/types field lists; the producer idiom table in c18.go (DeepCopy call, &fresh local, make+loop, append onto fresh storage, tools.Map / orderedmap.Map.Map with copying mapper). nil-vs-empty differences are not considered a difference. Syntactic access paths, not a points-to analysis (none available offline).",
   technique="custom type-resolved lint: struct field coverage + alias-freedom producer grammar over DeepCopy methods; payload-mutation scan",
   design="§3.C18")
checks["C20"]=dict(
   text="Structural necessary conditions decided from source: strict-decoder typestate at every yaml decoder construction (KnownFields(true) before Decode, no non-strict decode API, no custom UnmarshalYAML); exhaustiveness of every 'exactly-one-of' rule dispatch with an error fall-through; key-by-key and type-class agreement between the yaml key tree of the Go config structs (yaml.v3 naming rules) and schemas/*.json, all definitions closed. Exhaustive over key paths.",
   note="Trusted: yaml.v3 naming rules as transcribed; invopop reflector naming (definition names matched case-insensitively). Does not decide `required`, semantic validation of reference strings, or two members set at once.",
   technique="typestate lint on decoder construction + union-dispatch exhaustiveness + Go-struct/JSON-Schema key-tree diff (go/types vs committed JSON)",
   design="§3.C20")
checks["C05"]=dict(
   text="Structural necessary conditions for references to keep resolving: visitor traversal completeness w.r.t. the IR type structure (every Type-bearing field, computed from go/types), write-coverage of every name-changing pass over all reference-bearing positions with one comparison rule and the same conditions as the rename, registration of created objects, closure/phase rules of the two object-removing passes, declaration-before-reference in the parsers.",
   note="Trusted: go/types; the effects engine resolves visitor callbacks through the composite literal that builds the Visitor; the list of reference-bearing positions (Ref, ConstantReference, DiscriminatorMapping, EntryPoint) is frozen in c05.go. Does not decide that the rewritten name is right, nor composition of passes.",
   technique="IR-structure vs traversal coverage diff (go/types) + interprocedural write-set analysis of passes + AST control-dependence rules",
   design="§3.C05")
checks["C03"]=dict(
   text="Exhaustive classification of every range-over-map in cog's pipeline packages by an interprocedural effect analysis: each site must match an order-insensitive idiom (keyed write, collect-then-sort with a total comparator, commutative update, keyed early exit, path-keyed file emission with per-iteration helper state); functions returning map-ordered slices pass the obligation to callers; plus a scan asserting that no other scheduling freedom (goroutines, clock, randomness, environment, reflective map iteration) exists in the pipeline. A necessary and, under the stated trusted base, sufficient structural condition for run-to-run determinism of cog's own code.",
   note="Trusted: determinism of third-party libraries and of the standard library's sorted map printing/encoding; codejen's path-keyed FS. Five emission loops sit in a reasoned exemption table (their structural part is still verified; allowed callee-written state is frozen per site). Key derivation through a conversion call is assumed injective.",
   technique="type-resolved map-range enumeration + interprocedural write-set (effects) analysis with idiom classification; forbidden-API scan",
   design="§3.C03")
checks["C07"]=dict(
   text="Structural necessary conditions for language/input independence and non-mutation of inputs: copy-before-transform plus an interprocedural proof that no store is reachable through the schemas handed to Passes.Process / ContextForLanguage; who-may-call for direct pass invocation; no package-level mutable state, fresh per-language pass chains, pass-internal state re-initialised per run; configuration values deep-copied before entering the IR; Schema.Merge adds iff absent, conflicts yield a sticky error; visitor-callback state reset per scope; no store through shared `any` payloads.",
   note="Trusted: go/types; syntactic access paths with one level of local aliasing instead of points-to; visitor callbacks resolved through the literal that builds the visitor, func-typed fields by the set of values stored into them anywhere in cog. Veneer-side configuration sharing (Properties, AddFactory) is reported as a note only: no in-place rewrite of those parts of a builder is reachable today. Output equality under permutation of inputs is not decided.",
   technique="interprocedural write-set (effects) analysis + who-may-call over resolved callees + ownership lint + callback-state and sticky-error rules",
   design="§3.C07")
checks["C06"]=dict(
   text="Structural necessary conditions for the per-language normal form: (1) a frozen contract table (clause -> establishing pass, passes that must precede it, languages) checked against every Language.CompilerPasses() literal resolved by type; (2) reach of each establishing pass into nested positions — visitor callbacks that replace the default traversal hand the node's children back to the visitor; hand-rolled recursions dispatch over every container kind in which the construct can nest and recurse into that kind's child positions.",
   note="Trusted: the contract table in c06.go (transcribed from the property and the passes' doc comments), go/types. Does not decide that a pass's rewrite is correct, only that it is scheduled and applied at every depth; identifier rules of target languages are not modelled.",
   technique="pass-chain contract table over type-resolved composite literals + traversal-reach analysis of visitor callbacks and recursive kind dispatchers",
   design="§3.C06")
checks["C15"]=dict(
   text="Structural necessary conditions per user-configurable schema transformation: the computed IR write set (direct stores of reachable methods + interprocedural effects, minus identity rebuilds and trail bookkeeping) is contained in the documented write set; every effect and error return is control-dependent on the transformation's selector, so a missing target is the identity; selector helpers have the documented shape (package exact, names case-insensitive); name-changing transformations rewrite all reference-bearing positions under the same bare selector test; visitor state is reset per schema; no store through shared payloads.",
   note="Trusted: the documented write-set table in c15.go (transcribed from docs/reference/schema_transformations.md and doc comments), go/types, the effects engine's syntactic access paths. Does not decide that the written value is the documented one, nor ordering effects beyond the ordered-map rules of C19.",
   technique="interprocedural write-set containment against a documented table + control-dependence (guardedness) lint + selector-shape checks",
   design="§3.C15")
checks["C16"]=dict(
   text="Structural necessary conditions of builder derivation decided on internal/ast/builder.go: exactly one disposition (option / constructor assignment / documented constant-reference skip) on every path of the field loop; a builder exactly under the struct-or-reference test, for every object of every schema; the derived option's argument, assignment path, default and constraints are taken from the field, constraints mapped one-to-one; reference resolution identifies objects by package and name.",
   note="Trusted: go/types; the recognised shape of structObjectToBuilder (early-continue guards followed by a fall-through). Does not evaluate alias chains on concrete schemas.",
   technique="path enumeration over the structured field loop + shape lint of the derivation functions (type-resolved AST)",
   design="§3.C16")
checks["C17"]=dict(
   text="Structural necessary conditions on the veneer packages: ownership (no store through an element/pointer of an IR value received by value unless deep-copied first), duplicates via DeepCopy (whose completeness is re-checked here for the builder-side copy methods), unselected builders/options provably untouched (selector-guarded stores; the rewriter re-emits rejected options as is), assignment targets preserved (paths only extended, path items never rewritten, path-producing methods return fresh storage), documented write sets of the simple rules.",
   note="Trusted: go/types; syntactic access paths with one level of local aliasing (no points-to analysis offline). Appends onto shared backing arrays of trail/comment string slices are not claimed. Type-correctness of paths on concrete schemas is not decided.",
   technique="effects (write-set) analysis of veneer closures + ownership lint + selector-guardedness + copy-method coverage",
   design="§3.C17")
checks["C09"]=dict(
   text="Generator-side necessary conditions for builders: derivation -> veneers -> nil-check generation in that order with per-scope bookkeeping; every language's assignment template renders nil checks (and, outside Go, constraints) before the assignment; the emitted Go Build() validates, and every builder-struct field the option templates write is read by Build() (one known finding: builder.errors); the constraint templates translate every operator a parser can produce (length operators to the right comparison); constraint derivation and path freshness shared with C16/C17.",
   note="Trusted: text/template/parse trees of cog's own templates; the text of the emitted Go builder is inspected with the actions replaced by placeholders (no Go parsing of emitted code). Behaviour of generated builders (an option differs exactly at its target, Python semantics) is not decided.",
   technique="must-call-in-order on the Go call sites + template-AST rules (range/if/template nodes) + operator table",
   design="§3.C09")
checks["C02"]=dict(
   text="Generator-side necessary conditions: every place where a jenny can write one of cog's placeholder texts is located, the kind dispatch guarding it is recovered, and each kind it does not handle must be removed by the language's pass chain or carry a reviewed reason (nine genuine leaks recorded as findings, four fixed); Go scalar kinds printed verbatim are Go types; goimports is registered under exactly !SkipPostFormatting and its error fails the run; every module-qualified name written by the Go/Python/TypeScript jennies and templates has its import registered on the same path; iteration callbacks keep the first error; numbers reach the IR as int64/float64; templates referring to the generated Go runtime are only rendered under !SkipRuntime; a literal searched by binary search is sorted (0 sites + built-in examples); every kind-naming disjunct of the guard in front of the Go struct-defaults chain implies a branch of that chain; default values that may be lists are never printed through the []string-only formatter.",
   note="Trusted: go/types resolution, text/template/parse trees, the reviewed table of placeholder sites (36) and its reasons. NOT decided: that emitted code type-checks / byte-compiles / compiles (target toolchains needed), option-combination interactions, Java/PHP import discipline.",
   technique="kind-dispatch exhaustiveness against the per-language normal form (switch / predicate chain / kind-keyed map) + who-must-call rule for import registration (Go AST and template AST, call-site inheritance) + sticky-error flow rule + frontier taint rule for numbers",
   design="§3.C02, §12, §14.2")
checks["C10"]=dict(
   text="Generator-side necessary conditions for 'declared defaults and constants reach the constructors unaltered': untyped values of the JSON Schema library reach the IR only through unwrapJSONNumber (total: Int64, else Float64, element-wise); the CUE front-end reads each kind with its own accessor; every JSON-family walker that builds a type carries the node's default; no compiler pass replacing a type drops its Default (Visitor callbacks and hand-rolled ast.NewRef rewrites); a default taken from a scalar constant comes from the operand known to be concrete; the Go and Python jennies use struct-default overrides unfiltered; enum walkers convert member values and the default alike; Python writes a literal default into a signature only after collection / object kinds have left. Nine dropped-default defects fixed in /repo, one (union defaults in Go) recorded.",
   note="Trusted: go/types resolution; the exemption tables (walkers for composition keywords and $ref, three fresh-reference sites). NOT decided: rendering of defaults by formatScalar/formatValue (maps, non-string lists), Go/Python agreement on concrete values, that constructors compile.",
   technique="frontier taint rule (source: untyped library fields; sanitizer: unwrapJSONNumber; sinks: everything else) + sibling agreement of walkers + must-carry rule on type replacements + dominance of concreteness tests",
   design="§3.C10, §12, §14.2")
checks["C12"]=dict(
   text="Generator-side necessary conditions decided on the shared JSON Schema jenny: kind and scalar-kind dispatch are total (two kinds fall through to the empty schema: findings); every keyword written is valid in draft-07 and in OpenAPI 3.0 with the same value type (const, numeric exclusive bounds, type null: findings, each rejected by cog's own OpenAPI front-end); foreign `$ref`s are enqueued whenever they resolve, the closure loop runs until the queue is empty and formats each queued object through formatType on every path; property keys are field.Name, `required` exactly under field.Required, `default` exactly under Default != nil with that value; Nullable is reflected (finding), `any` does not constrain the type (finding), a map's index type is only described under a positive string test; every constraint operator is translated (!=: finding); unions are emitted under anyOf and const under exactly IsConcrete().",
   note="Trusted: the two keyword vocabularies tabulated in c12.go. NOT decided: validity of whole documents for independent loaders, validation of arbitrary encoded Go values (only the nullable/any clauses), name collisions of foreign objects.",
   technique="dispatch exhaustiveness + keyword/dialect table over the resolved Set(...) call sites + must-pass-through rule on the closure loop + exact-guard rules on the struct skeleton",
   design="§3.C12, §12, §14.2")
checks["C14"]=dict(
   text="Generator-side necessary conditions for 'every option and argument needed to reproduce v appears exactly once': each FromBuilder call runs on its own generator (no mapped-path memory from one builder to the next); every option is mapped and only empty mappings are discarded; the already-mapped key distinguishes assignments by path, constant and envelope fields; options appending union branches to a list are grouped by the list's path alone; the choice between builders of one type is guarded by constructor constants only; each language's converter template consumes every member of languages.ArgumentMapping (Disjunction exempt where the chain removes unions).",
   note="Three of the six rules (key, grouping, choice guards) were written after independent seeded changes showed which structural facts the behaviour hinges on; they are exact-shape rules on languages/converter.go. NOT decided: that the printed expression compiles and rebuilds the object (two stages of execution away), default guards, value formatting.",
   technique="who-may-call rule on the generator + structural must-read / must-derive-from rules on the key, grouping and guard expressions + union-member consumption over the template ASTs",
   design="§3.C14")
checks["C01"]=dict(
   text="Generator-side necessary conditions for 'accepted documents decode and round-trip': the JSON key of a field is StructField.Name itself in the Go struct tag and in every key the strict / custom unmarshal templates look up; `omitempty` exactly for non-required fields; Required is set from the schema's own required list / optional marker in the three front-ends; every OpenAPI walker that builds a value type reads `nullable` (one genuine defect fixed: booleans, arrays, objects); integer → integer kind and number → float kind in the JSON-family front-ends; the union (un)marshal templates cover every field / mapping entry, return on the first branch that decodes and join the errors otherwise; the same replacement built at several places of a pass sets Nullable the same way; the strict decoder declares the variable receiving a nested decode inside the emitted loop (one genuine defect recorded: OpenAPI number enums get an integer kind). Depends on C06 (optional ⇒ pointer) and C10 (numbers canonical).",
   note="Everything that needs generated code to run against the schema language's own validator is NOT decided: decoding of concrete documents, order of union branches, date-time re-encoding, integer widths vs. ranges, property names needing escapes in struct tags.",
   technique="exact-argument / exact-guard rules on the tag-writing call and the template key actions + sibling agreement of front-end walkers + traversal-completeness rules on the union templates",
   design="§3.C01/C11")
checks["C11"]=dict(
   text="Generator-side necessary conditions for 'Python round-trips and agrees with Go on the wire': keys written by to_json and read by from_json are StructField.Name itself; to_json splits unconditional / `is not None` entries exactly on StructField.Required (the property that decides Go's omitempty); from_json reaches nested objects at every depth (shortcuts accept scalars only; struct references → from_json, arrays/maps → value type, unions → discriminator mapping); a nullable value is tested against None before a nested from_json (one finding: demonstrated by running the generated Python); every discriminator value gets an entry in the decoding map; the dict comprehension of nested maps uses one loop variable per level (one defect fixed); the runtime encoder never tests a to_json() result for truthiness; Go's omitempty rule is re-checked here because the agreement has two sides.",
   note="NOT decided: behaviour of the generated Python on concrete documents, the runtime encoder, equality of the JSON produced by Go and Python, enum member naming.",
   technique="exact-argument rules on the format strings that write JSON keys (key positions recognised between quotes) + sibling agreement with Go's omission rule + traversal-completeness of the from_json generator",
   design="§3.C01/C11")
checks["C04"]=dict(
   text="Structural clauses, each a necessary condition of 'never panics / never hangs' (a reported site is a potential crash or hang; every site reported on the pinned tree was triaged: 40 fixed in /repo, 7 recorded as findings): bounded recursion and loops through references (visited set filled by the function / depth bound / leaf-kind test; closures included); no explicit panic reachable from the pipeline entry points; no unchecked single-value type assertion on `any` values; no pointer lookup used or handed on with its found-flag discarded; guarded constant indexing at the JSON-family parser frontier; every one of the 566 accesses to a kind-specific member of ast.Type (AsStruct(), .Struct.…) dominated by a test that the same access path has that kind — intraprocedurally (conditions, switch, loop conditions, exit guards, boolean locals, kind equality), through summaries of cog's own predicates and resolvers, or at every call site up to five levels up; enum members are scalars by construction; every one of the 180 constant indexes into slices / strings dominated by a length test, an IR invariant checked on its producers (enums have members, unions have branches, constraints carry an argument) or a reviewed reason; consistent key derivation on probed-and-filled sets; every membership-guarded recursive function records its argument in the set unconditionally before descending (13 sites); worklist loops skip handled entries and no loop waits for a value (rather than a size) to stop changing (0 sites + built-in examples the rule must fire on); ast.Path is non-empty at every producer; the 44 dereferences of pointer-typed IR members and the pointer entries of configuration lists are nil-tested.",
   note="Trusted: the AST-level call graph (static calls, class-hierarchy interface calls, func-typed fields by stored values; func literals attributed to their enclosing function); text/template recovers panics of template functions; the reviewed tables (20 kind accesses, assertions, lookups, recursion edges — each with its reason; table entries are beliefs confirmed by reading, not re-derived). NOT decided: non-constant indexes, IR given literally in configuration files, nil dereference of pointers other than the kind members, stack depth on deeply nested acyclic input, time/space blow-up, panics inside third-party libraries.",
   technique="call-graph SCC + guard recognition on the AST (recursion/loops), call-graph reachability (panics), dominance of comma-ok / kind tests with interprocedural predicate summaries and call-site propagation (assertions, kind accesses), reviewed exemption tables",
   design="§3.C04, §12.1, §13.2, §13.3, §14.2")
checks["C08"]=dict(
   text="Generator-side necessary conditions decided on the parsed Go templates and the Go helper they share: the recursive validation and strict-decoding templates reach every depth (array/map value types, nullable values, every field, referenced structs and scalar aliases) and end in an uncommented sentinel; the pruning predicate resolvesToConstraints agrees with the template kind by kind; every constraint operator a parser produces is translated; the strict decoder consumes each declared key, reports every remaining key and emits the 'missing'/'null' errors under exactly Required∧Default==nil / Required∧¬Nullable.",
   note="Trusted: text/template/parse trees; the emitted Go text is not parsed. 'If and only if' on concrete documents, error paths and encoding/json behaviour are not decided (they need generated code to run).",
   technique="template-AST traversal-completeness rules (if-chains, recursive template calls and their dict arguments) + sibling agreement with the Go predicate + operator table",
   design="§3.C08/C13")
checks["C13"]=dict(
   text="Generator-side necessary conditions for the generated Equals, decided on the parsed equality template: the recursion reaches every depth (array/map value types, nullable values with a nil-ness comparison, every field of inline structs without any filter, referenced structs through their own Equals), leaf branches return false on a difference, collections compare lengths, the dispatch ends in an uncommented sentinel, and Equals is generated for every struct object.",
   note="Trusted: text/template/parse trees. Reflexivity/symmetry/transitivity and agreement with JSON equality on concrete values are not decided.",
   technique="template-AST traversal-completeness and leaf rules",
   design="§3.C08/C13")
pending = {}
props = [json.loads(l) for l in open(os.path.join(here, "properties.jsonl"))]
m = {
 "version": 1,
 "setup_cmd": f"cd /verif/cogcheck && {ENV} go build -o ../bin/cogcheck .",
 "hooks": {"guard": "verif", "enable": "none needed: the checks are static and read /repo's source; nothing in /repo is instrumented",
           "baseline_off_cmd": "cd /repo && GOFLAGS=-mod=mod go test -json -vet=off -count=1 -timeout 25m ./...",
           "source_commits": [], "add_only": True},
 "engines": [{"name": "cogcheck", "path": "cogcheck/", "serves_properties": sorted(checks), "kind_free_text": "repository-specific static analyser: go/packages + go/types over every non-test package of /repo (syntax trees, resolved callees, an AST-level cog-only call graph with class-hierarchy and func-field resolution, interprocedural write-set summaries over access paths) and text/template/parse trees of cog's templates; no execution of cog, no solver"}],
 "checks": [], "not_applicable": [],
 "notes": "All checks are static (source of /repo is loaded and type-checked on every run; cog is never executed). Levels are 'other': each check decides named structural necessary conditions of its property, listed in DESIGN.md and in the evidence file's coverage.explanation.",
}
for p in props:
    pid = p["id"]
    if pid in checks:
        c = checks[pid]
        m["checks"].append({
          "property_id": pid,
          "quick_cmd": f"./check {pid} quick",
          "thorough_cmd": f"./check {pid} thorough",
          "evidence_file": f"/verif/evidence/{pid}.json",
          "replay_cmd_template": "cat {path}",
          "engine": "cogcheck",
          "level_claimed": {"category": "other", "text": c["text"], "design_ref": c["design"]},
          "level_note": c["note"],
          "technique": c["technique"],
        })
    else:
        m["not_applicable"].append({"property_id": pid, "reason": pending.get(pid, "static check not built yet (planned in DESIGN.md §3); nothing is claimed for this property at this commit")})
json.dump(m, open(os.path.join(here, "MANIFEST.json"), "w"), indent=1)
print("checks:", [c["property_id"] for c in m["checks"]], "n/a:", len(m["not_applicable"]))
