package main

// C04 — no panic, no hang. Engine E6 "cgraph" (+ local dataflow).
//
// Only the clauses listed in DESIGN.md §3.C04 are decided; nil-dereference and
// index-range safety in general are not.

import (
	"fmt"
	"go/ast"
	"go/token"
	"go/types"
	"sort"
	"strings"

	"golang.org/x/tools/go/packages"
)

func init() { register("C04", checkC04) }

// isLookupFunc: cog functions that fetch an object/builder/schema designated
// by a reference or a name, or that resolve a reference to what it designates.
func isLookupFunc(fn *types.Func) bool {
	if fn == nil || fn.Pkg() == nil || !strings.HasPrefix(fn.Pkg().Path(), modulePath) {
		return false
	}
	n := fn.Name()
	return strings.HasPrefix(n, "Locate") || strings.HasPrefix(n, "Resolve")
}

func checkC04(ctx *Ctx, r *Report) {
	r.Explanation = "Five structural clauses, each a sufficient condition for a part of the property (a reported site is a potential panic/hang; on the pinned tree every reported site was triaged): (1) bounded recursion through references — on the cog-only call graph (static calls, interface calls by class hierarchy, func-typed fields by the values stored into them), every recursive call whose argument derives from the result of an object lookup / reference resolution is guarded: by a visited set or depth bound, or by a dominating kind test on the looked-up type that excludes `ref` (so recursion continues on a finite tree), and the resolvers themselves carry a cycle guard; (2) no explicit panic(...) is reachable from the pipeline entry points; (3) single-value type assertions on `any` values are dominated by a comma-ok assertion / type switch on the same expression or sit in the reviewed table; (4) pointers returned with a found-flag/error by cog lookups are not used where the flag was discarded; (5) in the JSON-family parsers, constant indexing into slices owned by the schema libraries is dominated by a length / non-nil / type-presence guard."
	r.NotCovered = "nil dereference of Type.<Kind> accessors, index out of range on IR slices and CUE values, stack depth on deeply nested acyclic input, time/space blow-up, panics inside third-party libraries."
	r.Exhaustive = true
	r.Assumptions = []string{"text/template converts a panic inside a template function into an error (safeCall): functions only invoked from templates are not entry-point reachable by static edges", "library slices are either nil or populated (a non-nil test is accepted as a guard for index 0)"}

	eng := newEffectsEngine(ctx)
	g := buildCallGraph(ctx, eng)
	r.Count("call graph nodes", len(g.nodes))
	c04Recursion(ctx, r, g)
	c04Panics(ctx, r, g)
	c04Assertions(ctx, r)
	c04Lookups(ctx, r)
	c04ParserFrontier(ctx, r)
}

// ---------------------------------------------------------------------------
// (1) recursion through references

func c04Recursion(ctx *Ctx, r *Report, g *callGraph) {
	comps := g.sccs()
	r.Count("recursive SCCs", len(comps))
	r.Floor("recursive SCCs", 30)
	edges := 0
	for _, c := range comps {
		member := map[*types.Func]bool{}
		for _, f := range c {
			member[f] = true
		}
		for _, f := range c {
			n := g.nodes[f]
			info := n.pkg.TypesInfo
			parents := parentMap(n.decl)
			lookupDerived := map[types.Object]ast.Expr{} // local -> lookup call it derives from
			for changed := true; changed; {
				changed = false
				ast.Inspect(n.decl.Body, func(m ast.Node) bool {
					as, ok := m.(*ast.AssignStmt)
					if !ok {
						return true
					}
					var from ast.Expr
					for _, rhs := range as.Rhs {
						ast.Inspect(rhs, func(k ast.Node) bool {
							if call, ok := k.(*ast.CallExpr); ok && isLookupFunc(callee(info, call)) {
								from = call
							}
							if id, ok := k.(*ast.Ident); ok {
								if src, ok := lookupDerived[objOf(info, id)]; ok && from == nil {
									from = src
								}
							}
							return true
						})
					}
					if from != nil {
						for _, l := range as.Lhs {
							if id, ok := l.(*ast.Ident); ok && id.Name != "_" {
								if o := objOf(info, id); o != nil {
									if _, seen := lookupDerived[o]; !seen {
										// only values that can carry a type onward
										if typeContainsRef(o.Type()) {
											lookupDerived[o] = from
											changed = true
										}
									}
								}
							}
						}
					}
					return true
				})
			}
			seen := map[string]int{}
			for _, call := range n.calls {
				fn := callee(info, call)
				if fn == nil || !member[fn.Origin()] {
					continue
				}
				var derivedArg ast.Expr
				for _, a := range call.Args {
					ast.Inspect(a, func(k ast.Node) bool {
						if id, ok := k.(*ast.Ident); ok {
							if _, ok := lookupDerived[objOf(info, id)]; ok {
								derivedArg = a
							}
						}
						if c2, ok := k.(*ast.CallExpr); ok && isLookupFunc(callee(info, c2)) {
							derivedArg = a
						}
						return true
					})
				}
				if derivedArg == nil {
					continue
				}
				edges++
				cons := fmt.Sprintf("%s → %s(%s)", ctx.FuncName(f), fn.Name(), exprString(derivedArg))
				seen[cons]++
				if seen[cons] > 1 {
					cons = fmt.Sprintf("%s #%d", cons, seen[cons])
				}
				guard := c04RecursionGuard(info, n.decl, parents, call, derivedArg)
				r.Check(guard != "", "cgraph/bounded-recursion", cons, call.Pos(), guard,
					"the recursion follows a reference (the argument comes from an object lookup / reference resolution) without a visited set, a depth bound, or a kind test excluding `ref` on the looked-up type: a reference cycle (A: B, B: A), a self-referential definition or an unresolvable reference makes cog recurse until the stack overflows (a fatal error, not a recoverable panic)")
			}
		}
	}
	r.Count("reference-following recursive call edges", edges)
	r.Floor("reference-following recursive call edges", 10)
}

// c04RecursionGuard returns a description of the guard, or "".
func c04RecursionGuard(info *types.Info, fd *ast.FuncDecl, parents map[ast.Node]ast.Node, call *ast.CallExpr, arg ast.Expr) string {
	// (a) visited set / depth bound: the function (or literal) tests membership in a map/set and
	//     inserts into it, or compares an integer parameter with a bound, before recursing.
	visited := ""
	ast.Inspect(fd.Body, func(n ast.Node) bool {
		is, ok := n.(*ast.IfStmt)
		if !ok || is.Pos() > call.Pos() || len(is.Body.List) == 0 {
			return true
		}
		exits := false
		switch last := is.Body.List[len(is.Body.List)-1].(type) {
		case *ast.ReturnStmt:
			exits = true
		case *ast.BranchStmt:
			exits = last.Tok == token.CONTINUE || last.Tok == token.BREAK
		}
		if !exits {
			return true
		}
		// membership test: `_, seen := m[k]; seen` / m.Has(k) / m[k]
		isMember := false
		check := func(e ast.Node) {
			ast.Inspect(e, func(k ast.Node) bool {
				switch x := k.(type) {
				case *ast.IndexExpr:
					if _, isMap := info.TypeOf(x.X).Underlying().(*types.Map); isMap {
						isMember = true
					}
				case *ast.CallExpr:
					if fn := callee(info, x); fn != nil && (fn.Name() == "Has" || fn.Name() == "Contains" || fn.Name() == "ItemInList") {
						isMember = true
					}
				}
				return true
			})
		}
		check(is.Cond)
		if is.Init != nil {
			check(is.Init)
		}
		if isMember {
			visited = "visited-set test (" + exprString(is.Cond) + ") before recursing"
		}
		// depth bound
		if be, ok := ast.Unparen(is.Cond).(*ast.BinaryExpr); ok && (be.Op == token.GTR || be.Op == token.GEQ || be.Op == token.LSS || be.Op == token.LEQ) {
			if b, ok := info.TypeOf(be.X).Underlying().(*types.Basic); ok && b.Info()&types.IsInteger != 0 {
				if id, ok := ast.Unparen(be.X).(*ast.Ident); ok {
					if v, ok := objOf(info, id).(*types.Var); ok && !v.IsField() {
						visited = "depth bound (" + exprString(is.Cond) + ")"
					}
				}
			}
		}
		return true
	})
	if visited != "" {
		return visited
	}
	// (b) a dominating kind test on the looked-up value that excludes `ref`
	kindGuard := func(cond ast.Expr, negated bool) string {
		out := ""
		ast.Inspect(cond, func(k ast.Node) bool {
			c, ok := k.(*ast.CallExpr)
			if !ok {
				return true
			}
			fn := callee(info, c)
			if fn == nil || fn.Pkg() == nil || fn.Pkg().Path() != astPkgPath {
				return true
			}
			switch fn.Name() {
			case "IsConcreteScalar", "IsScalar", "IsEnum", "IsStruct", "IsDisjunction", "IsArray", "IsMap", "IsIntersection", "IsAny", "IsAnyOf":
				// the tested value must be (part of) what is passed on
				if sel, ok := c.Fun.(*ast.SelectorExpr); ok {
					tested := rootIdent(sel.X)
					passed := rootIdent(arg)
					if tested != nil && passed != nil && objOf(info, tested) == objOf(info, passed) && !negated {
						if fn.Name() == "IsAnyOf" && strings.Contains(exprString(c), "KindRef") {
							return true
						}
						out = "kind test " + exprString(c) + " on the looked-up type: recursion continues on a non-reference type"
					}
				}
			}
			return true
		})
		return out
	}
	for _, c := range enclosingConds(parents, call) {
		cond := c.stmt.Cond
		neg := c.inElse
		if u, ok := ast.Unparen(cond).(*ast.UnaryExpr); ok && u.Op == token.NOT {
			neg = !neg
		}
		if gdesc := kindGuard(cond, neg); gdesc != "" {
			return gdesc
		}
	}
	// switch on the kind of the looked-up object: `switch obj.Type.Kind { case KindMap: … }`
	for p := parents[ast.Node(call)]; p != nil; p = parents[p] {
		cc, ok := p.(*ast.CaseClause)
		if !ok {
			continue
		}
		sw, ok := parents[parents[cc]].(*ast.SwitchStmt)
		if !ok || sw.Tag == nil {
			continue
		}
		if f := fieldOf(info, sw.Tag); f != nil && f.Name() == "Kind" {
			tested, passed := rootIdent(sw.Tag), rootIdent(arg)
			if tested != nil && passed != nil && objOf(info, tested) == objOf(info, passed) {
				isRefCase := false
				for _, e := range cc.List {
					if strings.Contains(exprString(e), "KindRef") {
						isRefCase = true
					}
				}
				if !isRefCase && cc.List != nil {
					return "switch on the kind of the looked-up type (case " + exprString(cc.List[0]) + "): recursion continues on a non-reference type"
				}
			}
		}
	}
	return ""
}

// ---------------------------------------------------------------------------
// (2) reachable panics

var c04PanicExemptions = map[string]string{}

func c04EntryPoints(ctx *Ctx) []*types.Func {
	var roots []*types.Func
	add := func(f *types.Func) {
		if f != nil {
			roots = append(roots, f)
		}
	}
	for _, m := range []string{"Run", "LoadSchemas", "ContextForLanguage"} {
		add(ctx.LookupMethod("internal/codegen", "Pipeline", m))
	}
	add(ctx.LookupFunc("internal/codegen", "PipelineFromFile"))
	add(ctx.LookupMethod(".", "SchemaToTypesPipeline", "Run"))
	add(ctx.LookupMethod("internal/yaml", "CompilerLoader", "PassesFrom"))
	add(ctx.LookupMethod("internal/yaml", "VeneersLoader", "RewriterFrom"))
	// cmd/cli commands
	for _, rel := range []string{"cmd/cli/generate", "cmd/cli/inspect"} {
		if p := ctx.Pkg(rel); p != nil {
			for _, n := range p.Types.Scope().Names() {
				if f, ok := p.Types.Scope().Lookup(n).(*types.Func); ok {
					add(f)
				}
			}
		}
	}
	return roots
}

func c04Panics(ctx *Ctx, r *Report, g *callGraph) {
	roots := c04EntryPoints(ctx)
	if len(roots) < 6 {
		r.Undecided("anchor lost: pipeline entry points (%d resolved)", len(roots))
		return
	}
	reach := g.reachableFrom(roots)
	r.Count("functions reachable from the entry points", len(reach))
	r.Floor("functions reachable from the entry points", 400)
	total := 0
	var fns []*types.Func
	for f := range g.nodes {
		fns = append(fns, f)
	}
	sort.Slice(fns, func(i, j int) bool { return fns[i].FullName() < fns[j].FullName() })
	for _, f := range fns {
		n := g.nodes[f]
		info := n.pkg.TypesInfo
		k := 0
		parents := parentMap(n.decl)
		ast.Inspect(n.decl.Body, func(m ast.Node) bool {
			call, ok := m.(*ast.CallExpr)
			if !ok || !isBuiltinCall(info, call, "panic") {
				return true
			}
			total++
			k++
			cons := fmt.Sprintf("%s panic #%d", ctx.FuncName(f), k)
			if _, reachable := reach[f]; !reachable {
				r.OK("cgraph/no-reachable-panic", cons, call.Pos(), "not reachable from the pipeline entry points by static call edges")
				return true
			}
			// inside a function literal used only as a template function? (FuncMap value)
			if fl := enclosingFuncLit(parents, call); fl != nil {
				if kv, ok := parents[fl].(*ast.KeyValueExpr); ok {
					if cl, ok := parents[kv].(*ast.CompositeLit); ok && strings.Contains(types.TypeString(info.TypeOf(cl), nil), "FuncMap") {
						r.OK("cgraph/no-reachable-panic", cons, call.Pos(), "template function placeholder: only invoked by text/template, which turns the panic into an error")
						return true
					}
				}
			}
			// path for the report
			var path []string
			for cur := f; cur != nil; cur = reach[cur] {
				path = append(path, ctx.FuncName(cur))
				if len(path) > 6 {
					break
				}
			}
			if why, ok := c04PanicExemptions[cons]; ok {
				r.OK("cgraph/no-reachable-panic", cons, call.Pos(), "exempt: "+why)
				return true
			}
			r.Bad("cgraph/no-reachable-panic", cons, call.Pos(), "explicit panic reachable from an entry point (callers, innermost first: "+strings.Join(path, " ← ")+"): instead of returning an error the run crashes")
			return true
		})
	}
	r.Count("explicit panic sites", total)
}

// ---------------------------------------------------------------------------
// (3) unchecked single-value type assertions

// reviewed assertions that cannot fail (one reason each); keyed by function + asserted expression
var c04AssertionTable = map[string]string{}

func c04Assertions(ctx *Ctx, r *Report) {
	n := 0
	ctx.AllFuncDecls(func(p *packages.Package, fd *ast.FuncDecl, obj *types.Func) {
		if fd.Body == nil || strings.HasPrefix(p.PkgPath, modulePath+"/cmd/") {
			return
		}
		info := p.TypesInfo
		parents := parentMap(fd)
		seen := map[string]int{}
		ast.Inspect(fd.Body, func(m ast.Node) bool {
			ta, ok := m.(*ast.TypeAssertExpr)
			if !ok || ta.Type == nil {
				return true
			}
			// comma-ok form?
			if as, ok := parents[ta].(*ast.AssignStmt); ok && len(as.Lhs) == 2 && len(as.Rhs) == 1 {
				return true
			}
			if vs, ok := parents[ta].(*ast.ValueSpec); ok && len(vs.Names) == 2 {
				return true
			}
			n++
			key := ctx.FuncName(obj) + " " + exprString(ta)
			seen[key]++
			cons := key
			if seen[key] > 1 {
				cons = fmt.Sprintf("%s #%d", key, seen[key])
			}
			// dominated by a comma-ok assertion / type switch on the same expression to the same type
			guarded := ""
			ast.Inspect(fd.Body, func(k ast.Node) bool {
				switch x := k.(type) {
				case *ast.IfStmt:
					if !containsNode(x.Body, ta) && !(x.Pos() < ta.Pos() && endsInExit(x.Body)) {
						return true
					}
					// if _, ok := X.(T); ok { … ta … }   or   if _, ok := X.(T); !ok { return }
					if as, ok := x.Init.(*ast.AssignStmt); ok && len(as.Rhs) == 1 {
						if t2, ok := ast.Unparen(as.Rhs[0]).(*ast.TypeAssertExpr); ok && sameAccessPath(info, t2.X, ta.X) && t2.Type != nil && types.Identical(info.TypeOf(t2.Type), info.TypeOf(ta.Type)) {
							guarded = "dominated by a comma-ok assertion of the same expression to the same type"
						}
					}
				case *ast.AssignStmt:
					if len(x.Lhs) == 2 && len(x.Rhs) == 1 && x.Pos() < ta.Pos() {
						if t2, ok := ast.Unparen(x.Rhs[0]).(*ast.TypeAssertExpr); ok && sameAccessPath(info, t2.X, ta.X) && t2.Type != nil && types.Identical(info.TypeOf(t2.Type), info.TypeOf(ta.Type)) {
							// followed by `if !ok { return }`
							okID, _ := x.Lhs[1].(*ast.Ident)
							ast.Inspect(fd.Body, func(j ast.Node) bool {
								if is, ok := j.(*ast.IfStmt); ok && is.Pos() > x.Pos() && is.Pos() < ta.Pos() && endsInExit(is.Body) {
									if u, ok := ast.Unparen(is.Cond).(*ast.UnaryExpr); ok && u.Op == token.NOT && okID != nil && isIdentOf(info, u.X, objOf(info, okID)) {
										guarded = "preceded by a comma-ok assertion whose failure leaves the function"
									}
								}
								return true
							})
						}
					}
				case *ast.TypeSwitchStmt:
					if containsNode(x.Body, ta) {
						guarded = "inside a type switch"
					}
				}
				return true
			})
			// kind-guarded scalar payloads: x.Scalar.Value.(string) under `ScalarKind == KindString` / IsConcreteScalar…
			if guarded == "" {
				for _, c := range enclosingConds(parents, ta) {
					txt := exprString(c.stmt.Cond)
					if strings.Contains(txt, "KindString") && strings.Contains(types.TypeString(info.TypeOf(ta.Type), nil), "string") && !c.inElse {
						guarded = "guarded by a scalar-kind test (" + txt + ") on the value's type"
					}
				}
			}
			if guarded == "" {
				if why, ok := c04AssertionTable[key]; ok {
					guarded = "reviewed: " + why
				}
			}
			r.Check(guarded != "", "flow/checked-assertion", cons, ta.Pos(), guarded,
				"single-value type assertion "+exprString(ta)+" on a value whose dynamic type comes from the input or from user configuration: if it holds anything else cog panics with an interface-conversion error")
			return true
		})
	})
	r.Count("single-value type assertions", n)
	r.Floor("single-value type assertions", 15)
}

func endsInExit(b *ast.BlockStmt) bool {
	if b == nil || len(b.List) == 0 {
		return false
	}
	switch last := b.List[len(b.List)-1].(type) {
	case *ast.ReturnStmt:
		return true
	case *ast.BranchStmt:
		return last.Tok == token.CONTINUE || last.Tok == token.BREAK
	}
	return false
}

// ---------------------------------------------------------------------------
// (4) pointer-returning lookups

func c04Lookups(ctx *Ctx, r *Report) {
	n := 0
	errT := types.Universe.Lookup("error").Type()
	ctx.AllFuncDecls(func(p *packages.Package, fd *ast.FuncDecl, obj *types.Func) {
		if fd.Body == nil {
			return
		}
		info := p.TypesInfo
		k := 0
		ast.Inspect(fd.Body, func(m ast.Node) bool {
			as, ok := m.(*ast.AssignStmt)
			if !ok || len(as.Lhs) != 2 || len(as.Rhs) != 1 {
				return true
			}
			call, ok := ast.Unparen(as.Rhs[0]).(*ast.CallExpr)
			if !ok {
				return true
			}
			fn := callee(info, call)
			if fn == nil || fn.Pkg() == nil || !strings.HasPrefix(fn.Pkg().Path(), modulePath) {
				return true
			}
			sig := fn.Type().(*types.Signature)
			if sig.Results().Len() != 2 {
				return true
			}
			if _, isPtr := sig.Results().At(0).Type().Underlying().(*types.Pointer); !isPtr {
				return true
			}
			flagT := sig.Results().At(1).Type()
			if b, ok := flagT.Underlying().(*types.Basic); !(ok && b.Kind() == types.Bool) && !types.Identical(flagT, errT) {
				return true
			}
			n++
			flagID, _ := as.Lhs[1].(*ast.Ident)
			ptrID, _ := as.Lhs[0].(*ast.Ident)
			if flagID == nil || ptrID == nil || ptrID.Name == "_" {
				return true
			}
			k++
			cons := fmt.Sprintf("%s uses %s #%d", ctx.FuncName(obj), fn.Name(), k)
			if flagID.Name != "_" {
				r.OK("flow/checked-lookup", cons, as.Pos(), "the found-flag / error is bound")
				return true
			}
			// flag discarded: the pointer must not be dereferenced
			ptr := objOf(info, ptrID)
			deref := token.NoPos
			ast.Inspect(fd.Body, func(k ast.Node) bool {
				if sel, ok := k.(*ast.SelectorExpr); ok && isIdentOf(info, sel.X, ptr) && sel.Pos() > as.End() {
					deref = sel.Pos()
				}
				if st, ok := k.(*ast.StarExpr); ok && isIdentOf(info, st.X, ptr) {
					deref = st.Pos()
				}
				return true
			})
			r.Check(deref == token.NoPos, "flow/checked-lookup", cons, as.Pos(), "flag discarded but the pointer is not dereferenced",
				fmt.Sprintf("the found-flag of %s is discarded and the returned pointer is dereferenced (at %s): for a missing entry cog dereferences nil", fn.Name(), ctx.Pos(deref)))
			return true
		})
	})
	r.Count("pointer-returning lookups", n)
	r.Floor("pointer-returning lookups", 5)
}

// ---------------------------------------------------------------------------
// (5) parser frontier, JSON family

func c04ParserFrontier(ctx *Ctx, r *Report) {
	libs := map[string]bool{"github.com/santhosh-tekuri/jsonschema/v5": true, "github.com/getkin/kin-openapi/openapi3": true}
	n := 0
	for _, rel := range []string{"internal/jsonschema", "internal/openapi"} {
		p := ctx.Pkg(rel)
		if p == nil {
			r.Undecided("parser package %s not found", rel)
			continue
		}
		info := p.TypesInfo
		for _, file := range p.Syntax {
			for _, d := range file.Decls {
				fd, ok := d.(*ast.FuncDecl)
				if !ok || fd.Body == nil {
					continue
				}
				fobj, _ := info.Defs[fd.Name].(*types.Func)
				parents := parentMap(fd)
				seen := map[string]int{}
				ast.Inspect(fd.Body, func(m ast.Node) bool {
					ix, ok := m.(*ast.IndexExpr)
					if !ok {
						return true
					}
					tv := info.Types[ix.Index]
					if tv.Value == nil {
						return true
					}
					if _, isSlice := info.TypeOf(ix.X).Underlying().(*types.Slice); !isSlice {
						return true
					}
					// base: field of / call on a library-declared value
					base := ast.Unparen(ix.X)
					fromLib := false
					switch b := base.(type) {
					case *ast.SelectorExpr:
						if f := fieldOf(info, b); f != nil && f.Pkg() != nil && libs[f.Pkg().Path()] {
							fromLib = true
						}
					case *ast.CallExpr:
						if fn := callee(info, b); fn != nil && fn.Pkg() != nil && libs[fn.Pkg().Path()] {
							fromLib = true
						}
					}
					if !fromLib {
						return true
					}
					n++
					key := ctx.FuncName(fobj) + " " + exprString(ix)
					seen[key]++
					cons := key
					if seen[key] > 1 {
						cons = fmt.Sprintf("%s #%d", key, seen[key])
					}
					guard := ""
					mentionsBase := func(e ast.Node) bool {
						found := false
						ast.Inspect(e, func(k ast.Node) bool {
							if ex, ok := k.(ast.Expr); ok && sameAccessPath(info, ex, base) {
								found = true
							}
							// Type.Is(...)/Includes(...) on the same owner
							if c, ok := k.(*ast.CallExpr); ok {
								if fn := callee(info, c); fn != nil && (fn.Name() == "Is" || fn.Name() == "Includes" || fn.Name() == "Permits") {
									if sel, ok := c.Fun.(*ast.SelectorExpr); ok {
										if bc, ok := base.(*ast.CallExpr); ok {
											if bs, ok := bc.Fun.(*ast.SelectorExpr); ok && sameAccessPath(info, sel.X, bs.X) {
												found = true
											}
										}
									}
								}
							}
							return !found
						})
						return found
					}
					for _, c := range enclosingConds(parents, ix) {
						if mentionsBase(c.stmt.Cond) {
							guard = "enclosing condition on the same slice (" + exprString(c.stmt.Cond) + ")"
						}
					}
					ast.Inspect(fd.Body, func(k ast.Node) bool {
						is, ok := k.(*ast.IfStmt)
						if ok && is.Pos() < ix.Pos() && endsInExit(is.Body) && mentionsBase(is.Cond) {
							guard = "earlier guard on the same slice (" + exprString(is.Cond) + ") that leaves the function"
						}
						if sw, ok := k.(*ast.SwitchStmt); ok && containsNode(sw, ix) {
							for _, cc := range sw.Body.List {
								cl := cc.(*ast.CaseClause)
								if !containsNode(cl, ix) {
									continue
								}
								for _, e := range cl.List {
									if mentionsBase(e) {
										guard = "switch case on the same slice (" + exprString(e) + ")"
									}
								}
							}
						}
						return true
					})
					// single-purpose unexported helper: every caller guards
					if guard == "" && !fobj.Exported() {
						guard = c04CallersGuard(ctx, p, fobj, base)
					}
					r.Check(guard != "", "flow/parser-frontier", cons, ix.Pos(), guard,
						"constant index into a slice owned by the schema library ("+exprString(base)+") without a length / non-nil / type-presence guard: a schema that leaves it empty makes cog panic with index out of range")
					return true
				})
			}
		}
	}
	r.Count("constant indexes into library slices", n)
	r.Floor("constant indexes into library slices", 4)
}

// c04CallersGuard: every call site of the helper in its package is dominated by a condition
// mentioning the same field on the caller's argument.
func c04CallersGuard(ctx *Ctx, p *packages.Package, helper *types.Func, base ast.Expr) string {
	info := p.TypesInfo
	var fieldName string
	switch b := base.(type) {
	case *ast.SelectorExpr:
		fieldName = b.Sel.Name
	case *ast.CallExpr:
		if s, ok := b.Fun.(*ast.SelectorExpr); ok {
			fieldName = s.Sel.Name
			if inner, ok := ast.Unparen(s.X).(*ast.SelectorExpr); ok {
				fieldName = inner.Sel.Name
			}
		}
	}
	if fieldName == "" {
		return ""
	}
	sites, guarded := 0, 0
	for _, file := range p.Syntax {
		for _, d := range file.Decls {
			fd, ok := d.(*ast.FuncDecl)
			if !ok || fd.Body == nil {
				continue
			}
			parents := parentMap(fd)
			ast.Inspect(fd.Body, func(m ast.Node) bool {
				c, ok := m.(*ast.CallExpr)
				if !ok || callee(info, c) != helper {
					return true
				}
				sites++
				ok2 := false
				for _, cond := range enclosingConds(parents, c) {
					if strings.Contains(exprString(cond.stmt.Cond), fieldName) {
						ok2 = true
					}
				}
				for par := parents[ast.Node(c)]; par != nil; par = parents[par] {
					if cc, isCase := par.(*ast.CaseClause); isCase {
						for _, e := range cc.List {
							if strings.Contains(exprString(e), fieldName) {
								ok2 = true
							}
						}
					}
				}
				if ok2 {
					guarded++
				}
				return true
			})
		}
	}
	if sites > 0 && sites == guarded {
		return fmt.Sprintf("unexported helper: each of its %d call sites is guarded by a condition on %s", sites, fieldName)
	}
	return ""
}
