package main

// C10 — defaults and constants.

import (
	"fmt"
	"go/ast"
	"go/constant"
	"go/token"
	"go/types"
	"regexp"
	"strings"

	"golang.org/x/tools/go/packages"
)

func init() { register("C10", checkC10) }

func checkC10(ctx *Ctx, r *Report) {
	r.Explanation = "Generator-side necessary conditions for 'the declared default / constant reaches the constructors unaltered', decided on cog's source: (1) number canonicalisation at the parser frontier — every untyped value read from the JSON Schema library (numbers are json.Number there) only reaches the IR through unwrapJSONNumber, which itself tries Int64 then Float64 on every path and recurses into lists and objects; the CUE front-end reads each concrete kind with the accessor of that kind (integers as integers); (2) sibling agreement of the JSON-family walkers: every walker that builds a type reads the node's `default`; (3) no compiler pass that replaces a type by a freshly built one (Visitor callbacks returning a new type, hand-rolled ast.NewRef rewrites) drops the replaced type's Default; (4) a default taken from a scalar's constant is read from the operand known to be concrete; (5) the Go and Python jennies use the map of struct-default overrides as a whole, never through a filter."
	r.NotCovered = "how the jennies render a default (formatScalar / formatValue print %#v of the canonical value: maps and non-string lists are known weak spots), agreement of the two languages on concrete values, defaults next to anyOf/oneOf/allOf/$ref and on maps in the JSON-family front-ends (reviewed gaps), whether the generated constructors compile."
	r.Assumptions = []string{"github.com/santhosh-tekuri/jsonschema/v5 decodes numbers as json.Number; kin-openapi decodes them as float64 (no obligation on the OpenAPI front-end)"}
	r.Exhaustive = true
	covered := c10DefaultCarried(ctx, r)
	c10FreshRefs(ctx, r, covered)
	c10NumberCanonical(ctx, r)
	c10WalkersReadDefault(ctx, r)
	c10ConstantFromConcrete(ctx, r)
	c10OverridesForwarded(ctx, r)
	c10EnumValueDefaultAgreement(ctx, r)
	c10PythonMutableDefaults(ctx, r)
	c10ThirdRound(ctx, r)
	c08TypeListThroughWalkers(ctx, r)
	c10NoBreakOutOfFieldLoops(ctx, r)
	c10ConstantRefToEnum(ctx, r)
	c10OpenAPITypedDefaults(ctx, r)
	c10GoDateTimeDefaults(ctx, r)
	c10OverrideReplacesFieldDefault(ctx, r)
	c10GoNestedOverrideRecurses(ctx, r)
	inProgressRestored(ctx, r, []string{"internal/jennies/golang/rawtypes.go", "internal/jennies/java/types.go"}, 2)
	c12ConstructorCollections(ctx, r)
	c10PointerHintFromFieldType(ctx, r)
	c10ThirdHunt(ctx, r)
	c10CueEmptyCollectionDefault(ctx, r)
	// defaults of lists and maps are read by the JSON Schema / OpenAPI front-ends; nested empty collections are values
	c12CollectionDefaultsRead(ctx, r)
	c12CueNestedEmptyCollections(ctx, r)
	c10FourthHunt(ctx, r)
	c10FifthHunt(ctx, r)
	c10SixthHunt(ctx, r)
	c10SeventhHunt(ctx, r)
	c10EighthHunt(ctx, r)
}

func c10DefaultCarried(ctx *Ctx, r *Report) map[*types.Func]bool {
	covered := map[*types.Func]bool{}
	pkg := ctx.Pkg("internal/ast/compiler")
	info := pkg.TypesInfo
	typeT := ctx.LookupType("internal/ast", "Type")
	nullableF := astField(ctx, "Type", "Default")
	eng := newEffectsEngine(ctx)
	sites := 0
	for _, p := range allPasses(ctx, eng) {
		for _, fd := range methodsOf(ctx, p.named) {
			fobj, _ := info.Defs[fd.Name].(*types.Func)
			sig := fobj.Type().(*types.Signature)
			// a function replacing a type: has an ast.Type parameter and returns ast.Type first
			if sig.Results().Len() == 0 || namedOf(sig.Results().At(0).Type()) != typeT {
				continue
			}
			var param types.Object
			for i := 0; i < sig.Params().Len(); i++ {
				if namedOf(sig.Params().At(i).Type()) == typeT {
					if _, isPtr := sig.Params().At(i).Type().(*types.Pointer); !isPtr {
						param = sig.Params().At(i)
					}
				}
			}
			if param == nil {
				continue
			}
			readsParamDefault := func(n ast.Node) bool {
				found := false
				ast.Inspect(n, func(m ast.Node) bool {
					if sel, ok := m.(*ast.SelectorExpr); ok && fieldOf(info, sel) == nullableF && isIdentOf(info, sel.X, param) {
						found = true
					}
					return !found
				})
				return found
			}
			parents := parentMap(fd)
			defs := map[types.Object]ast.Expr{}
			ast.Inspect(fd.Body, func(n ast.Node) bool {
				if as, ok := n.(*ast.AssignStmt); ok && as.Tok == token.DEFINE && len(as.Lhs) == len(as.Rhs) {
					for i, l := range as.Lhs {
						if id, ok := l.(*ast.Ident); ok {
							defs[info.Defs[id]] = as.Rhs[i]
						}
					}
				}
				// `t, err := visitor.VisitType(schema, fresh)`
				if as, ok := n.(*ast.AssignStmt); ok && as.Tok == token.DEFINE && len(as.Lhs) == 2 && len(as.Rhs) == 1 {
					if id, ok := as.Lhs[0].(*ast.Ident); ok {
						defs[info.Defs[id]] = as.Rhs[0]
					}
				}
				return true
			})
			var isFreshType func(e ast.Expr) bool
			isFreshType = func(e ast.Expr) bool {
				c, ok := ast.Unparen(e).(*ast.CallExpr)
				if !ok {
					return false
				}
				fn := callee(info, c)
				if fn == nil || fn.Pkg() == nil {
					return false
				}
				// what the visitor makes of a fresh type is as fresh as that type
				if strings.HasPrefix(fn.Name(), "Visit") && fn.Pkg().Path() == modulePath+"/internal/ast/compiler" {
					for _, a := range c.Args {
						if namedOf(info.TypeOf(a)) == typeT && isFreshType(a) {
							return true
						}
					}
				}
				if fn.Pkg().Path() == astPkgPath && fn.Type().(*types.Signature).Recv() == nil && namedOf(fn.Type().(*types.Signature).Results().At(0).Type()) == typeT {
					return true // ast.NewRef, ast.NewScalar, ast.Any, ast.String, ...
				}
				if isCopyCall(info, c) {
					// a copy of something other than the parameter
					if sel, ok := c.Fun.(*ast.SelectorExpr); ok {
						if root := rootIdent(sel.X); root != nil && objOf(info, root) != param {
							return namedOf(info.TypeOf(c)) == typeT
						}
					}
				}
				return false
			}
			n := 0
			ast.Inspect(fd.Body, func(node ast.Node) bool {
				if fl, ok := node.(*ast.FuncLit); ok && fl != nil {
					return false
				}
				rs, ok := node.(*ast.ReturnStmt)
				if !ok || len(rs.Results) == 0 {
					return true
				}
				res := ast.Unparen(rs.Results[0])
				var retObj types.Object
				var ctor ast.Expr
				if id, ok := res.(*ast.Ident); ok {
					retObj = objOf(info, id)
					if retObj == param {
						// the parameter itself, after it was given another value (`def = branches[1]`): what is
						// returned is that value, not the visited type
						ast.Inspect(fd.Body, func(m ast.Node) bool {
							as, ok := m.(*ast.AssignStmt)
							if !ok || as.Tok != token.ASSIGN || len(as.Lhs) != 1 || len(as.Rhs) != 1 || !isIdentOf(info, as.Lhs[0], param) {
								return true
							}
							if _, isIdent := as.Lhs[0].(*ast.Ident); !isIdent || !sameBranch(parents, as, rs) {
								return true
							}
							if c, isCall := ast.Unparen(as.Rhs[0]).(*ast.CallExpr); isCall && isCopyCall(info, c) {
								return true
							}
							if namedOf(info.TypeOf(as.Rhs[0])) == typeT && (isFreshType(as.Rhs[0]) || derivesFromParam(info, as.Rhs[0], param, fd.Body)) {
								ctor = as.Rhs[0]
							}
							return true
						})
					}
					if init, ok := defs[retObj]; ok && isFreshType(init) {
						ctor = init
					} else if ok && retObj != param && namedOf(info.TypeOf(init)) == typeT && derivesFromParam(info, init, param, fd.Body) {
						// a component of the visited type returned in its place (`T | null` → T): not a copy of the whole
						if c, isCall := ast.Unparen(init).(*ast.CallExpr); !isCall || !isCopyCall(info, c) {
							if !isIdentOf(info, init, param) {
								ctor = init
							}
						}
					}
				} else if isFreshType(res) {
					ctor = res
				}
				if ctor == nil {
					return true
				}
				n++
				sites++
				covered[fobj] = true
				carried := ""
				// (a) <ret>.Nullable = … derived from the parameter's nullability (or constant true)
				if retObj != nil {
					ast.Inspect(fd.Body, func(m ast.Node) bool {
						as, ok := m.(*ast.AssignStmt)
						if !ok {
							return true
						}
						for i, l := range as.Lhs {
							sel, ok := ast.Unparen(l).(*ast.SelectorExpr)
							if !ok || fieldOf(info, sel) != nullableF || !isIdentOf(info, sel.X, retObj) || i >= len(as.Rhs) {
								continue
							}
							// the assignment must belong to the same block nest as this return (sibling paths each need their own)
							if !sameBranch(parents, as, rs) {
								continue
							}
							if readsParamDefault(as.Rhs[i]) {
								carried = "result.Default is assigned from the replaced type's Default"
							}
							conds := enclosingConds(parents, as)
							for _, c := range conds {
								if readsParamDefault(c.stmt.Cond) {
									carried = "result.Default is set under a condition on the replaced type's Default"
								}
							}
						}
						return true
					})
				}
				// (a') the constructor call itself receives ast.Default(<replaced>.Default)
				if cc, ok := ast.Unparen(ctor).(*ast.CallExpr); ok && carried == "" {
					for _, a := range cc.Args {
						if c2, ok := ast.Unparen(a).(*ast.CallExpr); ok {
							if fn := callee(info, c2); fn != nil && fn.Name() == "Default" && fn.Pkg() != nil && fn.Pkg().Path() == astPkgPath && readsParamDefault(c2) {
								carried = "the constructor receives ast.Default(<replaced type>.Default)"
							}
						}
					}
				}
				// (b) options slice carrying ast.Default(...) read from the parameter
				if cc, ok := ast.Unparen(ctor).(*ast.CallExpr); ok && carried == "" {
					for _, a := range cc.Args {
						id, ok := ast.Unparen(a).(*ast.Ident)
						if !ok {
							continue
						}
						opts := objOf(info, id)
						ast.Inspect(fd.Body, func(m ast.Node) bool {
							as, ok := m.(*ast.AssignStmt)
							if !ok || len(as.Lhs) != 1 || !isIdentOf(info, as.Lhs[0], opts) {
								return true
							}
							mentionsDefaultOpt := false
							ast.Inspect(as.Rhs[0], func(k ast.Node) bool {
								if c, ok := k.(*ast.CallExpr); ok {
									if fn := callee(info, c); fn != nil && fn.Name() == "Default" && fn.Pkg() != nil && fn.Pkg().Path() == astPkgPath {
										mentionsDefaultOpt = true
									}
								}
								return true
							})
							if !mentionsDefaultOpt {
								return true
							}
							if readsParamDefault(as.Rhs[0]) {
								carried = "ast.Default(<replaced type>.Default) is added to the constructor options"
							}
							for _, c := range enclosingConds(parents, as) {
								if readsParamDefault(c.stmt.Cond) {
									carried = "ast.Default() is added to the constructor options under a condition on the replaced type's Default"
								}
							}
							return true
						})
					}
				}
				cons := fmt.Sprintf("%s replacement #%d", ctx.FuncName(fobj), n)
				r.Check(carried != "", "traverse/default-carried", cons, rs.Pos(), carried,
					fmt.Sprintf("%s returns a freshly built type (%s) in place of the visited one without carrying its Default: the default declared by the schema is dropped when this rewrite applies", ctx.FuncName(fobj), exprString(ctor)))
				return true
			})
		}
	}
	r.Count("type replacements by compiler passes", sites)
	r.Floor("type replacements by compiler passes", 8)
	return covered
}

// c10FreshRefs: hand-rolled rewrites. Every ast.NewRef(...) built by a compiler pass that takes the place of
// an existing type (it is returned by a function receiving the replaced IR node, or stored into a .Type /
// .ValueType / Branches[i] position) gets the replaced type's Default: through an ast.Default(...) option of
// the constructor (directly or in its options slice) or a `<ref>.Default = …` assignment.
var c10FreshRefExemptions = map[string]string{
	"internal/ast/compiler.DisjunctionOfAnonymousStructsToExplicit.processDisjunction": "the reference replaces a *branch* of a union: defaults are declared on the union, not on its branches",
	"internal/ast/compiler.RemoveIntersections.processStruct":                          "pass of the Java chain only (C10 is stated for Go and Python); by-catch noted in DESIGN.md: the rebuilt field also loses Required",
	"internal/ast/compiler.SchemaSetEntrypoint.Process":                                "sets the schema's entry point: nothing is replaced",
}

func c10FreshRefs(ctx *Ctx, r *Report, covered map[*types.Func]bool) {
	pkg := ctx.Pkg("internal/ast/compiler")
	if pkg == nil {
		return
	}
	info := pkg.TypesInfo
	defaultF := astField(ctx, "Type", "Default")
	n := 0
	for _, file := range pkg.Syntax {
		for _, d := range file.Decls {
			fd, ok := d.(*ast.FuncDecl)
			if !ok || fd.Body == nil {
				continue
			}
			fobj, _ := info.Defs[fd.Name].(*types.Func)
			if fobj == nil || covered[fobj] {
				continue
			}
			parents := parentMap(fd)
			idx := 0
			ast.Inspect(fd.Body, func(m ast.Node) bool {
				c, ok := m.(*ast.CallExpr)
				if !ok {
					return true
				}
				fn := callee(info, c)
				if fn == nil || fn.Pkg() == nil || fn.Pkg().Path() != astPkgPath || fn.Name() != "NewRef" {
					return true
				}
				idx++
				n++
				cons := ctx.FuncName(fobj)
				if idx > 1 {
					cons = fmt.Sprintf("%s #%d", cons, idx)
				}
				if why, ok := c10FreshRefExemptions[ctx.FuncName(fobj)]; ok {
					r.OK("traverse/default-carried", cons+" fresh reference", c.Pos(), "reviewed: "+why)
					return true
				}
				carried := ""
				// ast.Default(...) among the arguments, or in the options slice handed over
				hasDefaultOpt := func(e ast.Expr) bool {
					found := false
					ast.Inspect(e, func(k ast.Node) bool {
						if c2, ok := k.(*ast.CallExpr); ok {
							if f2 := callee(info, c2); f2 != nil && f2.Name() == "Default" && f2.Pkg() != nil && f2.Pkg().Path() == astPkgPath && len(c2.Args) == 1 && !isNilIdent(info, c2.Args[0]) {
								found = true
							}
						}
						return true
					})
					return found
				}
				for _, a := range c.Args {
					if hasDefaultOpt(a) {
						carried = "the constructor receives ast.Default(…)"
					}
					if id, ok := ast.Unparen(a).(*ast.Ident); ok {
						opts := objOf(info, id)
						ast.Inspect(fd.Body, func(k ast.Node) bool {
							if as, ok := k.(*ast.AssignStmt); ok && len(as.Lhs) == 1 && isIdentOf(info, as.Lhs[0], opts) && hasDefaultOpt(as.Rhs[0]) {
								carried = "ast.Default(…) is added to the constructor's options"
							}
							return true
						})
					}
				}
				// <ref>.Default = … on the variable the reference is bound to
				if as, ok := parents[ast.Node(c)].(*ast.AssignStmt); ok && len(as.Lhs) == 1 {
					if id, ok := as.Lhs[0].(*ast.Ident); ok {
						refObj := objOf(info, id)
						ast.Inspect(fd.Body, func(k ast.Node) bool {
							if as2, ok := k.(*ast.AssignStmt); ok {
								for _, l := range as2.Lhs {
									if sel, ok := ast.Unparen(l).(*ast.SelectorExpr); ok && fieldOf(info, sel) == defaultF && isIdentOf(info, sel.X, refObj) {
										carried = "the reference's Default is assigned"
									}
								}
							}
							return true
						})
					}
				}
				r.Check(carried != "", "traverse/default-carried", cons+" fresh reference", c.Pos(), carried,
					fmt.Sprintf("%s builds a reference (%s) that takes the place of an existing type without giving it that type's Default: the default declared by the schema is dropped when this rewrite applies", ctx.FuncName(fobj), exprString(c)))
				return true
			})
		}
	}
	r.Count("references built by hand-rolled rewrites", n)
	r.Floor("references built by hand-rolled rewrites", 4)
}

// ---------------------------------------------------------------------------
// number canonicalisation at the parser frontier (shared with C02)

// c10UnwrapTotal: jsonschema.unwrapJSONNumber maps json.Number to int64, else float64 on every path, and recurses
// into lists and objects.
func c10UnwrapTotal(ctx *Ctx, r *Report) {
	p := ctx.Pkg("internal/jsonschema")
	if p == nil {
		r.Undecided("package internal/jsonschema not found")
		return
	}
	info := p.TypesInfo
	var fd *ast.FuncDecl
	for _, f := range p.Syntax {
		for _, d := range f.Decls {
			if x, ok := d.(*ast.FuncDecl); ok && x.Name.Name == "unwrapJSONNumber" {
				fd = x
			}
		}
	}
	if fd == nil {
		r.Undecided("anchor lost: jsonschema.unwrapJSONNumber")
		return
	}
	parents := parentMap(fd)
	self, _ := info.Defs[fd.Name].(*types.Func)
	var int64Call, float64Call *ast.CallExpr
	recursesList, recursesMap := false, false
	ast.Inspect(fd.Body, func(n ast.Node) bool {
		c, ok := n.(*ast.CallExpr)
		if !ok {
			return true
		}
		if fn := callee(info, c); fn != nil {
			if fn.FullName() == "(encoding/json.Number).Int64" {
				int64Call = c
			}
			if fn.FullName() == "(encoding/json.Number).Float64" {
				float64Call = c
			}
			if fn == self {
				// inside a range over a []any or a map[string]any
				for q := parents[ast.Node(c)]; q != nil; q = parents[q] {
					if rs, ok := q.(*ast.RangeStmt); ok {
						switch info.TypeOf(rs.X).Underlying().(type) {
						case *types.Slice:
							recursesList = true
						case *types.Map:
							recursesMap = true
						}
					}
				}
			}
		}
		return true
	})
	r.Check(int64Call != nil, "flow/number-canonical", "jsonschema.unwrapJSONNumber tries Int64", fd.Pos(), "integers become int64", "unwrapJSONNumber no longer tries json.Number.Int64(): integer defaults/constants become floats")
	// Float64 is attempted whenever Int64 failed: the only conditions on the way are tests of an error against nil and the comma-ok of the assertion
	okFloat := float64Call != nil
	why := "unwrapJSONNumber no longer tries json.Number.Float64()"
	if float64Call != nil {
		for _, c := range enclosingConds(parents, float64Call) {
			cond := exprString(c.stmt.Cond)
			isErrTest := false
			if be, ok := ast.Unparen(c.stmt.Cond).(*ast.BinaryExpr); ok && (be.Op == token.EQL || be.Op == token.NEQ) && isNilIdent(info, be.Y) {
				if t := info.TypeOf(be.X); t != nil && isErrorType(t) {
					isErrTest = true
				}
			}
			isOkTest := false
			if id, ok := ast.Unparen(c.stmt.Cond).(*ast.Ident); ok {
				if b, ok := info.TypeOf(id).Underlying().(*types.Basic); ok && b.Kind() == types.Bool && c.stmt.Init != nil {
					isOkTest = true
				}
			}
			if !isErrTest && !isOkTest {
				okFloat = false
				why = "json.Number.Float64() is only attempted under the condition `" + cond + "`"
			}
		}
	}
	r.Check(okFloat, "flow/number-canonical", "jsonschema.unwrapJSONNumber tries Float64 unconditionally", fd.Pos(), "every number that is not an int64 becomes a float64",
		why+": numbers it does not cover (exponent notation, integers beyond int64) reach the IR as strings / json.Number and are printed as quoted strings by every jenny")
	// an integer can be written with an exponent (`1e6`): Int64() refuses it, Float64() makes it a float. The float is
	// converted back when it is integral: a conversion int64(<the Float64 result>) under a math.Trunc test.
	integral := false
	ast.Inspect(fd.Body, func(m ast.Node) bool {
		c, ok := m.(*ast.CallExpr)
		if !ok || len(c.Args) != 1 {
			return true
		}
		if tv, ok := info.Types[c.Fun]; !ok || !tv.IsType() {
			return true
		}
		if b, ok := info.TypeOf(c).Underlying().(*types.Basic); !ok || b.Kind() != types.Int64 {
			return true
		}
		if b, ok := info.TypeOf(c.Args[0]).Underlying().(*types.Basic); !ok || b.Kind() != types.Float64 {
			return true
		}
		for _, cd := range enclosingConds(parents, c) {
			if strings.Contains(exprString(cd.stmt.Cond), "math.Trunc") {
				integral = true
			}
		}
		return true
	})
	r.Check(integral, "flow/number-canonical", "jsonschema.unwrapJSONNumber gives integral exponent literals back as integers", fd.Pos(), "an integral float is converted to int64",
		"a number written with an exponent is always a float64 in the IR: the default 1e6 of an integer property is printed 1000000.0 by the Python jenny and 1000000 by the Go jenny")
	r.Check(recursesList && recursesMap, "flow/number-canonical", "jsonschema.unwrapJSONNumber recurses into lists and objects", fd.Pos(), "list and object defaults are canonicalised element-wise",
		"unwrapJSONNumber no longer recurses into lists or objects: numbers inside list/struct defaults stay json.Number")
}

// c10FrontierReads: in the JSON Schema front-end, every value of static type any / []any read from a struct of the
// schema library (numbers are json.Number there) is only handed to unwrapJSONNumber, tested (nil, len, type
// assertion / switch) or formatted with fmt — never stored into the IR as it is.
func c10FrontierReads(ctx *Ctx, r *Report) {
	p := ctx.Pkg("internal/jsonschema")
	if p == nil {
		return
	}
	info := p.TypesInfo
	n := 0
	for _, file := range p.Syntax {
		for _, d := range file.Decls {
			fd, ok := d.(*ast.FuncDecl)
			if !ok || fd.Body == nil {
				continue
			}
			fobj, _ := info.Defs[fd.Name].(*types.Func)
			parents := parentMap(fd)
			seen := map[string]int{}
			tainted := map[types.Object]bool{} // locals / range variables holding a raw value
			var checkUse func(e ast.Expr, what string)
			checkUse = func(e ast.Expr, what string) {
				n++
				cons := fmt.Sprintf("%s reads %s", ctx.FuncName(fobj), what)
				seen[cons]++
				if seen[cons] > 1 {
					cons = fmt.Sprintf("%s #%d", cons, seen[cons])
				}
				ok, how := c10SafeUse(info, parents, e, tainted)
				r.Check(ok, "flow/number-canonical", cons, e.Pos(), how,
					fmt.Sprintf("%s uses the raw value %s of the schema library (%s): a number in it is a json.Number, which the jennies print as a quoted string", ctx.FuncName(fobj), what, how))
			}
			ast.Inspect(fd.Body, func(m ast.Node) bool {
				switch x := m.(type) {
				case *ast.SelectorExpr:
					f := fieldOf(info, x)
					if f == nil || f.Pkg() == nil || !strings.Contains(f.Pkg().Path(), "santhosh-tekuri/jsonschema") {
						return true
					}
					t := f.Type()
					isAny := isEmptyInterface(t)
					if sl, ok := t.Underlying().(*types.Slice); ok && isEmptyInterface(sl.Elem()) {
						isAny = true
					}
					if !isAny {
						return true
					}
					// a store *into* the library field (of a local copy of the schema) reads nothing
					if as, ok := parents[ast.Node(x)].(*ast.AssignStmt); ok {
						isTarget := false
						for _, l := range as.Lhs {
							if l == ast.Expr(x) {
								isTarget = true
							}
						}
						if isTarget {
							return true
						}
					}
					// the expression that carries the value: X.F, X.F[i]
					var carrier ast.Expr = x
					if ix, ok := parents[ast.Node(x)].(*ast.IndexExpr); ok && ix.X == ast.Expr(x) {
						carrier = ix
					}
					// range over the slice: taint the value variable
					if rs, ok := parents[ast.Node(x)].(*ast.RangeStmt); ok && rs.X == ast.Expr(x) {
						if id, ok := rs.Value.(*ast.Ident); ok {
							tainted[info.Defs[id]] = true
						}
						return true
					}
					// `value := X.F[i]`: taint the local
					if as, ok := parents[ast.Node(carrier)].(*ast.AssignStmt); ok && len(as.Lhs) == 1 && len(as.Rhs) == 1 && as.Rhs[0] == carrier {
						if id, ok := as.Lhs[0].(*ast.Ident); ok {
							if o := objOf(info, id); o != nil {
								tainted[o] = true
								return true
							}
						}
					}
					checkUse(carrier, "schema."+f.Name())
				}
				return true
			})
			// uses of tainted locals
			ast.Inspect(fd.Body, func(m ast.Node) bool {
				id, ok := m.(*ast.Ident)
				if !ok || !tainted[info.Uses[id]] {
					return true
				}
				checkUse(id, "local "+id.Name)
				return true
			})
		}
	}
	r.Count("reads of untyped values of the JSON Schema library", n)
	r.Floor("reads of untyped values of the JSON Schema library", 12)
}

func c10SafeUse(info *types.Info, parents map[ast.Node]ast.Node, e ast.Expr, tainted map[types.Object]bool) (bool, string) {
	p := parents[ast.Node(e)]
	for {
		if pe, ok := p.(*ast.ParenExpr); ok {
			p = parents[ast.Node(pe)]
			continue
		}
		break
	}
	switch x := p.(type) {
	case *ast.CallExpr:
		if fn := callee(info, x); fn != nil {
			if fn.Name() == "unwrapJSONNumber" {
				return true, "handed to unwrapJSONNumber"
			}
			if fn.Pkg() != nil && fn.Pkg().Path() == "fmt" {
				return true, "formatted with fmt (a json.Number prints as its literal)"
			}
		}
		if id, ok := x.Fun.(*ast.Ident); ok && id.Name == "len" {
			return true, "length test"
		}
		return false, "passed to " + exprString(x.Fun)
	case *ast.BinaryExpr:
		if x.Op == token.EQL || x.Op == token.NEQ {
			return true, "comparison"
		}
	case *ast.TypeAssertExpr:
		// X.(T) with a concrete non-number T, or a type switch
		if x.Type == nil {
			return true, "type switch"
		}
		return true, "type assertion to " + exprString(x.Type)
	case *ast.IndexExpr:
		if x.X == e {
			// element of a tainted slice: check the element's use
			return c10SafeUse(info, parents, x, tainted)
		}
	case *ast.RangeStmt:
		return true, "ranged over"
	case *ast.TypeSwitchStmt, *ast.AssignStmt:
		if as, ok := x.(*ast.AssignStmt); ok {
			// `switch constant := value.(type)` is an AssignStmt inside a TypeSwitchStmt
			if _, ok := parents[ast.Node(as)].(*ast.TypeSwitchStmt); ok {
				return true, "type switch"
			}
			return false, "assigned to " + exprString(as.Lhs[0])
		}
		return true, "type switch"
	case *ast.KeyValueExpr:
		return false, "stored in a composite literal (" + exprString(x.Key) + ")"
	case *ast.IfStmt, *ast.ExprStmt:
		return true, "tested"
	}
	return false, fmt.Sprintf("used in a %T", p)
}

// c10UntypedConstant: walkUntypedConstant's json.Number case tries Int64 then Float64.
func c10UntypedConstant(ctx *Ctx, r *Report) {
	fn := ctx.LookupMethod("internal/jsonschema", "generator", "walkUntypedConstant")
	fd, p := ctx.DeclOf(fn)
	if fd == nil {
		r.Undecided("anchor lost: jsonschema.generator.walkUntypedConstant")
		return
	}
	info := p.TypesInfo
	var clause *ast.CaseClause
	ast.Inspect(fd.Body, func(n ast.Node) bool {
		if cc, ok := n.(*ast.CaseClause); ok {
			for _, e := range cc.List {
				if t := info.TypeOf(e); t != nil && t.String() == "encoding/json.Number" {
					clause = cc
				}
			}
		}
		return true
	})
	if clause == nil {
		r.Bad("flow/number-canonical", "jsonschema.walkUntypedConstant json.Number case", fd.Pos(), "walkUntypedConstant has no case for json.Number any more: a numeric `const` without `type` is stored raw")
		return
	}
	hasInt, hasFloat := false, false
	ast.Inspect(clause, func(n ast.Node) bool {
		if c, ok := n.(*ast.CallExpr); ok {
			if f := callee(info, c); f != nil {
				hasInt = hasInt || f.FullName() == "(encoding/json.Number).Int64"
				hasFloat = hasFloat || f.FullName() == "(encoding/json.Number).Float64"
			}
		}
		return true
	})
	r.Check(hasInt && hasFloat, "flow/number-canonical", "jsonschema.walkUntypedConstant json.Number case", clause.Pos(), "tries Int64 then Float64", "the json.Number case of walkUntypedConstant does not try both Int64 and Float64")
}

// c10CueAccessors: simplecue.cueConcreteToScalar reads each CUE kind with the accessor of that kind.
func c10CueAccessors(ctx *Ctx, r *Report) {
	p := ctx.Pkg("internal/simplecue")
	if p == nil {
		r.Undecided("package internal/simplecue not found")
		return
	}
	info := p.TypesInfo
	var fd *ast.FuncDecl
	for _, f := range p.Syntax {
		for _, d := range f.Decls {
			if x, ok := d.(*ast.FuncDecl); ok && x.Name.Name == "cueConcreteToScalar" {
				fd = x
			}
		}
	}
	if fd == nil {
		r.Undecided("anchor lost: simplecue.cueConcreteToScalar")
		return
	}
	fd = followDelegation(ctx, info, fd)
	want := map[string][]string{"IntKind": {"Int64", "Uint64", "Int"}, "FloatKind": {"Float64"}, "NumberKind": {"Float64", "Int64"}, "StringKind": {"String"}, "BoolKind": {"Bool"}}
	n := 0
	ast.Inspect(fd.Body, func(m ast.Node) bool {
		cc, ok := m.(*ast.CaseClause)
		if !ok {
			return true
		}
		var accessors []string
		for _, st := range cc.Body {
			ast.Inspect(st, func(k ast.Node) bool {
				if c, ok := k.(*ast.CallExpr); ok {
					if f := callee(info, c); f != nil && f.Pkg() != nil && strings.HasSuffix(f.Pkg().Path(), "cue") {
						if sig, ok := f.Type().(*types.Signature); ok && sig.Recv() != nil && strings.HasSuffix(sig.Recv().Type().String(), "cue.Value") {
							accessors = append(accessors, f.Name())
						}
					}
				}
				return true
			})
		}
		for _, e := range cc.List {
			sel, ok := e.(*ast.SelectorExpr)
			if !ok {
				continue
			}
			allowed, known := want[sel.Sel.Name]
			if !known {
				continue
			}
			n++
			okAcc := len(accessors) > 0
			for _, a := range accessors {
				found := false
				for _, w := range allowed {
					if a == w {
						found = true
					}
				}
				if !found {
					okAcc = false
				}
			}
			if sel.Sel.Name == "IntKind" {
				// an integer must be read as an integer
				for _, a := range accessors {
					if a == "Float64" {
						okAcc = false
					}
				}
			}
			r.Check(okAcc, "kinds/cue-accessor-agreement", "simplecue.cueConcreteToScalar case cue."+sel.Sel.Name, cc.Pos(), fmt.Sprintf("read with %v", accessors),
				fmt.Sprintf("values of kind cue.%s are read with %v: the concrete value (default, constant, enum member) reaches the IR with another Go type than its CUE kind — an integer carried as float64 is printed as 1e+06 / rounded beyond 2^53 by the Go and Python jennies", sel.Sel.Name, accessors))
		}
		return true
	})
	r.Count("CUE kinds read by cueConcreteToScalar", n)
	r.Floor("CUE kinds read by cueConcreteToScalar", 5)
}

// c10NumberCanonical groups the frontier rules; C02 calls it too (literal canonicality).
func c10NumberCanonical(ctx *Ctx, r *Report) {
	c10UnwrapTotal(ctx, r)
	c10FrontierReads(ctx, r)
	c10UntypedConstant(ctx, r)
	c10CueAccessors(ctx, r)
}

// c10WalkersReadDefault: sibling agreement between the walkers of the two JSON-family front-ends: every walker that
// builds a type from a schema node carries the node's `default` into the IR.
var c10WalkerExemptions = map[string]string{
	"walkDefinition": "dispatcher: every branch ends in a walker of this list", "walkDefinitions": "dispatcher",
	"walkSchemaRef": "dispatcher", "walkRef": "draft-07 ignores the siblings of $ref; OpenAPI 3.0 likewise",
	"walkAnyOf": "composition keyword: no front-end reads a `default` next to anyOf/oneOf/allOf (reviewed gap: a union default would then meet the known finding on DisjunctionToType)",
	"walkOneOf": "composition keyword, as walkAnyOf", "walkAllOf": "composition keyword, as walkAnyOf",
	"walkDisjunctionBranches": "helper over branches", "walkDisjunctions": "helper over branches", "walkScalarDisjunction": "`type: [a, b]`: the node's default is not carried (reviewed gap, as walkAnyOf)",
	"walkUntypedConstant": "a constant has no default", "walkAny": "no schema node",
}

func c10WalkersReadDefault(ctx *Ctx, r *Report) {
	n := 0
	for _, rel := range []string{"internal/jsonschema", "internal/openapi"} {
		p := ctx.Pkg(rel)
		if p == nil {
			r.Undecided("package %s not found", rel)
			continue
		}
		info := p.TypesInfo
		for _, file := range p.Syntax {
			for _, d := range file.Decls {
				fd, ok := d.(*ast.FuncDecl)
				if !ok || fd.Body == nil || !strings.HasPrefix(fd.Name.Name, "walk") {
					continue
				}
				fobj, _ := info.Defs[fd.Name].(*types.Func)
				n++
				cons := ctx.FuncName(fobj) + " carries default"
				// JSON Schema from 2019-09 on — the dialect the parsing library assumes when `$schema` is absent — applies the
				// keywords written next to `$ref`, oneOf and anyOf: the exemptions for these three only hold for OpenAPI 3.0
				// (the exemption of oneOf / anyOf was wrong for OpenAPI too: a default next to them is the property's default —
				// lifted after the third hunt of C10; only `$ref` keeps its OpenAPI 3.0 exemption)
				lifted := fd.Name.Name == "walkOneOf" || fd.Name.Name == "walkAnyOf" || (rel == "internal/jsonschema" && fd.Name.Name == "walkRef")
				if why, ok := c10WalkerExemptions[fd.Name.Name]; ok && !lifted {
					r.OK("frontier/default-read", cons, fd.Pos(), "reviewed: "+why)
					continue
				}
				reads := false
				// the walker itself, or a helper of the package it hands the node to (not another walker)
				bodies := []ast.Node{fd.Body}
				ast.Inspect(fd.Body, func(m ast.Node) bool {
					if c, ok := m.(*ast.CallExpr); ok {
						if fn := callee(info, c); fn != nil && fn.Pkg() == p.Types && !strings.HasPrefix(fn.Name(), "walk") {
							if hfd, _ := ctx.DeclOf(fn); hfd != nil && hfd.Body != nil {
								bodies = append(bodies, hfd.Body)
							}
						}
					}
					return true
				})
				for _, b := range bodies {
					ast.Inspect(b, func(m ast.Node) bool {
						if sel, ok := m.(*ast.SelectorExpr); ok && sel.Sel.Name == "Default" {
							if f := fieldOf(info, sel); f != nil && f.Pkg() != nil && !strings.HasPrefix(f.Pkg().Path(), modulePath) {
								reads = true
							}
						}
						return true
					})
				}
				// maps: accepted gap (the jennies cannot render a map default)
				r.Check(reads, "frontier/default-read", cons, fd.Pos(), "reads the node's default",
					fmt.Sprintf("%s builds a type from a schema node without reading its `default`: the default the schema declares is dropped (the sibling walkers of both JSON-family front-ends carry it)", ctx.FuncName(fobj)))
			}
		}
	}
	r.Count("schema-node walkers of the JSON-family front-ends", n)
	r.Floor("schema-node walkers of the JSON-family front-ends", 20)
}

// c10ConstantFromConcrete: a default taken from the constant of a scalar (`X.Scalar.Value`) is read from a scalar
// known to be concrete: under `X.Scalar.IsConcrete()`, or in the else-branch of that test on the *other* operand
// once the function has left when both operands agree on concreteness.
func c10ConstantFromConcrete(ctx *Ctx, r *Report) {
	pkg := ctx.Pkg("internal/ast/compiler")
	if pkg == nil {
		return
	}
	info := pkg.TypesInfo
	defaultF := astField(ctx, "Type", "Default")
	valueF := astField(ctx, "ScalarType", "Value")
	n := 0
	for _, file := range pkg.Syntax {
		for _, d := range file.Decls {
			fd, ok := d.(*ast.FuncDecl)
			if !ok || fd.Body == nil {
				continue
			}
			fobj, _ := info.Defs[fd.Name].(*types.Func)
			parents := parentMap(fd)
			isConcreteCallOn := func(e ast.Expr) ast.Expr {
				c, ok := ast.Unparen(e).(*ast.CallExpr)
				if !ok {
					return nil
				}
				fn := callee(info, c)
				if fn == nil || (fn.Name() != "IsConcrete" && fn.Name() != "IsConcreteScalar") {
					return nil
				}
				sel, ok := c.Fun.(*ast.SelectorExpr)
				if !ok {
					return nil
				}
				// X.Scalar.IsConcrete() / X.AsScalar().IsConcrete() / X.IsConcreteScalar(): return X
				base := ast.Unparen(sel.X)
				if fn.Name() == "IsConcrete" {
					switch b := base.(type) {
					case *ast.SelectorExpr:
						base = b.X
					case *ast.CallExpr:
						if s2, ok := b.Fun.(*ast.SelectorExpr); ok {
							base = s2.X
						}
					}
				}
				return base
			}
			// exactly-one exit: `if A.IsConcrete() == B.IsConcrete() { return … }`
			exactlyOne := false
			ast.Inspect(fd.Body, func(m ast.Node) bool {
				if is, ok := m.(*ast.IfStmt); ok && endsInExit(is.Body) {
					if be, ok := ast.Unparen(is.Cond).(*ast.BinaryExpr); ok && be.Op == token.EQL && isConcreteCallOn(be.X) != nil && isConcreteCallOn(be.Y) != nil {
						exactlyOne = true
					}
				}
				return true
			})
			ast.Inspect(fd.Body, func(m ast.Node) bool {
				as, ok := m.(*ast.AssignStmt)
				if !ok || len(as.Lhs) != len(as.Rhs) {
					return true
				}
				for i, l := range as.Lhs {
					lsel, ok := ast.Unparen(l).(*ast.SelectorExpr)
					if !ok || fieldOf(info, lsel) != defaultF {
						continue
					}
					rsel, ok := ast.Unparen(as.Rhs[i]).(*ast.SelectorExpr)
					if !ok || fieldOf(info, rsel) != valueF {
						continue
					}
					// the scalar's owner: X in X.Scalar.Value / X.AsScalar().Value
					var owner ast.Expr
					switch b := ast.Unparen(rsel.X).(type) {
					case *ast.SelectorExpr:
						owner = b.X
					case *ast.CallExpr:
						if s2, ok := b.Fun.(*ast.SelectorExpr); ok {
							owner = s2.X
						}
					}
					if owner == nil {
						continue
					}
					n++
					guard := ""
					for _, c := range enclosingConds(parents, as) {
						tested := isConcreteCallOn(c.stmt.Cond)
						if tested == nil && !c.inElse {
							// one of the conjuncts of the condition (`d == nil && X.Scalar.IsConcrete()`)
							var conjuncts func(e ast.Expr)
							conjuncts = func(e ast.Expr) {
								if be, ok := ast.Unparen(e).(*ast.BinaryExpr); ok && be.Op == token.LAND {
									conjuncts(be.X)
									conjuncts(be.Y)
									return
								}
								if t := isConcreteCallOn(e); t != nil && sameAccessPath(info, t, owner) {
									tested = t
								}
							}
							conjuncts(c.stmt.Cond)
						}
						if tested == nil {
							continue
						}
						if !c.inElse && sameAccessPath(info, tested, owner) {
							guard = "read under " + exprString(c.stmt.Cond)
						}
						if c.inElse && !sameAccessPath(info, tested, owner) && exactlyOne {
							guard = "read in the else-branch of " + exprString(c.stmt.Cond) + ", after the function left when both operands agree on concreteness"
						}
					}
					r.Check(guard != "", "flow/constant-from-concrete", fmt.Sprintf("%s default from %s", ctx.FuncName(fobj), exprString(as.Rhs[i])), as.Pos(), guard,
						fmt.Sprintf("%s takes a default from %s without establishing that this scalar is the concrete one: when the constant is the other operand the value read is nil and the declared default is lost", ctx.FuncName(fobj), exprString(as.Rhs[i])))
				}
				return true
			})
		}
	}
	r.Count("defaults taken from scalar constants", n)
	r.Floor("defaults taken from scalar constants", 1)
}

// c10OverridesForwarded: the jennies receive struct defaults as a map of overrides (a type assertion of an `any` to
// map[string]any). That map is used as a whole — assigned, passed on, indexed — never copied through a filter:
// a dropped entry silently falls back to the referred struct's own default.
func c10OverridesForwarded(ctx *Ctx, r *Report) {
	n := 0
	for _, rel := range []string{"internal/jennies/golang", "internal/jennies/python"} {
		p := ctx.Pkg(rel)
		if p == nil {
			continue
		}
		info := p.TypesInfo
		for _, file := range p.Syntax {
			for _, d := range file.Decls {
				fd, ok := d.(*ast.FuncDecl)
				if !ok || fd.Body == nil {
					continue
				}
				fobj, _ := info.Defs[fd.Name].(*types.Func)
				ast.Inspect(fd.Body, func(m ast.Node) bool {
					as, ok := m.(*ast.AssignStmt)
					if !ok || len(as.Lhs) != 2 || len(as.Rhs) != 1 {
						return true
					}
					ta, ok := ast.Unparen(as.Rhs[0]).(*ast.TypeAssertExpr)
					if !ok || ta.Type == nil {
						return true
					}
					mt, ok := info.TypeOf(ta.Type).Underlying().(*types.Map)
					if !ok || !isEmptyInterface(mt.Elem()) {
						return true
					}
					id, ok := as.Lhs[0].(*ast.Ident)
					if !ok || id.Name == "_" {
						return true
					}
					mv := objOf(info, id)
					n++
					// any `for k, v := range <mv>` whose body skips entries (continue / if) before storing them elsewhere
					filtered := token.NoPos
					ast.Inspect(fd.Body, func(k ast.Node) bool {
						rs, ok := k.(*ast.RangeStmt)
						if !ok || !isIdentOf(info, rs.X, mv) {
							return true
						}
						ast.Inspect(rs.Body, func(q ast.Node) bool {
							switch x := q.(type) {
							case *ast.BranchStmt:
								if x.Tok == token.CONTINUE {
									filtered = x.Pos()
								}
							case *ast.IfStmt:
								// an insertion under a condition
								ast.Inspect(x.Body, func(z ast.Node) bool {
									if a2, ok := z.(*ast.AssignStmt); ok {
										for _, l := range a2.Lhs {
											if _, ok := ast.Unparen(l).(*ast.IndexExpr); ok {
												filtered = a2.Pos()
											}
										}
									}
									return true
								})
							}
							return true
						})
						return true
					})
					r.Check(filtered == token.NoPos, "copycheck/overrides-forwarded", fmt.Sprintf("%s overrides %s", ctx.FuncName(fobj), id.Name), as.Pos(), "the map of overrides is used as a whole",
						fmt.Sprintf("%s copies the overrides of a struct default through a filter (at %s): an override that is skipped falls back to the referred struct's own default — the emitted constructor no longer holds the default the schema declares", ctx.FuncName(fobj), ctx.Pos(filtered)))
					return true
				})
			}
		}
	}
	r.Count("override maps received by the Go and Python jennies", n)
	r.Floor("override maps received by the Go and Python jennies", 3)
}

// ---------------------------------------------------------------------------
// rules added after the second round of independent seeds

// c10EnumValueDefaultAgreement: in the enum walkers of the front-ends, member values and the enum's default go through the
// same conversion: if the loop re-types a member value (assignment to the range variable, conversion call) the default must be
// converted alike — the Go jenny finds the default member with `member.Value == Default`.
func c10EnumValueDefaultAgreement(ctx *Ctx, r *Report) {
	n := 0
	for _, rel := range []string{"internal/jsonschema", "internal/openapi"} {
		p := ctx.Pkg(rel)
		if p == nil {
			continue
		}
		info := p.TypesInfo
		var fd *ast.FuncDecl
		for _, f := range p.Syntax {
			for _, d := range f.Decls {
				if x, ok := d.(*ast.FuncDecl); ok && x.Name.Name == "walkEnum" {
					fd = x
				}
			}
		}
		if fd == nil {
			r.Undecided("anchor lost: %s.walkEnum", rel)
			continue
		}
		n++
		wrapperOf := func(e ast.Expr) string {
			if c, ok := ast.Unparen(e).(*ast.CallExpr); ok {
				return exprString(c.Fun)
			}
			return ""
		}
		valueWrap, defaultWrap := "?", "?"
		retyped := ""
		ast.Inspect(fd.Body, func(m ast.Node) bool {
			switch x := m.(type) {
			case *ast.RangeStmt:
				if id, ok := x.Value.(*ast.Ident); ok {
					vobj := info.Defs[id]
					ast.Inspect(x.Body, func(k ast.Node) bool {
						if as, ok := k.(*ast.AssignStmt); ok && as.Tok == token.ASSIGN {
							for _, l := range as.Lhs {
								if isIdentOf(info, l, vobj) {
									retyped = exprString(as.Rhs[0])
								}
							}
						}
						return true
					})
				}
			case *ast.KeyValueExpr:
				if exprString(x.Key) == "Value" {
					valueWrap = wrapperOf(x.Value)
				}
			case *ast.CallExpr:
				if f := callee(info, x); f != nil && f.Name() == "Default" && f.Pkg() != nil && f.Pkg().Path() == astPkgPath && len(x.Args) == 1 {
					defaultWrap = wrapperOf(x.Args[0])
				}
			}
			return true
		})
		bad := ""
		if retyped != "" {
			bad = "member values are re-typed in the loop (`" + retyped + "`) while the default is not"
		} else if valueWrap != defaultWrap {
			bad = fmt.Sprintf("member values go through `%s`, the default through `%s`", valueWrap, defaultWrap)
		}
		r.Check(bad == "", "siblings/enum-value-default", rel+".walkEnum", fd.Pos(), "member values and the default are converted alike",
			rel+".walkEnum: "+bad+": the default no longer compares equal to the member it designates, the Go constructor falls back to the first member while Python prints the declared default")
	}
	r.Count("enum walkers", n)
}

// c10PythonMutableDefaults: the Python __init__ generator only writes a default value into the signature for immutable
// values: a branch that handles arrays / maps / structs with `name: T = <literal>` makes every instance share one object.
func c10PythonMutableDefaults(ctx *Ctx, r *Report) {
	p := ctx.Pkg("internal/jennies/python")
	if p == nil {
		return
	}
	info := p.TypesInfo
	var fd *ast.FuncDecl
	for _, f := range p.Syntax {
		for _, d := range f.Decls {
			if x, ok := d.(*ast.FuncDecl); ok && x.Name.Name == "generateInitMethod" {
				fd = x
			}
		}
	}
	if fd == nil {
		r.Undecided("anchor lost: python.RawTypes.generateInitMethod")
		return
	}
	parents := parentMap(fd)
	n := 0
	ast.Inspect(fd.Body, func(m ast.Node) bool {
		c, ok := m.(*ast.CallExpr)
		if !ok || len(c.Args) < 2 {
			return true
		}
		fn := callee(info, c)
		if fn == nil || fn.FullName() != "fmt.Sprintf" {
			return true
		}
		lit, ok := c.Args[0].(*ast.BasicLit)
		if !ok || !strings.Contains(lit.Value, ": %s = %s") {
			return true
		}
		n++
		// the branch it sits in must not be one that selects collections / objects
		mutable := ""
		for _, ce := range enclosingConds(parents, c) {
			cs := exprString(ce.stmt.Cond)
			if ce.inElse {
				continue
			}
			for _, k := range []string{"IsArray()", "IsMap()", "IsStruct()", "KindArray", "KindMap", "KindStruct", "[]any", "map[string]"} {
				if strings.Contains(cs, k) {
					mutable = cs
				}
			}
			if init, ok := ce.stmt.Init.(*ast.AssignStmt); ok {
				is := exprString(init.Rhs[0])
				if strings.Contains(is, "[]any") || strings.Contains(is, "map[string]") {
					mutable = is
				}
			}
		}
		// … and the collection / object kinds must have left the loop body before it: an earlier branch of the same
		// block that names the kind and ends in continue / return
		if mutable == "" {
			excluded := map[string]bool{}
			var stmt ast.Node = c
			for stmt != nil {
				par := parents[stmt]
				if blk, ok := par.(*ast.BlockStmt); ok {
					for _, st := range blk.List {
						if st.Pos() >= stmt.Pos() {
							break
						}
						cur, _ := st.(*ast.IfStmt)
						for cur != nil {
							if endsInExitOrPanic(info, cur.Body) {
								ast.Inspect(cur.Cond, func(q ast.Node) bool {
									switch x := q.(type) {
									case *ast.SelectorExpr:
										if k := kindOfConst[x.Sel.Name]; k != "" {
											excluded[k] = true
										}
										if k := kindOfPredicateExact[x.Sel.Name]; k != "" {
											excluded[k] = true
										}
									}
									return true
								})
							}
							next, _ := cur.Else.(*ast.IfStmt)
							cur = next
						}
					}
				}
				if _, ok := par.(*ast.FuncDecl); ok {
					break
				}
				stmt = par
			}
			var open []string
			for _, k := range []string{"array", "map", "struct", "ref"} {
				if !excluded[k] {
					open = append(open, k)
				}
			}
			if len(open) > 0 {
				mutable = "no earlier branch takes fields of kind " + strings.Join(open, ", ") + " out of the loop body"
			}
		}
		r.Check(mutable == "", "skeleton/python-immutable-defaults", fmt.Sprintf("python generateInitMethod literal default #%d", n), c.Pos(), "only written for values that are not lists / dicts / objects",
			"generateInitMethod writes a literal default into the __init__ signature ("+mutable+"): Python evaluates it once, so every instance built without that argument shares (and mutates) the same list / dict — the second default-constructed object no longer holds the declared default")
		return true
	})
	r.Count("literal defaults written into Python signatures", n)
	r.Floor("literal defaults written into Python signatures", 1)
}

// ---------------------------------------------------------------------------
// Rules added after the third generation of seeds.

// c10ThirdRound: (a) Python: a type that is not a reference and declares a default yields that default, whatever its
// kind — the shortcut at the top of defaultValueForTypeRec may only be conditioned on IsRef and on the default being
// set (a kind filter sends the other kinds, unions first, to "empty value of the first branch"); (b) Go: a declared list
// default is a list literal of the field's type, never `nil` (json: null vs []); (c) the scalar that replaces a union of
// same-kind scalars is a fresh ast.NewScalar carrying the union's default, not a copy of one branch (a constant branch
// listed first would make the whole field a constant, which the Go constructor assigns before any default).
func c10ThirdRound(ctx *Ctx, r *Report) {
	// (a)
	if fn := ctx.LookupFunc("internal/jennies/python", "defaultValueForTypeRec"); fn != nil {
		fd, p := ctx.DeclOf(fn)
		info := p.TypesInfo
		ka := newKindAnalysis(ctx)
		defaultF := astField(ctx, "Type", "Default")
		n := 0
		for _, st := range fd.Body.List {
			is, ok := st.(*ast.IfStmt)
			if !ok || len(is.Body.List) != 1 {
				continue
			}
			rs, ok := is.Body.List[0].(*ast.ReturnStmt)
			if !ok || len(rs.Results) != 1 || fieldOf(info, rs.Results[0]) != defaultF {
				continue
			}
			n++
			filter := ""
			ast.Inspect(is.Cond, func(q ast.Node) bool {
				if c, ok := q.(*ast.CallExpr); ok {
					if f := callee(info, c); f != nil {
						if f.Name() == "IsRef" {
							return true
						}
						if ka.predicates[f.Origin()] != "" || f.Name() == "IsAnyOf" {
							filter = exprString(c)
						}
					}
				}
				return true
			})
			r.Check(filter == "", "flow/declared-default-first", "python.defaultValueForTypeRec returns the declared default", is.Pos(), "for every kind but references",
				fmt.Sprintf("python.defaultValueForTypeRec returns the declared default only under `%s`: the other kinds (unions, maps, …) fall through to the empty value of their first branch — `string | int64 | *\"uu\"` is constructed as \"\" while Go constructs \"uu\"", filter))
		}
		r.Count("declared-default shortcuts of the python jenny", n)
		r.Floor("declared-default shortcuts of the python jenny", 1)
	} else {
		r.Undecided("anchor lost: python.defaultValueForTypeRec")
	}
	// (b)
	if fn := ctx.LookupMethod("internal/jennies/golang", "RawTypes", "formatDefaultValue"); fn != nil {
		fd, p := ctx.DeclOf(fn)
		info := p.TypesInfo
		n := 0
		ast.Inspect(fd.Body, func(m ast.Node) bool {
			rs, ok := m.(*ast.ReturnStmt)
			if !ok || len(rs.Results) != 1 {
				return true
			}
			n++
			isNil := false
			if tv, ok := info.Types[rs.Results[0]]; ok && tv.Value != nil && tv.Value.ExactString() == `"nil"` {
				isNil = true
			}
			r.Check(!isNil, "skeleton/go-default-not-nil", fmt.Sprintf("golang.RawTypes.formatDefaultValue result #%d", n), rs.Pos(), "not the literal nil",
				"formatDefaultValue renders a declared default as `nil`: encoding/json writes null where the schema says [] (and Python writes [])")
			return true
		})
		r.Count("results of golang.formatDefaultValue", n)
		r.Floor("results of golang.formatDefaultValue", 2)
	} else {
		r.Undecided("anchor lost: golang.RawTypes.formatDefaultValue")
	}
	// (c)
	if fn := ctx.LookupMethod("internal/ast/compiler", "DisjunctionToType", "processDisjunction"); fn != nil {
		fd, p := ctx.DeclOf(fn)
		info := p.TypesInfo
		newScalar := ctx.LookupFunc("internal/ast", "NewScalar")
		n := 0
		ast.Inspect(fd.Body, func(m ast.Node) bool {
			is, ok := m.(*ast.IfStmt)
			if !ok || !strings.Contains(exprString(is.Cond), "hasOnlySingleTypeScalars") {
				return true
			}
			defs := map[types.Object]ast.Expr{}
			ast.Inspect(is.Body, func(q ast.Node) bool {
				if as, ok := q.(*ast.AssignStmt); ok && as.Tok == token.DEFINE && len(as.Lhs) == 1 && len(as.Rhs) == 1 {
					if id, ok := as.Lhs[0].(*ast.Ident); ok {
						defs[info.Defs[id]] = as.Rhs[0]
					}
				}
				return true
			})
			ast.Inspect(is.Body, func(q ast.Node) bool {
				rs, ok := q.(*ast.ReturnStmt)
				if !ok || len(rs.Results) != 2 || !isNilIdent(info, rs.Results[1]) {
					return true
				}
				n++
				src := rs.Results[0]
				if id, ok := ast.Unparen(src).(*ast.Ident); ok {
					if d, ok := defs[objOf(info, id)]; ok {
						src = d
					}
				}
				fresh := false
				hasValue := false
				if c, ok := ast.Unparen(src).(*ast.CallExpr); ok && callee(info, c) == newScalar {
					fresh = true
					for _, a := range c.Args {
						if strings.Contains(exprString(a), "ast.Value(") {
							hasValue = true
						}
					}
				}
				r.Check(fresh && !hasValue, "traverse/collapsed-scalar-fresh", "DisjunctionToType same-kind scalars replacement", rs.Pos(), "a fresh scalar of that kind carrying the union's default, without a constant value",
					fmt.Sprintf("the union of same-kind scalars is replaced by %s, not by a fresh ast.NewScalar: a copy of a branch inherits that branch's constant value — `\"fit\" | string | *\"auto\"` becomes the constant \"fit\" in Go while Python constructs \"auto\"", exprString(src)))
				return true
			})
			return true
		})
		r.Count("same-kind scalar collapses in DisjunctionToType", n)
		r.Floor("same-kind scalar collapses in DisjunctionToType", 1)
	} else {
		r.Undecided("anchor lost: DisjunctionToType.processDisjunction")
	}
}

// c10NoBreakOutOfFieldLoops: a loop that produces something for *every* field of a struct (defaults, constructor
// arguments, assignments) must not be left by a `break`: inside an if / else-if chain of the loop body a `break` does not
// leave the chain, it leaves the loop — the remaining fields silently get nothing. Loops that only search (the body
// has no effect besides setting the result and leaving) are recognised by what follows the loop: a search loop's body
// consists of one guarded statement block ending in the break.
func c10NoBreakOutOfFieldLoops(ctx *Ctx, r *Report) {
	fieldsF := astField(ctx, "StructType", "Fields")
	n := 0
	for _, p := range ctx.Pkgs {
		if !strings.Contains(p.PkgPath, "/internal/jennies/") {
			continue
		}
		info := p.TypesInfo
		for _, file := range p.Syntax {
			for _, d := range file.Decls {
				fd, ok := d.(*ast.FuncDecl)
				if !ok || fd.Body == nil {
					continue
				}
				fobj, _ := info.Defs[fd.Name].(*types.Func)
				parents := parentMap(fd)
				ast.Inspect(fd.Body, func(m ast.Node) bool {
					rs, ok := m.(*ast.RangeStmt)
					if !ok || fieldOf(info, rs.X) != fieldsF {
						return true
					}
					// a search loop: the whole body is `if cond { …; break }`
					if len(rs.Body.List) == 1 {
						if _, isIf := rs.Body.List[0].(*ast.IfStmt); isIf {
							return true
						}
					}
					n++
					bad := token.NoPos
					ast.Inspect(rs.Body, func(q ast.Node) bool {
						br, ok := q.(*ast.BranchStmt)
						if !ok || br.Tok != token.BREAK || br.Label != nil {
							return true
						}
						// nearest enclosing breakable statement
						for a := parents[ast.Node(br)]; a != nil; a = parents[a] {
							switch a.(type) {
							case *ast.ForStmt, *ast.SwitchStmt, *ast.TypeSwitchStmt, *ast.SelectStmt:
								return true
							case *ast.RangeStmt:
								if a == ast.Node(rs) && !bad.IsValid() {
									bad = br.Pos()
								}
								return true
							}
						}
						return true
					})
					r.Check(!bad.IsValid(), "flow/no-break-out-of-field-loop", fmt.Sprintf("%s loop over %s", ctx.FuncName(fobj), exprString(rs.X)), rs.Pos(), "every field of the struct is processed",
						fmt.Sprintf("%s leaves its loop over the struct's fields with the `break` at %s: written inside an if / else-if chain it does not leave the chain but the loop — the fields declared after the one that took this path get no default / constant / argument", ctx.FuncName(fobj), ctx.Pos(bad)))
					return true
				})
			}
		}
	}
	r.Count("loops of the jennies that process every field of a struct", n)
	r.Floor("loops of the jennies that process every field of a struct", 10)
}

// c10ConstantRefToEnum: a constant reference names a member of an enum; every jenny resolves it by looking the value up
// among the members. The CUE front-end builds one for `#Ref & value`: it must first establish that what it refers to is an
// enum (an exit guard testing IsEnum before the constructor), otherwise `#Name & "fixed"` with `#Name: string` yields a
// reference no jenny can resolve (Go: constant lost; Python: the bare word `unknown`).
func c10ConstantRefToEnum(ctx *Ctx, r *Report) {
	p := ctx.Pkg("internal/simplecue")
	ctor := ctx.LookupFunc("internal/ast", "NewConstantReferenceType")
	if p == nil || ctor == nil {
		r.Undecided("anchor lost: simplecue / ast.NewConstantReferenceType")
		return
	}
	info := p.TypesInfo
	n := 0
	for _, file := range p.Syntax {
		for _, d := range file.Decls {
			fd, ok := d.(*ast.FuncDecl)
			if !ok || fd.Body == nil {
				continue
			}
			fobj, _ := info.Defs[fd.Name].(*types.Func)
			parents := parentMap(fd)
			ast.Inspect(fd.Body, func(m ast.Node) bool {
				c, ok := m.(*ast.CallExpr)
				if !ok || callee(info, c) != ctor {
					return true
				}
				n++
				// an exit for "not an enum" on every way to the constructor: an `if` that tests enum-ness and returns, either
				// directly before the call or — when the test depends on where the object lives (`refPkg == schema.Package`) —
				// in both arms of that distinction
				testsEnum := func(b ast.Node) bool {
					found := false
					if b == nil {
						return false
					}
					ast.Inspect(b, func(q ast.Node) bool {
						if is, ok := q.(*ast.IfStmt); ok && len(is.Body.List) > 0 {
							txt := exprString(is.Cond)
							if _, rets := is.Body.List[len(is.Body.List)-1].(*ast.ReturnStmt); rets && (strings.Contains(txt, "IsEnum()") || strings.Contains(strings.ToLower(txt), "isenum")) {
								found = true
							}
						}
						return true
					})
					return found
				}
				guarded := false
				for _, ctl := range controllingIfs(parents, fd, c) {
					txt := exprString(ctl.Cond)
					if strings.Contains(txt, "IsEnum()") || strings.Contains(strings.ToLower(txt), "isenum") {
						guarded = true
						continue
					}
					if containsNode(ctl, c) {
						continue // an enclosing condition: only what it tests counts, not what its body holds
					}
					if strings.Contains(txt, "Package") {
						// both arms have to test
						if ctl.Else != nil && testsEnum(ctl.Body) && testsEnum(ctl.Else) {
							guarded = true
						}
						continue
					}
					if testsEnum(ctl.Body) && ctl.Else == nil && !strings.Contains(txt, "Package") {
						guarded = true
					}
				}
				r.Check(guarded, "frontier/constant-ref-to-enum", fmt.Sprintf("%s builds a constant reference", ctx.FuncName(fobj)), c.Pos(), "after establishing that the referred object is an enum",
					fmt.Sprintf("%s builds a constant reference without testing that the referred object is an enum: `kind: #Name & \"fixed\"` with `#Name: string` becomes a reference to a member that does not exist — the Go constructor loses the constant, Python emits `unknown`", ctx.FuncName(fobj)))
				return true
			})
		}
	}
	r.Count("constant references built by the CUE front-end", n)
	r.Floor("constant references built by the CUE front-end", 1)
}

// c10OpenAPITypedDefaults: kin-openapi decodes every JSON number as a float64. Every default (and enum value) the
// OpenAPI front-end copies into the IR has to go through typedValue, which gives it the type the schema declares;
// otherwise an integer default reaches the jennies as a float (`1e+06` in Python, where Go has an int64).
func c10OpenAPITypedDefaults(ctx *Ctx, r *Report) {
	p := ctx.Pkg("internal/openapi")
	san := ctx.LookupFunc("internal/openapi", "typedValue")
	if p == nil || san == nil {
		r.Undecided("anchor lost: openapi.typedValue")
		return
	}
	info := p.TypesInfo
	n := 0
	for _, file := range p.Syntax {
		for _, d := range file.Decls {
			fd, ok := d.(*ast.FuncDecl)
			if !ok || fd.Body == nil || fd.Name.Name == "typedValue" {
				continue
			}
			if fd.Name.Name == "walkBoolean" || fd.Name.Name == "walkString" {
				continue // their defaults are booleans / strings: no number to re-type
			}
			parents := parentMap(fd)
			// values ranged out of schema.Enum
			enumVals := map[types.Object]bool{}
			ast.Inspect(fd.Body, func(m ast.Node) bool {
				if rs, ok := m.(*ast.RangeStmt); ok && strings.HasSuffix(exprString(rs.X), ".Enum") {
					if id, ok := rs.Value.(*ast.Ident); ok {
						enumVals[info.Defs[id]] = true
					}
				}
				return true
			})
			ast.Inspect(fd.Body, func(m ast.Node) bool {
				var e ast.Expr
				switch x := m.(type) {
				case *ast.SelectorExpr:
					f := fieldOf(info, x)
					if f == nil || f.Name() != "Default" || f.Pkg() == nil || !strings.Contains(f.Pkg().Path(), "kin-openapi") {
						return true
					}
					e = x
				case *ast.KeyValueExpr:
					if k, ok := x.Key.(*ast.Ident); ok && k.Name == "Value" {
						if id, ok := ast.Unparen(x.Value).(*ast.Ident); ok && enumVals[objOf(info, id)] {
							n++
							r.Bad("frontier/openapi-typed-default", fmt.Sprintf("openapi.%s enum member value", fd.Name.Name), x.Pos(), "an enum member takes its value from the library as it is (a float64 for every number): it must go through typedValue")
						}
					}
					return true
				default:
					return true
				}
				// a test for presence (`schema.Default != nil`) copies nothing into the IR
				if be, ok := parents[e].(*ast.BinaryExpr); ok && (be.Op == token.NEQ || be.Op == token.EQL) && (exprString(be.X) == "nil" || exprString(be.Y) == "nil") {
					return true
				}
				n++
				through := false
				if c, ok := parents[e].(*ast.CallExpr); ok && callee(info, c) == san {
					through = true
				}
				r.Check(through, "frontier/openapi-typed-default", fmt.Sprintf("openapi.%s reads %s #%d", fd.Name.Name, exprString(e), n), e.Pos(), "through typedValue",
					fmt.Sprintf("openapi.%s copies %s into the IR as kin-openapi decoded it: every number is a float64 there — an integer default of 1000000 is printed `1e+06` by the Python jenny and the two SDKs no longer agree", fd.Name.Name, exprString(e)))
				return true
			})
		}
	}
	r.Count("defaults and enum values read by the OpenAPI front-end", n)
	r.Floor("defaults and enum values read by the OpenAPI front-end", 5)
}

// c10GoNestedOverrideRecurses: a struct default that overrides a field which is itself a struct (`mid: #Mid | *{inner:
// {a: "y"}}`) carries, for that field, a map of overrides. The branch of defaultsForStructRec that handles overrides
// must recurse into the nested struct for such a value (as its sibling for `field.Type.Default` does); printing the map
// with the scalar formatter yields `Inner: map[string]interface {}{"a":"y"}`, which does not compile.
func c10GoNestedOverrideRecurses(ctx *Ctx, r *Report) {
	fn := ctx.LookupMethod("internal/jennies/golang", "RawTypes", "defaultsForStructRec")
	fd, p := ctx.DeclOf(fn)
	if fd == nil {
		r.Undecided("anchor lost: golang.RawTypes.defaultsForStructRec")
		return
	}
	info := p.TypesInfo
	n := 0
	// the override branch: `if v, ok := extraDefaults[name]; ok {` or `v, ok := extraDefaults[name]; …; if ok {`
	found := map[types.Object]bool{}
	ast.Inspect(fd.Body, func(m ast.Node) bool {
		if as, ok := m.(*ast.AssignStmt); ok && len(as.Lhs) == 2 && len(as.Rhs) == 1 && strings.Contains(exprString(as.Rhs[0]), "extraDefaults[") {
			if id, ok := as.Lhs[1].(*ast.Ident); ok {
				if o := objOf(info, id); o != nil {
					found[o] = true
				}
			}
		}
		return true
	})
	ast.Inspect(fd.Body, func(m ast.Node) bool {
		is, ok := m.(*ast.IfStmt)
		if !ok {
			return true
		}
		id, ok := ast.Unparen(is.Cond).(*ast.Ident)
		if !ok || !found[objOf(info, id)] {
			return true
		}
		n++
		recurses := false
		ast.Inspect(is.Body, func(q ast.Node) bool {
			if c, ok := q.(*ast.CallExpr); ok && callee(info, c) == fn {
				recurses = true
			}
			return true
		})
		r.Check(recurses, "kinds/go-nested-override-recurses", "golang.defaultsForStructRec override branch", is.Pos(), "an override that is a set of field overrides for a nested struct is expanded recursively",
			"the override branch of defaultsForStructRec never recurses: an override of a struct-typed field is printed with the scalar formatter — `Inner: map[string]interface {}{\"a\":\"y\"}` — and the generated package does not compile (Python renders the same default correctly)")
		return true
	})
	r.Count("override branches of golang.defaultsForStructRec", n)
	r.Floor("override branches of golang.defaultsForStructRec", 1)
	// the same for the function that formats one value of a default (the items of a list, the values of a map): an
	// object given for a reference to a struct needs a case of its own
	if vfd, _ := ctx.DeclOf(ctx.LookupMethod("internal/jennies/golang", "RawTypes", "formatDefaultValue")); vfd == nil {
		r.Undecided("anchor lost: golang.RawTypes.formatDefaultValue")
	} else {
		structCase := false
		for _, st := range vfd.Body.List {
			if is, ok := st.(*ast.IfStmt); ok && strings.Contains(exprString(is.Cond), "IsStruct()") && endsInExit(is.Body) {
				structCase = true
			}
		}
		r.Check(structCase, "kinds/go-nested-override-recurses", "golang.formatDefaultValue struct items", vfd.Pos(), "an object given for a reference to a struct is written as that struct",
			"formatDefaultValue has no case for an object given where the type resolves to a struct: `items: [...#Inner] | *[{a: \"y\", b: 2}]` gives `Items: []Inner{map[string]interface{}{\"a\": \"y\", \"b\": 2}}` — cannot use map[string]interface{}{…} as Inner value, the package does not compile")
	}
}

// c10GoDateTimeDefaults: the Go type formatter declares a string carrying the date-time hint as time.Time; the
// schema gives its default as a string. The function that formats the defaults of the Go constructor tests that hint
// (and produces a time value): otherwise the constructor assigns a string literal to a time.Time field and the
// package does not compile.
func c10GoDateTimeDefaults(ctx *Ctx, r *Report) {
	p := ctx.Pkg("internal/jennies/golang")
	if p == nil {
		r.Undecided("anchor lost: internal/jennies/golang")
		return
	}
	info := p.TypesInfo
	// does the type formatter map the hint to time.Time at all?
	maps := false
	for _, f := range p.Syntax {
		ast.Inspect(f, func(n ast.Node) bool {
			if c, ok := n.(*ast.CallExpr); ok {
				if fn := callee(info, c); fn != nil && fn.Name() == "HasHint" && len(c.Args) == 1 && strings.HasSuffix(exprString(c.Args[0]), "HintStringFormatDateTime") {
					if fd := enclosingFuncDecl(p, c.Pos()); fd != nil && strings.Contains(strings.ToLower(fd.Name.Name), "formattype") {
						maps = true
					}
				}
			}
			return true
		})
	}
	if !maps {
		r.OK("kinds/go-datetime-default", "golang default formatter knows date-time", token.NoPos, "the Go type formatter does not map the date-time hint to another type: nothing to agree with")
		return
	}
	fn := ctx.LookupMethod("internal/jennies/golang", "RawTypes", "formatDefaultValue")
	fd, _ := ctx.DeclOf(fn)
	if fd == nil || fd.Body == nil {
		r.Undecided("anchor lost: golang.RawTypes.formatDefaultValue")
		return
	}
	tests := false
	ast.Inspect(fd.Body, func(n ast.Node) bool {
		if c, ok := n.(*ast.CallExpr); ok {
			if f := callee(info, c); f != nil && f.Name() == "HasHint" && len(c.Args) == 1 && strings.HasSuffix(exprString(c.Args[0]), "HintStringFormatDateTime") {
				tests = true
			}
		}
		return true
	})
	r.Check(tests, "kinds/go-datetime-default", "golang default formatter knows date-time", fd.Pos(), "formatDefaultValue tests the date-time hint",
		"the Go type formatter declares date-time strings as time.Time but formatDefaultValue prints every scalar default with formatScalar: `At: \"2020-01-02T03:04:05Z\"` on a time.Time field — the generated package does not compile, NewRoot() does not exist, while Python yields the default")
}

func enclosingFuncDecl(p *packages.Package, pos token.Pos) *ast.FuncDecl {
	for _, f := range p.Syntax {
		if f.FileStart <= pos && pos <= f.FileEnd {
			for _, d := range f.Decls {
				if fd, ok := d.(*ast.FuncDecl); ok && fd.Pos() <= pos && pos <= fd.End() {
					return fd
				}
			}
		}
	}
	return nil
}

// c10OverrideReplacesFieldDefault: a struct default gives values for some fields of the referred struct
// (`inner: #Inner | *{e: "b"}`). For an overridden field that is itself typed by a reference the python and php
// jennies recurse into the field's type; an override that is not an object (an enum member, a scalar alias) has to
// travel with that recursion as the default of the type, or the value is recomputed from the field's own default.
// In defaultValueForTypeRec of both languages, the closure over the overrides assigns the override to the Default of
// the type it recurses on.
func c10OverrideReplacesFieldDefault(ctx *Ctx, r *Report) {
	n := 0
	for _, lang := range []string{"python", "php"} {
		fn := ctx.LookupFunc("internal/jennies/"+lang, "defaultValueForTypeRec")
		fd, p := ctx.DeclOf(fn)
		if fd == nil || fd.Body == nil {
			r.Undecided("anchor lost: %s.defaultValueForTypeRec", lang)
			continue
		}
		info := p.TypesInfo
		// closures passed to Iterate over the overrides
		ast.Inspect(fd.Body, func(m ast.Node) bool {
			c, ok := m.(*ast.CallExpr)
			if !ok || len(c.Args) != 1 {
				return true
			}
			sel, ok := ast.Unparen(c.Fun).(*ast.SelectorExpr)
			if !ok || sel.Sel.Name != "Iterate" {
				return true
			}
			lit, ok := c.Args[0].(*ast.FuncLit)
			if !ok || lit.Type.Params.NumFields() < 1 {
				return true
			}
			// the value parameter of the callback
			var valueParam types.Object
			for _, f := range lit.Type.Params.List {
				for _, nm := range f.Names {
					valueParam = info.Defs[nm]
				}
			}
			recurses := false
			ast.Inspect(lit.Body, func(q ast.Node) bool {
				if rc, ok := q.(*ast.CallExpr); ok {
					if f := callee(info, rc); f != nil && strings.HasPrefix(f.Name(), "defaultValueForType") {
						recurses = true
					}
				}
				return true
			})
			if !recurses {
				return true
			}
			n++
			carried := false
			ast.Inspect(lit.Body, func(q ast.Node) bool {
				as, ok := q.(*ast.AssignStmt)
				if !ok || len(as.Lhs) != 1 || len(as.Rhs) != 1 {
					return true
				}
				if s, ok := ast.Unparen(as.Lhs[0]).(*ast.SelectorExpr); ok && s.Sel.Name == "Default" && isIdentOf(info, as.Rhs[0], valueParam) {
					carried = true
				}
				return true
			})
			r.Check(carried, "traverse/override-replaces-field-default", lang+".defaultValueForTypeRec carries a non-object override into the recursion", lit.Pos(),
				"the override is assigned to the Default of the type the recursion is given",
				lang+".defaultValueForTypeRec recurses on the type of an overridden, reference-typed field without the override: `inner: #Inner | *{e: \"b\"}` with `e: #E` gives Inner(e=E.A) — the field's own default or the first member — while Go writes \"b\"")
			return true
		})
	}
	r.Count("override loops recursing into reference-typed fields", n)
	r.Floor("override loops recursing into reference-typed fields", 2)
}

// c10PointerHintFromFieldType: maybeValueAsPointer(value, nullable, T) writes `(func(input T) *T {…})(value)` when
// `nullable` holds. The pointer-ness comes from the declared type of the field (`field.Type.Nullable`), so T has to be
// that same type: with the *resolved* type the helper yields a *int64 for a field declared *Age, and `*unknown` for a
// named enum. Every call whose second argument is `X.Nullable` passes X itself as the third.
func c10PointerHintFromFieldType(ctx *Ctx, r *Report) {
	fn := ctx.LookupMethod("internal/jennies/golang", "RawTypes", "maybeValueAsPointer")
	p := ctx.Pkg("internal/jennies/golang")
	if fn == nil || p == nil {
		r.Undecided("anchor lost: golang.RawTypes.maybeValueAsPointer")
		return
	}
	info := p.TypesInfo
	n := 0
	for _, file := range p.Syntax {
		var fname string
		ast.Inspect(file, func(m ast.Node) bool {
			if d, ok := m.(*ast.FuncDecl); ok {
				fname = d.Name.Name
			}
			c, ok := m.(*ast.CallExpr)
			if !ok || callee(info, c) != fn || len(c.Args) != 3 {
				return true
			}
			sel, ok := ast.Unparen(c.Args[1]).(*ast.SelectorExpr)
			if !ok || sel.Sel.Name != "Nullable" {
				return true
			}
			n++
			r.Check(sameAccessPath(info, sel.X, c.Args[2]), "siblings/pointer-hint-from-field-type", fmt.Sprintf("golang.%s pointer helper #%d", fname, n), c.Pos(), "typed after the type whose nullability decides the pointer",
				fmt.Sprintf("the pointer helper is written when %s holds but typed after %s: for an optional field typed by a named scalar the generated constructor holds a *int64 where the field is a *Age (and *unknown for a named enum) — the package does not compile", exprString(c.Args[1]), exprString(c.Args[2])))
			return true
		})
	}
	r.Count("pointer helpers written for defaults by the Go jenny", n)
	r.Floor("pointer helpers written for defaults by the Go jenny", 3)
}

// c10ThirdHunt — (a) Python: a reference can carry a default of its own (`name: {$ref: Name, default: bob}`); for a
// referred scalar, list or map the reference case of defaultValueForTypeRec has to return it instead of instantiating
// the alias (`Name()` is the zero value of the aliased type). (b) Go: the items of a default list are literals of the
// list's item type: formatDefaultValue formats items that are lists by calling itself with that type — formatScalar
// writes `[]string{…}` for every list.
func c10ThirdHunt(ctx *Ctx, r *Report) {
	if fn := ctx.LookupFunc("internal/jennies/python", "defaultValueForTypeRec"); fn == nil {
		r.Undecided("anchor lost: python.defaultValueForTypeRec")
	} else if fd, p := ctx.DeclOf(fn); fd != nil {
		info := p.TypesInfo
		returnsDefault := false
		ast.Inspect(fd.Body, func(m ast.Node) bool {
			cc, ok := m.(*ast.CaseClause)
			if !ok {
				return true
			}
			isRef := false
			for _, e := range cc.List {
				if strings.HasSuffix(exprString(e), "KindRef") {
					isRef = true
				}
			}
			if !isRef {
				return true
			}
			ast.Inspect(cc, func(q ast.Node) bool {
				rs, ok := q.(*ast.ReturnStmt)
				if !ok || len(rs.Results) != 1 {
					return true
				}
				if sel, ok := ast.Unparen(rs.Results[0]).(*ast.SelectorExpr); ok && sel.Sel.Name == "Default" {
					if f := fieldOf(info, sel); f != nil && f.Pkg() != nil && f.Pkg().Path() == astPkgPath {
						returnsDefault = true
					}
				}
				return true
			})
			return false
		})
		r.Count("hunted clauses of the defaults rules (3rd hunt)", 1)
		r.Check(returnsDefault, "frontier/python-default-on-reference", "python.defaultValueForTypeRec returns the default a reference carries", fd.Pos(), "the reference case can answer with typeDef.Default",
			"in the reference case the default carried by the reference is only used for enums, aliases and structs: `name: {$ref: Name, default: bob}` with Name a string is initialised with Name() — \"\" — where Go writes bob")
	}
	if fn := ctx.LookupMethod("internal/jennies/golang", "RawTypes", "formatDefaultValue"); fn == nil {
		r.Undecided("anchor lost: golang.RawTypes.formatDefaultValue")
	} else if fd, p := ctx.DeclOf(fn); fd != nil {
		recursive := false
		info := p.TypesInfo
		// the type handed to the recursive call is the item type of the list (the function also recurses for the values of
		// a map: that call says nothing about lists)
		defs := map[types.Object]ast.Expr{}
		ast.Inspect(fd.Body, func(m ast.Node) bool {
			if as, ok := m.(*ast.AssignStmt); ok && as.Tok == token.DEFINE && len(as.Lhs) == len(as.Rhs) {
				for i, l := range as.Lhs {
					if id, ok := l.(*ast.Ident); ok {
						defs[info.Defs[id]] = as.Rhs[i]
					}
				}
			}
			return true
		})
		ast.Inspect(fd.Body, func(m ast.Node) bool {
			if c, ok := m.(*ast.CallExpr); ok && callee(info, c) == fn && len(c.Args) > 0 {
				text := exprString(c.Args[0])
				if id, ok := ast.Unparen(c.Args[0]).(*ast.Ident); ok {
					if d, ok := defs[objOf(info, id)]; ok {
						text = exprString(d)
					}
				}
				if strings.Contains(text, "AsArray()") || strings.Contains(text, ".Array.") {
					recursive = true
				}
			}
			return true
		})
		r.Count("hunted clauses of the defaults rules (3rd hunt)", 1)
		r.Check(recursive, "kinds/go-nested-list-default", "golang.formatDefaultValue formats nested lists with their own item type", fd.Pos(), "items that are lists go back through formatDefaultValue",
			"the items of a default list are all formatted by formatScalar, whose list branch writes []string{…} whatever the type: `matrix: [...[...int64]] | *[[1, 2], [3]]` gives [][]int64{[]string{1, 2}, []string{3}}, which does not compile")
	}
}

// c10CueEmptyCollectionDefault: an empty list (or struct) is a value: `tags: [...string] | *[]` declares a default.
// cueConcreteToScalar, which turns a concrete CUE value into the Go value kept as Default, must not answer nil — "no
// default" — for it: the case clauses for the list and struct kinds have no `return nil, nil`.
func c10CueEmptyCollectionDefault(ctx *Ctx, r *Report) {
	fn := ctx.LookupFunc("internal/simplecue", "cueConcreteToScalar")
	fd, _ := ctx.DeclOf(fn)
	if fd == nil || fd.Body == nil {
		r.Undecided("anchor lost: simplecue.cueConcreteToScalar")
		return
	}
	if sp := ctx.Pkg("internal/simplecue"); sp != nil {
		fd = followDelegation(ctx, sp.TypesInfo, fd)
	}
	n := 0
	ast.Inspect(fd.Body, func(m ast.Node) bool {
		cc, ok := m.(*ast.CaseClause)
		if !ok {
			return true
		}
		kind := ""
		for _, e := range cc.List {
			switch {
			case strings.HasSuffix(exprString(e), "ListKind"):
				kind = "list"
			case strings.HasSuffix(exprString(e), "StructKind"):
				kind = "struct"
			}
		}
		if kind == "" {
			return true
		}
		n++
		var nilReturn token.Pos
		ast.Inspect(cc, func(q ast.Node) bool {
			if rs, ok := q.(*ast.ReturnStmt); ok && len(rs.Results) == 2 && exprString(rs.Results[0]) == "nil" && exprString(rs.Results[1]) == "nil" && nilReturn == token.NoPos {
				nilReturn = rs.Pos()
			}
			return true
		})
		at := cc.Pos()
		if nilReturn != token.NoPos {
			at = nilReturn
		}
		r.Check(nilReturn == token.NoPos, "frontier/cue-empty-collection-default", "simplecue.cueConcreteToScalar keeps an empty "+kind, at, "an empty "+kind+" is returned as a value",
			"cueConcreteToScalar answers nil — no value — for an empty "+kind+": `tags: [...string] | *[]` has no default in the IR, the strict Go decoder then demands the field (`tags: required field is missing from input`) and the constructors leave it unset")
		return false
	})
	r.Count("collection kinds turned into Go values by the CUE front-end", n)
	r.Floor("collection kinds turned into Go values by the CUE front-end", 2)
}

// followDelegation: a function whose body is `return g(…)`, g a function of the same package, only delegates; the rules
// anchored on it look at g.
func followDelegation(ctx *Ctx, info *types.Info, fd *ast.FuncDecl) *ast.FuncDecl {
	for i := 0; i < 4; i++ {
		if fd.Body == nil || len(fd.Body.List) != 1 {
			return fd
		}
		rs, ok := fd.Body.List[0].(*ast.ReturnStmt)
		if !ok || len(rs.Results) != 1 {
			return fd
		}
		c, ok := ast.Unparen(rs.Results[0]).(*ast.CallExpr)
		if !ok {
			return fd
		}
		f := callee(info, c)
		if f == nil {
			return fd
		}
		next, _ := ctx.DeclOf(f)
		if next == nil || next.Body == nil || next == fd {
			return fd
		}
		fd = next
	}
	return fd
}

// c10FourthHunt: (a) Go writes the default of a map as a literal of the map's own type: formatDefaultValue has a branch
// that recognises a map value for a map type and goes through the type formatter (`%#v` of a map[string]any is
// `map[string]interface {}{…}`, which no typed map field accepts); (b) Python: when a struct default names the fields of
// the struct, those that are constants are not handed to the constructor — it sets them itself and has no such argument.
func c10FourthHunt(ctx *Ctx, r *Report) {
	n := 0
	if fn := ctx.LookupMethod("internal/jennies/golang", "RawTypes", "formatDefaultValue"); fn == nil {
		r.Undecided("anchor lost: golang.RawTypes.formatDefaultValue")
	} else if fd, p := ctx.DeclOf(fn); fd != nil {
		info := p.TypesInfo
		typed := false
		ast.Inspect(fd.Body, func(m ast.Node) bool {
			is, ok := m.(*ast.IfStmt)
			if !ok {
				return true
			}
			asMap := false
			check := func(e ast.Node) {
				ast.Inspect(e, func(k ast.Node) bool {
					if ta, ok := k.(*ast.TypeAssertExpr); ok && ta.Type != nil {
						if _, isMap := info.TypeOf(ta.Type).Underlying().(*types.Map); isMap {
							asMap = true
						}
					}
					return true
				})
			}
			if is.Init != nil {
				check(is.Init)
			}
			check(is.Cond)
			if !asMap || !strings.Contains(exprString(is.Cond), "IsMap()") {
				return true
			}
			ast.Inspect(is.Body, func(k ast.Node) bool {
				if c, ok := k.(*ast.CallExpr); ok {
					if f := callee(info, c); f != nil && f.Name() == "formatType" {
						typed = true
					}
				}
				return true
			})
			return true
		})
		n++
		r.Check(typed, "kinds/go-map-default-typed", "golang.RawTypes.formatDefaultValue writes map defaults", fd.Pos(), "a map value for a map type is written as a literal of the type the formatter gives",
			"formatDefaultValue hands a map default to formatScalar: `labels: {additionalProperties: {type: string}, default: {env: prod}}` is written `Labels: map[string]interface {}{\"env\":\"prod\"}` into a map[string]string — the package does not compile")
	}
	if fn := ctx.LookupFunc("internal/jennies/python", "defaultValueForTypeRec"); fn == nil {
		r.Undecided("anchor lost: python.defaultValueForTypeRec")
	} else if fd, p := ctx.DeclOf(fn); fd != nil {
		info := p.TypesInfo
		skips := false
		found := false
		ast.Inspect(fd.Body, func(m ast.Node) bool {
			c, ok := m.(*ast.CallExpr)
			if !ok || len(c.Args) != 1 {
				return true
			}
			sel, ok := c.Fun.(*ast.SelectorExpr)
			if !ok || sel.Sel.Name != "Iterate" {
				return true
			}
			lit, ok := c.Args[0].(*ast.FuncLit)
			if !ok {
				return true
			}
			_ = info
			found = true
			for _, st := range lit.Body.List {
				is, ok := st.(*ast.IfStmt)
				if !ok || !endsInExit(is.Body) {
					continue
				}
				cond := exprString(is.Cond)
				if strings.Contains(cond, "IsConcreteScalar()") && strings.Contains(cond, "IsConstantRef()") && !strings.Contains(cond, "&&") {
					skips = true
				}
			}
			return true
		})
		if !found {
			r.Undecided("anchor changed: python.defaultValueForTypeRec no longer iterates over the overrides of a struct default")
		} else {
			n++
			r.Check(skips, "frontier/python-default-skips-constants", "python.defaultValueForTypeRec skips the constants named by a struct default", fd.Pos(), "fields that are constants are not turned into constructor arguments",
				"defaultValueForTypeRec turns every key of a struct default into a keyword argument: `inner: #Inner | *{kind: \"k\", a: \"y\"}` where Inner.kind is the constant \"k\" gives Inner(a=\"y\", kind=\"k\") and Inner.__init__ has no kind parameter — Demo() raises TypeError")
		}
	}
	r.Count("hunted clauses of defaults (4th hunt)", n)
	r.Floor("hunted clauses of defaults (4th hunt)", 2)
}

// c10FifthHunt — fifth hunt:
//   - Go: formatScalar prints a list whose item type nothing declares (the default of an untyped field). It can not
//     assume strings: its list branch has a path that writes a list of `any`;
//   - OpenAPI: every float64 → int64 conversion of the front-end tests the int64 range (shared with C09);
//   - (finding) kin-openapi hands every number over as a float64: an integer default beyond 2^53 is rounded before cog
//     sees it. typedValue would need the digits of the document (a json.Number case, as the JSON Schema front-end has).
func c10FifthHunt(ctx *Ctx, r *Report) {
	n := 0
	// (a)
	if fn := ctx.LookupFunc("internal/jennies/golang", "formatScalar"); fn == nil {
		r.Undecided("anchor lost: golang.formatScalar")
	} else if fd, p := ctx.DeclOf(fn); fd != nil {
		info := p.TypesInfo
		lists := 0
		ast.Inspect(fd.Body, func(m ast.Node) bool {
			is, ok := m.(*ast.IfStmt)
			if !ok || is.Init == nil {
				return true
			}
			// `if list, ok := val.([]any); ok {`
			as, ok := is.Init.(*ast.AssignStmt)
			if !ok || len(as.Rhs) != 1 {
				return true
			}
			ta, ok := ast.Unparen(as.Rhs[0]).(*ast.TypeAssertExpr)
			if !ok || ta.Type == nil {
				return true
			}
			if _, isSlice := info.TypeOf(ta.Type).Underlying().(*types.Slice); !isSlice {
				return true
			}
			lists++
			var formats []string
			ast.Inspect(is.Body, func(k ast.Node) bool {
				if rs, ok := k.(*ast.ReturnStmt); ok && len(rs.Results) == 1 {
					if c, ok := ast.Unparen(rs.Results[0]).(*ast.CallExpr); ok && len(c.Args) > 0 {
						if tv, ok := info.Types[c.Args[0]]; ok && tv.Value != nil && tv.Value.Kind() == constant.String {
							formats = append(formats, constant.StringVal(tv.Value))
						}
					}
				}
				return true
			})
			anyList := false
			for _, f := range formats {
				if strings.HasPrefix(f, "[]any{") || strings.HasPrefix(f, "[]interface{}{") || strings.HasPrefix(f, "[]interface {}{") {
					anyList = true
				}
			}
			n++
			r.Check(anyList, "kinds/go-untyped-list-default", "golang.formatScalar writes a list of undeclared item type", is.Pos(), "one of its paths writes a list of any",
				fmt.Sprintf("formatScalar writes every list as %v: `value: _ | *[1, 2]` (or \"value\": {\"default\": [1, 2]}) gives `Value: []string{1, 2}` in NewRoot() — cannot use 1 as string value, the package does not compile, while Python yields [1, 2]", formats))
			return true
		})
		if lists == 0 {
			r.Undecided("anchor changed: golang.formatScalar has no list branch")
		}
	}
	// (b)
	n += c09OpenAPIIntegerConversions(ctx, r)
	// (c)
	if fn := ctx.LookupFunc("internal/openapi", "typedValue"); fn == nil {
		r.Undecided("anchor lost: openapi.typedValue")
	} else if fd, p := ctx.DeclOf(fn); fd != nil {
		info := p.TypesInfo
		exact := false
		ast.Inspect(fd.Body, func(m ast.Node) bool {
			cc, ok := m.(*ast.CaseClause)
			if !ok {
				return true
			}
			for _, e := range cc.List {
				if t := info.TypeOf(e); t != nil && (namedName(t) == "Number" || strings.HasSuffix(t.String(), "big.Int") || strings.HasSuffix(t.String(), "big.Rat")) {
					exact = true
				}
			}
			return true
		})
		n++
		r.Check(exact, "frontier/openapi-integers-read-exactly", "openapi.typedValue reads the numbers of defaults and enum values", fd.Pos(), "from the digits of the document (json.Number / big)",
			"typedValue only knows the float64 kin-openapi decoded: `type: integer, format: int64, default: 9007199254740993` reaches cog as 9007199254740992 — NewRoot() and Root() agree on a value that is not the declared default, while the CUE and JSON Schema inputs give the exact one")
	}
	r.Count("hunted clauses of the defaults (5th hunt)", n)
	r.Floor("hunted clauses of the defaults (5th hunt)", 3)
}

// c10SixthHunt — a lead followed while repairing C16 (Java literals): java.formatType, which writes the defaults of
// scalar fields, gives floats a fixed number of decimals — the default the generated class sets is not the one the
// schema gives. (finding: a golden file holds the rounded value.)
func c10SixthHunt(ctx *Ctx, r *Report) {
	fn := ctx.LookupFunc("internal/jennies/java", "formatType")
	fd, p := ctx.DeclOf(fn)
	if fd == nil {
		r.Undecided("anchor lost: java.formatType")
		return
	}
	info := p.TypesInfo
	fixed := regexp.MustCompile(`%\.[0-9]+f`)
	var rounded []string
	ast.Inspect(fd.Body, func(m ast.Node) bool {
		if e, ok := m.(ast.Expr); ok {
			if tv, ok := info.Types[e]; ok && tv.Value != nil && tv.Value.Kind() == constant.String && fixed.MatchString(constant.StringVal(tv.Value)) {
				rounded = append(rounded, constant.StringVal(tv.Value))
			}
		}
		return true
	})
	r.Count("hunted clauses of the default rules (6th hunt)", 1)
	r.Check(len(rounded) == 0, "kinds/java-float-literals-exact", "java.formatType writes a float default", fd.Pos(), "with every digit of the value",
		fmt.Sprintf("java.formatType writes floats with a fixed number of decimals (%v): `ratio: float64 | *2.75` gives `this.ratio = 2.8;`, `small: float32 | *0.125` gives `this.small = 0.1f;` — the object built with no option set does not hold the default of the schema", rounded))
}

// c10SeventhHunt — sixth hunt of C10:
//   - Go names the branch of a union wrapper that holds an overriding default after the Go type of the decoded value
//     (an integer is always an int64): before falling back on a branch that does not exist, defaultsForStructRec looks
//     the value up among the branches the union declares (a helper that ranges over the fields and reads their scalar
//     kind);
//   - Python: the branch of defaultValueForTypeRec that follows a reference to a named union reads the default the
//     reference carries, as its sibling branches (alias, named scalar, enum) do;
//   - CUE: the default of a disjunction is a *value*: subsumption is asked on final values, and the single branch a
//     default leaves behind keeps the default.
func c10SeventhHunt(ctx *Ctx, r *Report) {
	n := 0
	// (a)
	if fn := ctx.LookupMethod("internal/jennies/golang", "RawTypes", "defaultsForStructRec"); fn == nil {
		r.Undecided("anchor lost: golang.RawTypes.defaultsForStructRec")
	} else if fd, p := ctx.DeclOf(fn); fd != nil {
		info := p.TypesInfo
		looksUp := false
		ast.Inspect(fd.Body, func(m ast.Node) bool {
			is, ok := m.(*ast.IfStmt)
			if !ok || !strings.Contains(exprString(is.Cond), "IsStructGeneratedFromDisjunction()") {
				return true
			}
			ast.Inspect(is.Body, func(q ast.Node) bool {
				c, ok := q.(*ast.CallExpr)
				if !ok {
					return true
				}
				f := callee(info, c)
				if f == nil || f.Pkg() != p.Types {
					return true
				}
				gd, _ := ctx.DeclOf(f)
				if gd == nil || gd.Body == nil {
					return true
				}
				ranges, kinds := false, false
				ast.Inspect(gd.Body, func(z ast.Node) bool {
					switch x := z.(type) {
					case *ast.RangeStmt:
						if strings.HasSuffix(exprString(x.X), ".Fields") {
							ranges = true
						}
					case *ast.SelectorExpr:
						if x.Sel.Name == "ScalarKind" {
							kinds = true
						}
					}
					return true
				})
				if ranges && kinds {
					looksUp = true
				}
				return true
			})
			return true
		})
		n++
		r.Check(looksUp, "kinds/go-union-default-branch-declared", "golang.defaultsForStructRec picks the branch of a union for an overriding default", fd.Pos(), "among the branches the union declares, by their scalar kind",
			"the branch is named after the Go type of the decoded value and nothing else is tried: `#Inner: {ratio: string | float64, size: string | int32}; Root: {inner: #Inner | *{ratio: 2, size: 5}}` writes `StringOrFloat64{Any: (func (input unknown) *unknown …)(2)}` — unknown field Any, undefined: unknown; Python yields {\"ratio\":2,\"size\":5}")
	}
	// (b)
	if fn := ctx.LookupFunc("internal/jennies/python", "defaultValueForTypeRec"); fn == nil {
		r.Undecided("anchor lost: python.defaultValueForTypeRec")
	} else if fd, p := ctx.DeclOf(fn); fd != nil {
		info := p.TypesInfo
		var param types.Object
		for _, f := range fd.Type.Params.List {
			for _, name := range f.Names {
				if namedName(info.TypeOf(f.Type)) == "Type" && param == nil {
					param = info.Defs[name]
				}
			}
		}
		seen, reads := false, false
		ast.Inspect(fd.Body, func(m ast.Node) bool {
			is, ok := m.(*ast.IfStmt)
			if !ok || !strings.Contains(exprString(is.Cond), "referredObj.Type.IsDisjunction()") {
				return true
			}
			seen = true
			ast.Inspect(is.Body, func(q ast.Node) bool {
				if sel, ok := q.(*ast.SelectorExpr); ok && sel.Sel.Name == "Default" {
					if id, ok := ast.Unparen(sel.X).(*ast.Ident); ok && info.Uses[id] == param {
						reads = true
					}
				}
				return true
			})
			return true
		})
		if !seen {
			r.Undecided("anchor changed: python.defaultValueForTypeRec has no branch for references to named unions")
		}
		n++
		r.Check(reads, "traverse/python-union-reference-default", "python.defaultValueForTypeRec follows a reference to a named union", fd.Pos(), "the default the reference carries is read",
			"the branch that follows a reference to a named union ignores the default of the reference: `#U: string | int64; u: #U | *\"abc\"` (or `{\"$ref\": \"#/$defs/U\", \"default\": \"abc\"}`) gives u=\"\" in Python and \"abc\" in Go")
	}
	// (c)
	if p := ctx.Pkg("internal/simplecue"); p == nil {
		r.Undecided("anchor lost: internal/simplecue")
	} else {
		info := p.TypesInfo
		if fd := c12Method(p, "subsumedByAnotherBranch"); fd == nil {
			r.Undecided("anchor lost: simplecue.generator.subsumedByAnotherBranch")
		} else {
			final := false
			ast.Inspect(fd.Body, func(m ast.Node) bool {
				if c, ok := m.(*ast.CallExpr); ok {
					if f := callee(info, c); f != nil && f.Name() == "Subsume" {
						for _, a := range c.Args[1:] {
							if ac, ok := ast.Unparen(a).(*ast.CallExpr); ok {
								if af := callee(info, ac); af != nil && af.Name() == "Final" {
									final = true
								}
							}
						}
					}
				}
				return true
			})
			n++
			r.Check(final, "frontier/cue-default-is-a-final-value", "simplecue.subsumedByAnotherBranch asks whether a branch allows the default", fd.Pos(), "on final values (cue.Final())",
				"the default of a disjunction is compared with the other branches as a type: a concrete struct is not subsumed by a pattern constraint unless the values are final, so `{[string]: string} | *{env: \"prod\"}` keeps its default as a branch — the field is typed map | struct{env: \"prod\"}, Go builds {\"labels\":{}} and Python {\"labels\":{\"env\":\"prod\"}}")
		}
		if fd := c12Method(p, "declareDisjunction"); fd == nil {
			r.Undecided("anchor lost: simplecue.generator.declareDisjunction")
		} else {
			carried, seen := false, false
			ast.Inspect(fd.Body, func(m ast.Node) bool {
				is, ok := m.(*ast.IfStmt)
				if !ok || !strings.Contains(exprString(is.Cond), "len(disjunctionBranches) == 1") {
					return true
				}
				seen = true
				ast.Inspect(is.Body, func(q ast.Node) bool {
					if as, ok := q.(*ast.AssignStmt); ok {
						for _, l := range as.Lhs {
							if sel, ok := ast.Unparen(l).(*ast.SelectorExpr); ok && sel.Sel.Name == "Default" {
								carried = true
							}
						}
					}
					return true
				})
				return true
			})
			if !seen {
				r.Undecided("anchor changed: declareDisjunction has no single-branch exit")
			}
			n++
			r.Check(carried, "frontier/cue-default-is-a-final-value", "simplecue.declareDisjunction returns the single branch a default leaves", fd.Pos(), "with the default",
				"when the default is one of the values of the only other branch, that branch is declared on its own and the default is dropped: `{[string]: string} | *{env: \"prod\"}` becomes a map without default")
		}
	}
	r.Count("hunted clauses of the default rules (7th hunt)", n)
	r.Floor("hunted clauses of the default rules (7th hunt)", 4)
}

// c10EighthHunt — leads of the sixth hunt (Go defaults the scalar formatter can not write):
//   - the items of a default list are written by the function that formats the default of a field of the item type
//     (date-time items are time values, not strings);
//   - a bytes field is declared `[]byte`, optional or not: its default — base64 text in the schema — has a case of its
//     own in formatDefaultValue, and maybeValueAsPointer leaves bytes alone.
func c10EighthHunt(ctx *Ctx, r *Report) {
	n := 0
	fn := ctx.LookupMethod("internal/jennies/golang", "RawTypes", "formatDefaultValue")
	fd, p := ctx.DeclOf(fn)
	if fd == nil {
		r.Undecided("anchor lost: golang.RawTypes.formatDefaultValue")
		return
	}
	info := p.TypesInfo
	itemsThroughSelf, itemsThroughScalar := false, false
	ast.Inspect(fd.Body, func(m ast.Node) bool {
		rs, ok := m.(*ast.RangeStmt)
		if !ok || exprString(rs.X) != "items" {
			return true
		}
		ast.Inspect(rs.Body, func(q ast.Node) bool {
			if c, ok := q.(*ast.CallExpr); ok {
				if f := callee(info, c); f == fn {
					itemsThroughSelf = true
				} else if f != nil && f.Name() == "formatScalar" {
					itemsThroughScalar = true
				}
			}
			return true
		})
		return true
	})
	// the older form: tools.Map(items, formatScalar)
	ast.Inspect(fd.Body, func(m ast.Node) bool {
		if c, ok := m.(*ast.CallExpr); ok && len(c.Args) == 2 && exprString(c.Args[0]) == "items" {
			if id, ok := ast.Unparen(c.Args[1]).(*ast.Ident); ok {
				if f, ok := info.Uses[id].(*types.Func); ok && f.Name() == "formatScalar" {
					itemsThroughScalar = true
				}
			}
		}
		return true
	})
	n++
	r.Check(itemsThroughSelf && !itemsThroughScalar, "kinds/go-list-item-defaults-typed", "golang.formatDefaultValue writes the items of a default list", fd.Pos(), "through the function that formats a default of the item type",
		"the items of a default list are written with the scalar formatter: `stamps: [date-time], default: [\"2020-01-02T03:04:05Z\"]` gives `[]time.Time{\"2020-01-02T03:04:05Z\"}` — cannot use a string as time.Time value, the package does not compile while Python yields the default")
	// every component handed back to the function comes with the *resolved* type of the component (the second
	// parameter): `formatDefaultValue(valueType, valueType, …)` never follows a reference to a named list or map
	selfCalls, unresolved := 0, 0
	ast.Inspect(fd.Body, func(m ast.Node) bool {
		if c, ok := m.(*ast.CallExpr); ok && callee(info, c) == fn && len(c.Args) == 3 {
			selfCalls++
			if exprString(c.Args[0]) == exprString(c.Args[1]) {
				unresolved++
			}
		}
		return true
	})
	n++
	r.Check(selfCalls >= 2 && unresolved == 0, "kinds/go-component-defaults-resolved", "golang.formatDefaultValue formats the components of a default collection", fd.Pos(), "against the resolved type of the component",
		fmt.Sprintf("%d of the %d calls by which formatDefaultValue formats a component pass the type as it is written where the resolved type belongs: `#Ports: [...int64]; groups: {[string]: #Ports} | *{web: [80, 443]}` gives `map[string]Ports{\"web\": []any{80, 443}}` — cannot use []any{…} as Ports value, the package does not compile", unresolved, selfCalls))
	bytesCase := false
	ast.Inspect(fd.Body, func(m ast.Node) bool {
		if is, ok := m.(*ast.IfStmt); ok && strings.Contains(exprString(is.Cond), "KindBytes") && endsInExit(is.Body) {
			bytesCase = true
		}
		return true
	})
	n++
	r.Check(bytesCase, "kinds/go-bytes-default-decoded", "golang.formatDefaultValue writes the default of a bytes field", fd.Pos(), "a case of its own (the schema gives base64 text)",
		"the default of `{type: string, format: byte, default: \"aGVsbG8=\"}` is written as a string literal into a []byte field: cannot use \"aGVsbG8=\" (untyped string constant) as []byte value — the package does not compile")
	if pfd, _ := ctx.DeclOf(ctx.LookupMethod("internal/jennies/golang", "RawTypes", "maybeValueAsPointer")); pfd == nil {
		r.Undecided("anchor lost: golang.RawTypes.maybeValueAsPointer")
	} else {
		spared := false
		ast.Inspect(pfd.Body, func(m ast.Node) bool {
			if is, ok := m.(*ast.IfStmt); ok && strings.Contains(exprString(is.Cond), "KindBytes") && endsInExit(is.Body) {
				spared = true
			}
			return true
		})
		n++
		r.Check(spared, "kinds/go-bytes-default-decoded", "golang.maybeValueAsPointer wraps the default of an optional field", pfd.Pos(), "bytes are left alone (declared as a slice, optional or not)",
			"maybeValueAsPointer wraps every optional scalar default in a pointer, bytes included, while the type formatter declares an optional bytes field `[]byte`: cannot use (value of type *[]byte) as []byte value in struct literal")
	}
	r.Count("hunted clauses of the default rules (8th hunt)", n)
	r.Floor("hunted clauses of the default rules (8th hunt)", 4)
}
