package main

// C15 — schema transformations have their documented effect and touch nothing
// else. Engine E4 "effects": write-set containment, guardedness, selector
// consistency.

import (
	"encoding/json"
	"fmt"
	"go/ast"
	"go/token"
	"go/types"
	"golang.org/x/tools/go/packages"
	"os"
	"path/filepath"
	"sort"
	"strings"
)

func init() { register("C15", checkC15) }

// Documented write sets (docs/reference/schema_transformations.md and the
// passes' doc comments), as IR fields "Struct.Field". Every pass may append to a
// PassesTrail. `all` marks passes whose documented target is every object.
type c15Spec struct {
	writes []string
	all    bool
	// selectorFree: the pass has no object/field selector (targets a package only, or everything)
	note string
}

var c15Specs = map[string]c15Spec{
	"RenameObject":         {writes: []string{"Object.Name", "RefType.ReferredType", "ConstantReferenceType.ReferredType", "DisjunctionType.DiscriminatorMapping", "Schema.EntryPoint"}},
	"Omit":                 {writes: []string{"Schema.Objects", "Schema.EntryPoint", "Schema.EntryPointType"}, note: "the entry point is reset only when it designates an omitted object (the store is under the pass's selector): an entry point naming a missing object is not a state the property allows"},
	"OmitFields":           {writes: []string{"StructType.Fields"}},
	"AddFields":            {writes: []string{"StructType.Fields"}},
	"AddObject":            {writes: []string{"Object.Comments", "Schema.Objects"}, note: "creates one object; the comments are those of the new object"},
	"DuplicateObject":      {writes: []string{"Object.Name", "RefType.ReferredPkg", "RefType.ReferredType", "StructType.Fields", "Schema.Objects"}, note: "all writes are on the fresh copy"},
	"RetypeObject":         {writes: []string{"Object.Type", "Object.Comments"}},
	"RetypeField":          {writes: []string{"StructField.Type", "StructField.Comments"}},
	"FieldsSetRequired":    {writes: []string{"StructField.Required", "Type.Nullable", "StructType.Fields"}},
	"FieldsSetNotRequired": {writes: []string{"StructField.Required", "Type.Nullable", "StructType.Fields"}},
	"FieldsSetDefault":     {writes: []string{"Type.Default", "StructType.Fields"}},
	"ReplaceReference":     {writes: []string{"Type.Nullable", "Type.Default", "Type.Hints", "ConstantReferenceType.ReferredPkg", "ConstantReferenceType.ReferredType", "DisjunctionType.DiscriminatorMapping", "Schema.EntryPointType"}, note: "every usage of the reference: type references are rebuilt (nullability, default and hints carried over), constant references are redirected in place, discriminator mapping entries designating the replaced branch follow (§21); the type of an entry point that designated the replaced object is put back: the entry point is a name, not a usage (§24)"},
	"ConstantToEnum":       {writes: []string{"Object.Type"}},
	"TrimEnumValues":       {writes: []string{"EnumValue.Value", "Type.Default", "ConstantReferenceType.ReferenceValue"}, all: true, note: "the default of the enum designates a member and is trimmed with them (§21), and so do the defaults of references to the enum and the values of constant references (§24)"},
	"HintObject":           {writes: []string{"Type.Hints"}},
	"SchemaSetIdentifier":  {writes: []string{"SchemaMeta.Identifier"}},
	"SchemaSetEntrypoint":  {writes: []string{"Schema.EntryPoint", "Schema.EntryPointType"}},
	"PrefixObjectNames":    {writes: []string{"Object.Name", "RefType.ReferredType", "ConstantReferenceType.ReferredType", "DisjunctionType.DiscriminatorMapping", "Type.Hints", "EnumType.Values", "Schema.EntryPoint"}, all: true},
	"AppendCommentObjects": {writes: []string{"Object.Comments"}, all: true},
}

// Writes that are identity rebuilds performed by the shared visitor (it re-assigns
// each child to the result of visiting it) or trail bookkeeping: allowed for every pass.
var c15AlwaysAllowed = map[string]bool{
	"Type.PassesTrail": true, "Object.PassesTrail": true, "StructField.PassesTrail": true,
}

func irFieldName(f *types.Var, ctx *Ctx) string {
	if f == nil || f.Pkg() == nil {
		return ""
	}
	if f.Pkg().Path() != astPkgPath && f.Pkg().Path() != omapPkgPath {
		return ""
	}
	// owner struct: search ast package structs
	for _, rel := range []string{"internal/ast"} {
		p := ctx.Pkg(rel)
		for _, n := range p.Types.Scope().Names() {
			tn, ok := p.Types.Scope().Lookup(n).(*types.TypeName)
			if !ok {
				continue
			}
			st, ok := tn.Type().Underlying().(*types.Struct)
			if !ok {
				continue
			}
			for i := 0; i < st.NumFields(); i++ {
				if st.Field(i) == f {
					return tn.Name() + "." + f.Name()
				}
			}
		}
	}
	return ""
}

func checkC15(ctx *Ctx, r *Report) {
	r.Explanation = "For each of the 19 user-configurable schema transformations named by the property: (1) write-set containment — the set of IR fields the pass can store to (stores written in the methods reachable from Process, plus the interprocedural effects of what they call, minus the shared visitor's identity rebuild and trail bookkeeping) is contained in its documented write set; (2) guardedness — every such store and every error return is control-dependent on the pass's selector (a Matches/MatchesRef/EqualFold test or a comparison with a configured field), by an enclosing condition, an earlier guard that leaves the function/iteration, or a predicate closure in the stored expression — except for passes documented to apply to every object; hence an absent target leaves the schemas unchanged and raises no error; (3) selector consistency — one pass does not compare a configured name case-insensitively in one place and with == in another."
	r.NotCovered = "that the value written is the documented one (e.g. the right default); ordering effects of the visitor's rebuild; sequences of transformations."
	r.Exhaustive = true

	eng := newEffectsEngine(ctx)
	pkg := ctx.Pkg("internal/ast/compiler")
	if pkg == nil {
		r.Undecided("package internal/ast/compiler not found")
		return
	}
	info := pkg.TypesInfo
	passes := allPasses(ctx, eng)
	byName := map[string]passInfo{}
	for _, p := range passes {
		byName[p.named.Obj().Name()] = p
	}
	names := make([]string, 0, len(c15Specs))
	for n := range c15Specs {
		names = append(names, n)
	}
	sort.Strings(names)
	identity := identityRebuilds(ctx)
	visitorFile := ""
	if vt := ctx.LookupType("internal/ast/compiler", "Visitor"); vt != nil {
		visitorFile = ctx.Fset.Position(vt.Obj().Pos()).Filename
	}
	for _, n := range names {
		spec := c15Specs[n]
		p, ok := byName[n]
		if !ok {
			r.Undecided("anchor lost: compiler pass %s", n)
			continue
		}
		r.Count("transformations analysed", 1)
		allowed := map[string]bool{}
		for _, w := range spec.writes {
			allowed[w] = true
		}
		// write set
		writes := map[string]token.Pos{}
		for _, w := range c05DirectStores(ctx, p) {
			if identity[w.Pos] {
				continue
			}
			if name := irFieldName(w.Final(), ctx); name != "" {
				if _, seen := writes[name]; !seen {
					writes[name] = w.Pos
				}
			}
		}
		for _, w := range p.facts {
			if w.Kind == "calls-field" || strings.HasPrefix(w.Kind, "dynamic") {
				continue
			}
			// identity rebuild by the shared visitor, or by a callback re-entering it
			if ctx.Fset.Position(w.Pos).Filename == visitorFile || identity[w.Origin] || ctx.Fset.Position(w.Origin).Filename == visitorFile {
				continue
			}
			fin := w.Final()
			name := irFieldName(fin, ctx)
			if name == "" {
				// ordered-map internals reached through Schema.Objects
				for _, pf := range w.Path {
					if nm := irFieldName(pf, ctx); nm == "Schema.Objects" {
						name = nm
					}
				}
			}
			if name == "" {
				continue
			}
			if strings.Contains(w.Via, "Visitor.Visit") && !strings.Contains(w.Via, "→ On") {
				continue // the visitor's own rebuild (VisitSchema re-adding objects)
			}
			if _, seen := writes[name]; !seen {
				writes[name] = w.Pos
			}
		}
		var wn []string
		for k := range writes {
			wn = append(wn, k)
		}
		sort.Strings(wn)
		r.Note("write set of %s: %s", n, strings.Join(wn, ", "))
		for _, k := range wn {
			if c15AlwaysAllowed[k] {
				continue
			}
			r.Count("write-set entries", 1)
			r.Check(allowed[k], "effects/write-set", n+" writes "+k, writes[k], "within the documented write set",
				fmt.Sprintf("%s stores into %s, which is outside its documented effect (%s): the transformation touches something other than its target", n, k, strings.Join(spec.writes, ", ")))
		}

		// guardedness
		if !spec.all {
			c15Guarded(ctx, r, info, p)
		}
		c05SelectorConsistency(ctx, r, p)
	}
	c15SelectorShape(ctx, r)
	c15VisitorState(ctx, r, eng)
	c18Payloads(ctx, r)
	// rename_object / name prefixing: the name-changing rules of C05 are part of "documented effect"
	c05NameChanging(ctx, r, eng)
	r.Floor("transformations analysed", 19)
	r.Floor("write-set entries", 25)
	c15GetKnownKey(ctx, r)
	c15NoAdHocNameMatch(ctx, r)
	c15ConfiguredHintWins(ctx, r)
	c03MapOrderIn(ctx, r, []string{"internal/ast/compiler", "internal/yaml"})
	c05Visitor(ctx, r)
	c15ReferenceSiblings(ctx, r)
	c07ConfigOwnership(ctx, r)
	c15FifthRound(ctx, r)
	c15SixthRound(ctx, r)
	c15SeventhRound(ctx, r)
	c15EighthRound(ctx, r)
}

// isSelectorTest: cond contains a test of the pass's selector.
func isSelectorTest(info *types.Info, cond ast.Node, recv types.Object) bool {
	found := false
	ast.Inspect(cond, func(n ast.Node) bool {
		switch x := n.(type) {
		case *ast.CallExpr:
			if fn := callee(info, x); fn != nil {
				switch {
				case fn.Pkg() != nil && fn.Pkg().Path() == compilerPkgPath && (fn.Name() == "Matches" || fn.Name() == "MatchesRef"):
					found = true
				case fn.Pkg() != nil && fn.Pkg().Path() == "strings" && fn.Name() == "EqualFold":
					found = true
				case fn.Pkg() != nil && fn.Pkg().Path() == toolsPkgPath && (fn.Name() == "StringInListEqualFold" || fn.Name() == "ItemInList"):
					found = true
				}
			}
		case *ast.BinaryExpr:
			if x.Op == token.EQL || x.Op == token.NEQ {
				// <configured field> compared with <something read from the IR>
				sides := []ast.Expr{x.X, x.Y}
				for i, side := range sides {
					other := sides[1-i]
					ap := accessPathOf(info, side)
					if !ap.ok || ap.root != recv || len(ap.steps) == 0 {
						continue
					}
					if isNilIdent(info, other) || isConstantish(info, other) {
						continue
					}
					if op := accessPathOf(info, other); op.ok && op.root != recv {
						found = true
					}
				}
			}
		}
		return !found
	})
	return found
}

func c15Guarded(ctx *Ctx, r *Report, info *types.Info, p passInfo) {
	pname := p.named.Obj().Name()
	for _, fd := range methodsOf(ctx, p.named) {
		var recv types.Object
		if fd.Recv != nil && len(fd.Recv.List) == 1 && len(fd.Recv.List[0].Names) == 1 {
			recv = info.Defs[fd.Recv.List[0].Names[0]]
		}
		parents := parentMap(fd)
		fobj, _ := info.Defs[fd.Name].(*types.Func)
		identityByNode := map[ast.Node]bool{}
		ast.Inspect(fd.Body, func(n ast.Node) bool {
			if as, ok := n.(*ast.AssignStmt); ok && isIdentityRebuild(ctx, info, fd, as) {
				identityByNode[as] = true
			}
			return true
		})
		check := func(n ast.Node, what string) {
			guarded := false
			if identityByNode[n] {
				return
			}
			// (a) enclosing conditions / (b) earlier exiting guards in enclosing blocks
			child := n
			for par := parents[n]; par != nil && !guarded; child, par = par, parents[par] {
				switch x := par.(type) {
				case *ast.IfStmt:
					if (child == ast.Node(x.Body) || child == x.Else) && isSelectorTest(info, x.Cond, recv) {
						guarded = true
					}
				case *ast.BlockStmt:
					for _, st := range x.List {
						if st == child || st.Pos() >= child.Pos() {
							break
						}
						if is, ok := st.(*ast.IfStmt); ok && len(is.Body.List) > 0 && isSelectorTest(info, is.Cond, recv) {
							switch last := is.Body.List[len(is.Body.List)-1].(type) {
							case *ast.ReturnStmt:
								guarded = true
							case *ast.BranchStmt:
								if last.Tok == token.CONTINUE || last.Tok == token.BREAK {
									guarded = true
								}
							}
						}
					}
				case *ast.CaseClause:
					for _, e := range x.List {
						if isSelectorTest(info, e, recv) {
							guarded = true
						}
					}
				}
			}
			// (c) the stored expression embeds a predicate closure testing the selector
			if as, ok := n.(*ast.AssignStmt); ok && !guarded {
				for _, rhs := range as.Rhs {
					ast.Inspect(rhs, func(m ast.Node) bool {
						if fl, ok := m.(*ast.FuncLit); ok && isSelectorTest(info, fl.Body, recv) {
							guarded = true
						}
						return true
					})
				}
			}
			r.Count("guarded effects", 1)
			r.Check(guarded, "effects/guarded", fmt.Sprintf("%s %s", ctx.FuncName(fobj), what), n.Pos(), "control-dependent on the selector of the transformation",
				fmt.Sprintf("%s: %s is not control-dependent on the transformation's selector: objects/fields that were not targeted are modified (or a missing target is reported as an error)", pname, what))
		}
		seen := map[string]int{}
		ast.Inspect(fd.Body, func(n ast.Node) bool {
			switch x := n.(type) {
			case *ast.AssignStmt:
				for _, l := range x.Lhs {
					ap := accessPathOf(info, l)
					if !ap.ok {
						continue
					}
					var fin *types.Var
					for _, sp := range ap.steps {
						if sp.field != nil {
							fin = sp.field
						}
					}
					name := irFieldName(fin, ctx)
					if name == "" || ap.root == recv {
						continue
					}
					// stores into objects the pass has just created are not effects on existing ones
					if isFreshLocal(info, fd, ap.root) {
						continue
					}
					seen[name]++
					what := "store to " + name
					if seen[name] > 1 {
						what = fmt.Sprintf("store to %s #%d", name, seen[name])
					}
					check(x, what)
				}
			case *ast.ReturnStmt:
				if len(x.Results) > 0 && nonNilErrorExpr(info, x.Results[len(x.Results)-1]) {
					seen["error"]++
					what := "error return"
					if seen["error"] > 1 {
						what = fmt.Sprintf("error return #%d", seen["error"])
					}
					check(x, what)
				}
			}
			return true
		})
	}
}

// isFreshLocal: obj is a local defined from a DeepCopy()/New*() call or a literal.
func isFreshLocal(info *types.Info, fd *ast.FuncDecl, obj types.Object) bool {
	fresh := false
	ast.Inspect(fd.Body, func(n ast.Node) bool {
		as, ok := n.(*ast.AssignStmt)
		if !ok || as.Tok != token.DEFINE || len(as.Lhs) != len(as.Rhs) {
			return true
		}
		for i, l := range as.Lhs {
			id, ok := l.(*ast.Ident)
			if !ok || info.Defs[id] != obj {
				continue
			}
			switch rhs := ast.Unparen(as.Rhs[i]).(type) {
			case *ast.CallExpr:
				if isCopyCall(info, rhs) {
					fresh = true
				}
				if fn := callee(info, rhs); fn != nil && strings.HasPrefix(fn.Name(), "New") {
					fresh = true
				}
			case *ast.CompositeLit:
				fresh = true
			}
		}
		return true
	})
	return fresh
}

// isIdentityRebuild: `L, err = visitor.Visit*(schema, R)` where R is L itself
// (or L is X[i] and R the range value of X): the child is replaced by the
// result of visiting it. With no callback changing it, that is the identity.
func isIdentityRebuild(ctx *Ctx, info *types.Info, fd *ast.FuncDecl, as *ast.AssignStmt) bool {
	if len(as.Rhs) != 1 || len(as.Lhs) < 1 {
		return false
	}
	call, ok := ast.Unparen(as.Rhs[0]).(*ast.CallExpr)
	if !ok || len(call.Args) == 0 {
		return false
	}
	fn := callee(info, call)
	if fn == nil || !strings.HasPrefix(fn.Name(), "Visit") {
		return false
	}
	sig := fn.Type().(*types.Signature)
	if sig.Recv() == nil || namedName(sig.Recv().Type()) != "Visitor" {
		return false
	}
	arg := call.Args[len(call.Args)-1]
	l := as.Lhs[0]
	if sameAccessPath(info, l, arg) {
		return true
	}
	// through an accessor: def.Array.ValueType = Visit(def.AsArray().ValueType)
	la, aa := accessPathOf(info, l), accessPathOf(info, arg)
	if la.ok && aa.ok && la.root == aa.root {
		lf, af := lastField(la), lastField(aa)
		if lf != nil && lf == af {
			return true
		}
	}
	// X[i] = Visit(v) with `for i, v := range X`
	if ix, ok := ast.Unparen(l).(*ast.IndexExpr); ok {
		found := false
		ast.Inspect(fd.Body, func(n ast.Node) bool {
			rs, ok := n.(*ast.RangeStmt)
			if !ok || !containsNode(rs.Body, as) {
				return true
			}
			if vid, ok := rs.Value.(*ast.Ident); ok && isIdentOf(info, arg, objOf(info, vid)) {
				xa, ra := accessPathOf(info, ix.X), accessPathOf(info, rs.X)
				if xa.ok && ra.ok && xa.root == ra.root && lastField(xa) == lastField(ra) {
					found = true
				}
			}
			return true
		})
		return found
	}
	return false
}

func lastField(ap accessPath) *types.Var {
	var f *types.Var
	for _, sp := range ap.steps {
		if sp.field != nil {
			f = sp.field
		}
	}
	return f
}

// identityRebuilds: positions of all identity-rebuild assignments in cog.
func identityRebuilds(ctx *Ctx) map[token.Pos]bool {
	out := map[token.Pos]bool{}
	for _, p := range ctx.Pkgs {
		for _, f := range p.Syntax {
			for _, d := range f.Decls {
				fd, ok := d.(*ast.FuncDecl)
				if !ok || fd.Body == nil {
					continue
				}
				ast.Inspect(fd.Body, func(n ast.Node) bool {
					if as, ok := n.(*ast.AssignStmt); ok && isIdentityRebuild(ctx, p.TypesInfo, fd, as) {
						out[as.Pos()] = true
					}
					return true
				})
			}
		}
	}
	return out
}

// c15SelectorShape: the selector helpers compare the package exactly and the
// object / field names case-insensitively, in one conjunction.
func c15SelectorShape(ctx *Ctx, r *Report) {
	pkg := ctx.Pkg("internal/ast/compiler")
	info := pkg.TypesInfo
	for _, sel := range []struct {
		typ, method string
		exact       []string
		fold        []string
	}{
		{"ObjectReference", "MatchesRef", []string{"Package"}, []string{"Object"}},
		{"FieldReference", "Matches", []string{"Package"}, []string{"Object", "Field"}},
	} {
		fn := ctx.LookupMethod("internal/ast/compiler", sel.typ, sel.method)
		fd, _ := ctx.DeclOf(fn)
		if fd == nil {
			r.Undecided("anchor lost: compiler.%s.%s", sel.typ, sel.method)
			continue
		}
		var recv types.Object
		if len(fd.Recv.List) == 1 && len(fd.Recv.List[0].Names) == 1 {
			recv = info.Defs[fd.Recv.List[0].Names[0]]
		}
		exact := map[string]bool{}
		fold := map[string]bool{}
		onlyAnd := true
		ast.Inspect(fd.Body, func(n ast.Node) bool {
			switch x := n.(type) {
			case *ast.BinaryExpr:
				if x.Op == token.LOR {
					onlyAnd = false
				}
				if x.Op == token.EQL {
					for _, side := range []ast.Expr{x.X, x.Y} {
						if f := fieldOf(info, side); f != nil {
							if id, ok := ast.Unparen(side).(*ast.SelectorExpr); ok && isIdentOf(info, id.X, recv) {
								exact[f.Name()] = true
							}
						}
					}
				}
			case *ast.CallExpr:
				if c := callee(info, x); c != nil && c.Pkg() != nil && c.Pkg().Path() == "strings" && c.Name() == "EqualFold" {
					for _, a := range x.Args {
						if f := fieldOf(info, a); f != nil {
							if id, ok := ast.Unparen(a).(*ast.SelectorExpr); ok && isIdentOf(info, id.X, recv) {
								fold[f.Name()] = true
							}
						}
					}
				}
			}
			return true
		})
		ok := onlyAnd
		for _, e := range sel.exact {
			ok = ok && exact[e]
		}
		for _, f := range sel.fold {
			ok = ok && fold[f]
		}
		single := len(fd.Body.List) == 1
		r.Check(ok && single, "effects/selector-shape", sel.typ+"."+sel.method, fd.Pos(), "package compared exactly, names case-insensitively, all conjoined",
			fmt.Sprintf("%s.%s no longer tests (package ==) ∧ (names EqualFold) as one conjunction: a transformation can hit objects of another package / miss or over-match names", sel.typ, sel.method))
	}
	// ObjectReference.Matches delegates to MatchesRef on the object's self reference
	fn := ctx.LookupMethod("internal/ast/compiler", "ObjectReference", "Matches")
	fd, _ := ctx.DeclOf(fn)
	okDel := false
	if fd != nil {
		ast.Inspect(fd.Body, func(n ast.Node) bool {
			if c, ok := n.(*ast.CallExpr); ok {
				if cc := callee(info, c); cc != nil && cc.Name() == "MatchesRef" && len(c.Args) == 1 {
					if f := fieldOf(info, c.Args[0]); f != nil && f.Name() == "SelfRef" {
						okDel = true
					}
				}
			}
			return true
		})
	}
	r.Check(okDel, "effects/selector-shape", "ObjectReference.Matches", fn.Pos(), "delegates to MatchesRef(object.SelfRef)", "ObjectReference.Matches no longer delegates to MatchesRef on the object's own reference")
}

// c15VisitorState: the shared visitor carries pending new objects in a field;
// it must be re-initialised unconditionally for every schema, otherwise an
// object created for one package is added to every schema visited afterwards.
func c15VisitorState(ctx *Ctx, r *Report, eng *effectsEngine) {
	vt := ctx.LookupType("internal/ast/compiler", "Visitor")
	visitSchema := ctx.LookupMethod("internal/ast/compiler", "Visitor", "VisitSchema")
	fd, p := ctx.DeclOf(visitSchema)
	if vt == nil || fd == nil {
		r.Undecided("anchor lost: compiler.Visitor.VisitSchema")
		return
	}
	info := p.TypesInfo
	st := vt.Underlying().(*types.Struct)
	var recv types.Object
	if len(fd.Recv.List) == 1 && len(fd.Recv.List[0].Names) == 1 {
		recv = info.Defs[fd.Recv.List[0].Names[0]]
	}
	// state fields: unexported, non-func fields of Visitor written by any Visitor method
	for i := 0; i < st.NumFields(); i++ {
		f := st.Field(i)
		if f.Exported() {
			continue
		}
		if _, isFn := f.Type().Underlying().(*types.Signature); isFn {
			continue
		}
		r.Count("visitor state fields", 1)
		reset := false
		for _, stmt := range fd.Body.List {
			as, ok := stmt.(*ast.AssignStmt)
			if !ok || as.Tok != token.ASSIGN {
				continue
			}
			for j, l := range as.Lhs {
				sel, ok := ast.Unparen(l).(*ast.SelectorExpr)
				if ok && fieldOf(info, sel) == f && isIdentOf(info, sel.X, recv) && j < len(as.Rhs) {
					if c, ok := ast.Unparen(as.Rhs[j]).(*ast.CallExpr); ok {
						if fn := callee(info, c); fn != nil && (fn.Name() == "New" || strings.HasPrefix(fn.Name(), "New")) || isBuiltinCall(info, c, "make") {
							reset = true
						}
					}
				}
			}
		}
		r.Check(reset, "effects/visitor-state-reset", "Visitor."+f.Name(), fd.Pos(), "re-initialised unconditionally at the start of VisitSchema",
			"Visitor."+f.Name()+" is not re-initialised unconditionally for each schema: objects registered while visiting one package are also added to the schemas visited after it")
	}
	r.Floor("visitor state fields", 1)
}

// ---------------------------------------------------------------------------
// c15GetKnownKey: orderedmap.Map.Get has no found-flag: for a missing key it returns the zero value. "A transformation
// whose target does not exist leaves the schemas unchanged" therefore needs every Get to be made on a key known to be
// present: under a positive Has on the same map and key (enclosing condition or earlier `if !Has { leave }`), or for a
// reviewed reason. A Get on an unchecked key turns an absent target into an empty object that is then copied, renamed
// and added.
var c15GetTable = map[string]string{
	"internal/ast/compiler.InferEntrypoint.Process":               "the key is the name inferEntrypoint returned, which it took from an object of the same schema.Objects",
	"internal/ast/compiler.DataqueryIdentification.processSchema": "the key was collected from the objects of the same schema a few lines above (variantObjects)",
	"internal/jsonschema.GenerateAST":                             "declareDefinition(rootObjectName) just added the object or returned an error",
	"internal/simplecue.generator.walkCueSchemaWithEnvelope":      "the object was added under that name by the AddObject call just above",
	"internal/jennies/openapi.Schema.generateSchema":              "the key \"definitions\" is set by the JSON Schema jenny on every document it returns",
}

func c15GetKnownKey(ctx *Ctx, r *Report) {
	omapT := ctx.LookupType("internal/orderedmap", "Map")
	if omapT == nil {
		r.Undecided("anchor lost: orderedmap.Map")
		return
	}
	n := 0
	ctx.AllFuncDecls(func(p *packages.Package, fd *ast.FuncDecl, obj *types.Func) {
		if fd.Body == nil || p.PkgPath == omapT.Obj().Pkg().Path() {
			return
		}
		info := p.TypesInfo
		parents := parentMap(fd)
		k := 0
		ast.Inspect(fd.Body, func(m ast.Node) bool {
			c, ok := m.(*ast.CallExpr)
			if !ok || len(c.Args) != 1 {
				return true
			}
			sel, ok := c.Fun.(*ast.SelectorExpr)
			if !ok || sel.Sel.Name != "Get" {
				return true
			}
			nt := namedOf(info.TypeOf(sel.X))
			if nt == nil || nt.Origin() != omapT {
				return true
			}
			n++
			k++
			recv, key := exprString(sel.X), exprString(c.Args[0])
			isHas := func(e ast.Expr) (bool, bool) { // (is a Has on this map/key, positive)
				pos := true
				e = ast.Unparen(e)
				if u, ok := e.(*ast.UnaryExpr); ok && u.Op == token.NOT {
					pos = false
					e = ast.Unparen(u.X)
				}
				hc, ok := e.(*ast.CallExpr)
				if !ok || len(hc.Args) != 1 {
					return false, false
				}
				hs, ok := hc.Fun.(*ast.SelectorExpr)
				if !ok || (hs.Sel.Name != "Has" && hs.Sel.Name != "HasObject") || exprString(hc.Args[0]) != key {
					return false, false
				}
				// X.Objects.Has(k) or X.HasObject(k) for a Get on X.Objects
				if exprString(hs.X) == recv || exprString(hs.X)+".Objects" == recv {
					return true, pos
				}
				return false, false
			}
			known := ""
			for _, ce := range enclosingConds(parents, c) {
				if is, pos := isHas(ce.stmt.Cond); is && pos != ce.inElse {
					known = "under " + exprString(ce.stmt.Cond)
				}
			}
			if known == "" {
				for _, ctl := range controllingIfs(parents, fd, c) {
					if is, pos := isHas(ctl.Cond); is && !pos {
						known = "after `if " + exprString(ctl.Cond) + " { leave }`"
					}
				}
			}
			if known == "" {
				if why, ok := c15GetTable[ctx.FuncName(obj)]; ok {
					known = "reviewed: " + why
				}
			}
			r.Check(known != "", "flow/get-known-key", fmt.Sprintf("%s Get #%d on %s", ctx.FuncName(obj), k, recv), c.Pos(), known,
				fmt.Sprintf("%s reads %s.Get(%s) without knowing that the key is present: the ordered map has no found-flag, a missing key yields an empty value — an absent target is then treated as an empty object (copied, renamed, added) instead of leaving the schemas unchanged", ctx.FuncName(obj), recv, key))
			return true
		})
	})
	r.Count("orderedmap Get calls outside the orderedmap package", n)
	r.Floor("orderedmap Get calls outside the orderedmap package", 6)
}

// c15NoAdHocNameMatch: the targets of a transformation are given as references (package + object [+ field]); whether an
// object is the target is decided by the reference's own matchers (ObjectReference.Matches / MatchesRef,
// FieldReference.Matches: package compared exactly, names case-insensitively, in one conjunction — checked by
// selectors/shape). A pass that compares the name part of a reference itself (`strings.EqualFold(x, pass.From.Object)`)
// forgets the package: the same-named object of every other package is a target too.
func c15NoAdHocNameMatch(ctx *Ctx, r *Report) {
	p := ctx.Pkg("internal/ast/compiler")
	if p == nil {
		return
	}
	info := p.TypesInfo
	isRefName := func(e ast.Expr) bool {
		s, ok := ast.Unparen(e).(*ast.SelectorExpr)
		if !ok || (s.Sel.Name != "Object" && s.Sel.Name != "Field") {
			return false
		}
		nt := namedOf(info.TypeOf(s.X))
		return nt != nil && (nt.Obj().Name() == "ObjectReference" || nt.Obj().Name() == "FieldReference")
	}
	n, bad := 0, 0
	for _, file := range p.Syntax {
		fname := ctx.Fset.Position(file.Pos()).Filename
		if strings.HasSuffix(fname, "/types.go") {
			continue // the matchers themselves
		}
		var fn string
		ast.Inspect(file, func(m ast.Node) bool {
			if fd, ok := m.(*ast.FuncDecl); ok {
				fn = fd.Name.Name
				if fd.Recv != nil && len(fd.Recv.List) == 1 {
					fn = exprString(fd.Recv.List[0].Type) + "." + fn
				}
			}
			var operands []ast.Expr
			switch x := m.(type) {
			case *ast.BinaryExpr:
				if x.Op == token.EQL || x.Op == token.NEQ {
					operands = []ast.Expr{x.X, x.Y}
				}
			case *ast.CallExpr:
				if f := callee(info, x); f != nil && (f.FullName() == "strings.EqualFold" || f.Name() == "StringInListEqualFold" || f.Name() == "ItemInList") {
					operands = x.Args
				}
			}
			if operands == nil {
				return true
			}
			n++
			for _, o := range operands {
				if isRefName(o) {
					bad++
					r.Bad("selectors/no-adhoc-name-match", fmt.Sprintf("compiler.%s compares %s", fn, exprString(o)), m.Pos(),
						fmt.Sprintf("compiler.%s decides about a target by comparing %s itself instead of asking the reference (Matches / MatchesRef): the package is not part of the comparison — the object of that name in every other package is treated as the target too", fn, exprString(o)))
				}
			}
			return true
		})
	}
	r.Count("comparisons in the transformation passes", n)
	r.Floor("comparisons in the transformation passes", 30)
	if bad == 0 {
		r.OK("selectors/no-adhoc-name-match", "transformation passes", token.NoPos, "no pass compares the name part of a reference itself")
	}
}

// c15ConfiguredHintWins: hint_object sets the configured hints on its target: for a key the object already carries, the
// configured value replaces the old one. In HintObject.processObject no store into the hints that copies the object's
// *existing* hints may come after the stores of the configured ones.
func c15ConfiguredHintWins(ctx *Ctx, r *Report) {
	fn := ctx.LookupMethod("internal/ast/compiler", "HintObject", "processObject")
	fd, p := ctx.DeclOf(fn)
	if fd == nil {
		r.Undecided("anchor lost: HintObject.processObject")
		return
	}
	info := p.TypesInfo
	hintsF := astField(ctx, "Type", "Hints")
	var recv types.Object
	if fd.Recv != nil && len(fd.Recv.List) == 1 && len(fd.Recv.List[0].Names) == 1 {
		recv = info.Defs[fd.Recv.List[0].Names[0]]
	}
	lastConfigured, lastExisting := token.NoPos, token.NoPos
	ast.Inspect(fd.Body, func(m ast.Node) bool {
		rs, ok := m.(*ast.RangeStmt)
		if !ok {
			return true
		}
		ap := accessPathOf(info, rs.X)
		if !ap.ok {
			return true
		}
		stores := false
		ast.Inspect(rs.Body, func(q ast.Node) bool {
			if as, ok := q.(*ast.AssignStmt); ok {
				for _, l := range as.Lhs {
					if _, ok := ast.Unparen(l).(*ast.IndexExpr); ok {
						stores = true
					}
				}
			}
			return true
		})
		if !stores {
			return true
		}
		if ap.root == recv {
			lastConfigured = rs.Pos()
		} else if fieldOf(info, rs.X) == hintsF {
			lastExisting = rs.Pos()
		}
		return true
	})
	r.Count("hint stores of hint_object", 1)
	if !lastConfigured.IsValid() {
		r.Undecided("anchor lost: the loop of HintObject.processObject that stores the configured hints")
		return
	}
	r.Check(!lastExisting.IsValid() || lastExisting < lastConfigured, "effects/configured-value-wins", "HintObject.processObject", fd.Pos(), "the configured hints are stored last",
		"HintObject.processObject copies the object's existing hints over the configured ones: for a key the object already carries (implements_variant set by a loader, an earlier hint_object) the transformation has no effect while its trail claims the new value")
}

// c15ReferenceSiblings: three clauses on the passes that rewrite references by name (found by a bug hunt).
//
//	selectors/mapping-entry-by-branch   a discriminator mapping entry designates a branch of its union; a pass that
//	                                    rewrites entries by name takes the package from that branch (a loop over
//	                                    .Branches inside the loop over .DiscriminatorMapping), not from the schema
//	                                    that holds the union.
//	siblings/ref-and-constant-ref       a Visitor whose OnRef callback rewrites the name of references (stores into
//	                                    ReferredType / ReferredPkg, or returns a freshly built reference) also has an
//	                                    OnConstantRef callback: `kind: Kind & "a"` is a usage of Kind too.
//	effects/rebuilt-reference-keeps-hints  a reference rebuilt with ast.NewRef in place of the visited one carries
//	                                    the hints of the original over (beside Nullable and Default, checked elsewhere).
func c15ReferenceSiblings(ctx *Ctx, r *Report) {
	p := ctx.Pkg("internal/ast/compiler")
	if p == nil {
		r.Undecided("anchor lost: internal/ast/compiler")
		return
	}
	info := p.TypesInfo
	// --- mapping entries
	loops := 0
	ctx.AllFuncDecls(func(pk *packages.Package, fd *ast.FuncDecl, obj *types.Func) {
		if pk != p || fd.Body == nil {
			return
		}
		seen := 0
		ast.Inspect(fd.Body, func(n ast.Node) bool {
			rs, ok := n.(*ast.RangeStmt)
			if !ok {
				return true
			}
			f := fieldOf(info, rs.X)
			if f == nil || f.Name() != "DiscriminatorMapping" {
				return true
			}
			// does the body store a mapping entry?
			stores := false
			ast.Inspect(rs.Body, func(k ast.Node) bool {
				if as, ok := k.(*ast.AssignStmt); ok {
					for _, l := range as.Lhs {
						if ix, ok := ast.Unparen(l).(*ast.IndexExpr); ok {
							if mt, ok := info.TypeOf(ix.X).Underlying().(*types.Map); ok {
								if b, ok := mt.Elem().Underlying().(*types.Basic); ok && b.Kind() == types.String {
									stores = true
								}
							}
						}
					}
				}
				return true
			})
			if !stores {
				return true
			}
			loops++
			seen++
			byBranch := false
			ast.Inspect(rs.Body, func(k ast.Node) bool {
				if inner, ok := k.(*ast.RangeStmt); ok {
					if bf := fieldOf(info, inner.X); bf != nil && bf.Name() == "Branches" {
						byBranch = true
					}
				}
				return true
			})
			cons := ctx.FuncName(obj) + " rewrites mapping entries"
			if seen > 1 {
				cons = fmt.Sprintf("%s #%d", cons, seen)
			}
			r.Check(byBranch, "selectors/mapping-entry-by-branch", cons, rs.Pos(),
				"the package of an entry is looked up on the branch it designates",
				"the loop rewrites discriminator mapping entries by name without looking at the branches of the union: an entry designates a branch, which can belong to another package than the schema holding the union — a same-named local object makes the pass rewrite an entry it must leave alone, and a renamed foreign branch leaves its entry behind")
			return true
		})
	})
	r.Count("loops rewriting discriminator mapping entries", loops)
	r.Floor("loops rewriting discriminator mapping entries", 3)

	// --- OnRef / OnConstantRef
	visitorT := ctx.LookupType("internal/ast/compiler", "Visitor")
	lits := 0
	for _, f := range p.Syntax {
		ast.Inspect(f, func(n ast.Node) bool {
			cl, ok := n.(*ast.CompositeLit)
			if !ok || namedOf(info.TypeOf(cl)) != visitorT {
				return true
			}
			var onRef ast.Expr
			hasConst := false
			for _, el := range cl.Elts {
				if kv, ok := el.(*ast.KeyValueExpr); ok {
					if id, ok := kv.Key.(*ast.Ident); ok {
						switch id.Name {
						case "OnRef":
							onRef = kv.Value
						case "OnConstantRef":
							hasConst = true
						}
					}
				}
			}
			if onRef == nil {
				return true
			}
			var body *ast.BlockStmt
			name := exprString(onRef)
			switch v := ast.Unparen(onRef).(type) {
			case *ast.FuncLit:
				body = v.Body
				name = "closure"
			case *ast.SelectorExpr:
				if fn, _ := info.Uses[v.Sel].(*types.Func); fn != nil {
					if fd, _ := ctx.DeclOf(fn); fd != nil {
						body = fd.Body
					}
				}
			}
			if body == nil {
				return true
			}
			renames, rebuilt := false, []*ast.CallExpr{}
			ast.Inspect(body, func(k ast.Node) bool {
				switch x := k.(type) {
				case *ast.AssignStmt:
					for _, l := range x.Lhs {
						if ff := fieldOf(info, l); ff != nil && (ff.Name() == "ReferredType" || ff.Name() == "ReferredPkg") {
							renames = true
						}
					}
				case *ast.CallExpr:
					if fn := callee(info, x); fn != nil && fn.Name() == "NewRef" && fn.Pkg() != nil && fn.Pkg().Path() == astPkgPath {
						renames = true
						rebuilt = append(rebuilt, x)
					}
				}
				return true
			})
			if !renames {
				return true
			}
			lits++
			where := ctx.Pos(cl.Pos())
			r.Check(hasConst, "siblings/ref-and-constant-ref", "Visitor at "+strings.SplitN(where, ":", 2)[0]+" ("+name+") handles constant references", cl.Pos(),
				"the visitor that rewrites references by name has an OnConstantRef callback too",
				"the visitor rewrites the name of type references ("+name+") and has no OnConstantRef callback: a constant reference to the same object (`kind: Kind & \"a\"`) keeps the old name — with the object renamed, replaced or omitted the generated code refers to a type that does not exist")
			// rebuilt references keep the hints
			for _, c := range rebuilt {
				keeps := false
				ast.Inspect(body, func(k ast.Node) bool {
					switch x := k.(type) {
					case *ast.RangeStmt:
						if ff := fieldOf(info, x.X); ff != nil && ff.Name() == "Hints" {
							keeps = true
						}
					case *ast.CallExpr:
						if fn := callee(info, x); fn != nil && fn.Name() == "Hints" && fn.Pkg() != nil && fn.Pkg().Path() == astPkgPath {
							keeps = true
						}
					}
					return true
				})
				r.Check(keeps, "effects/rebuilt-reference-keeps-hints", name+" rebuilds a reference with its hints", c.Pos(),
					"the hints of the visited reference are copied onto the new one",
					"the callback returns ast.NewRef(…) in place of the visited reference without its Hints: hints set on the field's type (by the schema or by hint passes) are lost wherever the transformation applies")
			}
			return true
		})
	}
	r.Count("visitors rewriting references by name", lits)
	r.Floor("visitors rewriting references by name", 3)
}

// c15FifthRound — second hunting pass over C15.
// (a) a transformation designates the objects it acts on with an ObjectReference taken from its configuration; every
// pass matches it with ObjectReference.Matches / MatchesRef (the letter case of the name is ignored). Handing such a
// reference to an exact lookup (Locate*) makes one transformation disagree with all the others about what `main.foo`
// designates. (b) every pass that replaces or renames a reference (its OnRef handler writes a referred type or
// rebuilds the reference) also rewrites discriminator mappings: it has an OnDisjunction handler storing into
// DiscriminatorMapping. (c) a pass whose OnEnum handler rewrites the values of the members rewrites the enum's default
// the same way — the default designates a member by value.
var c15ExactLookupExempt = map[string]string{
	"internal/ast/compiler.FilterSchemas.buildAllowList": "allowed_objects is an input filter listing object names, not a transformation's reference: names are compared as written",
}

func c15FifthRound(ctx *Ctx, r *Report) {
	p := ctx.Pkg("internal/ast/compiler")
	if p == nil {
		return
	}
	info := p.TypesInfo
	refT := ctx.LookupType("internal/ast/compiler", "ObjectReference")
	// (a)
	n := 0
	for _, file := range p.Syntax {
		for _, d := range file.Decls {
			fd, ok := d.(*ast.FuncDecl)
			if !ok || fd.Body == nil {
				continue
			}
			fobj, _ := info.Defs[fd.Name].(*types.Func)
			ast.Inspect(fd.Body, func(m ast.Node) bool {
				c, ok := m.(*ast.CallExpr)
				if !ok {
					return true
				}
				fn := callee(info, c)
				if fn == nil || !strings.HasPrefix(fn.Name(), "Locate") {
					return true
				}
				through := ""
				for _, a := range c.Args {
					ast.Inspect(a, func(q ast.Node) bool {
						if sel, ok := q.(*ast.SelectorExpr); ok && refT != nil && namedOf(info.TypeOf(sel.X)) == refT && through == "" {
							through = exprString(sel)
						}
						return true
					})
				}
				if through == "" {
					return true
				}
				n++
				cons := fmt.Sprintf("%s looks up %s", ctx.FuncName(fobj), through)
				if why, ok := c15ExactLookupExempt[ctx.FuncName(fobj)]; ok {
					r.OK("selectors/configured-reference-by-matches", cons, c.Pos(), "reviewed: "+why)
					return true
				}
				r.Bad("selectors/configured-reference-by-matches", cons, c.Pos(),
					fmt.Sprintf("%s hands the configured reference (%s) to the exact lookup %s: every other transformation matches its reference with ObjectReference.Matches, which ignores the letter case — `duplicate_object main.foo` does nothing on a schema holding Foo while `omit main.foo` and `rename_object main.foo` act on it", ctx.FuncName(fobj), through, fn.Name()))
				return true
			})
		}
	}
	r.Count("exact lookups fed with a configured object reference", n)
	if n == 0 {
		r.OK("selectors/configured-reference-by-matches", "compiler passes", token.NoPos, "no configured reference is handed to an exact lookup")
	}
	// (b) and (c): handlers registered in Visitor literals
	handler := func(cl *ast.CompositeLit, key string) *types.Func {
		for _, el := range cl.Elts {
			kv, ok := el.(*ast.KeyValueExpr)
			if !ok || exprString(kv.Key) != key {
				continue
			}
			if sel, ok := kv.Value.(*ast.SelectorExpr); ok {
				h, _ := info.Uses[sel.Sel].(*types.Func)
				return h
			}
		}
		return nil
	}
	storesTo := func(fn *types.Func, suffixes ...string) bool {
		seen := map[*types.Func]bool{}
		var rec func(fn *types.Func, depth int) bool
		rec = func(fn *types.Func, depth int) bool {
			if fn == nil || seen[fn] || depth > 2 {
				return false
			}
			seen[fn] = true
			fd, _ := ctx.DeclOf(fn)
			if fd == nil || fd.Body == nil {
				return false
			}
			found := false
			ast.Inspect(fd.Body, func(m ast.Node) bool {
				switch x := m.(type) {
				case *ast.AssignStmt:
					for _, l := range x.Lhs {
						txt := exprString(l)
						for _, s := range suffixes {
							if strings.HasSuffix(txt, s) || strings.Contains(txt, s+"[") {
								found = true
							}
						}
					}
				case *ast.CallExpr:
					if f := callee(info, x); f != nil && f.Pkg() == p.Types && rec(f, depth+1) {
						found = true
					}
				}
				return true
			})
			return found
		}
		return rec(fn, 0)
	}
	nb, nc := 0, 0
	for _, file := range p.Syntax {
		ast.Inspect(file, func(m ast.Node) bool {
			cl, ok := m.(*ast.CompositeLit)
			if !ok {
				return true
			}
			if nt := namedOf(info.TypeOf(cl)); nt == nil || nt.Obj().Name() != "Visitor" {
				return true
			}
			if onRef := handler(cl, "OnRef"); onRef != nil {
				rebuilds := storesTo(onRef, ".ReferredType", ".ReferredPkg")
				if !rebuilds {
					// a handler that answers with a fresh reference replaces it as well
					if fd, _ := ctx.DeclOf(onRef); fd != nil && fd.Body != nil {
						ast.Inspect(fd.Body, func(q ast.Node) bool {
							if c, ok := q.(*ast.CallExpr); ok {
								if f := callee(info, c); f != nil && f.Name() == "NewRef" {
									for _, a := range c.Args {
										ast.Inspect(a, func(k ast.Node) bool {
											if sel, ok := k.(*ast.SelectorExpr); ok && refT != nil && namedOf(info.TypeOf(sel.X)) == refT {
												rebuilds = true
											}
											return true
										})
									}
								}
							}
							return true
						})
					}
				}
				if rebuilds {
					nb++
					onDisj := handler(cl, "OnDisjunction")
					r.Check(onDisj != nil && storesTo(onDisj, "DiscriminatorMapping"), "siblings/renaming-pass-rewrites-mappings", ctx.FuncName(onRef)+" comes with a handler for discriminator mappings", cl.Pos(), "the pass has an OnDisjunction handler that rewrites the mapping",
						"the pass changes what references designate (its OnRef handler renames or replaces them) and has no OnDisjunction handler rewriting discriminator mappings: the mapping of `Foo | Baz` keeps `foo: Foo` after the branch became Foo2 — the entry designates no branch, and the Go types can no longer be generated")
				}
			}
			if onEnum := handler(cl, "OnEnum"); onEnum != nil && storesTo(onEnum, ".Value") {
				nc++
				r.Check(storesTo(onEnum, ".Default"), "siblings/enum-default-follows-members", ctx.FuncName(onEnum)+" rewrites the default with the members", cl.Pos(), "the handler also rewrites the enum's default",
					"the pass rewrites the values of the members of an enum and leaves the enum's default, which designates a member by value: the default matches no member any more and the jennies fall back on the first one — the default silently moves to another member")
			}
			return true
		})
	}
	r.Count("passes that rename or replace references", nb)
	r.Count("passes that rewrite enum member values", nc)
	r.Floor("passes that rename or replace references", 2)
	r.Floor("passes that rewrite enum member values", 1)
}

// c15SixthRound — third hunt:
//   - the Visitor hands the type of a schema's entry point to OnRef like any other reference, while the entry point
//     itself is a *name*: a pass whose OnRef callback rewrites what a reference designates (builds a new reference,
//     stores into ReferredPkg / ReferredType) also deals with the entry point somewhere — or name and type drift apart;
//   - trim_enum_values trims every value that designates a member: the Visitor it builds also visits references and
//     constant references;
//   - retype_field acts on every field its reference designates, as omit_fields and fields_set_* do: the loop over the
//     fields has no `break`.
func c15SixthRound(ctx *Ctx, r *Report) {
	p := ctx.Pkg("internal/ast/compiler")
	if p == nil {
		r.Undecided("anchor lost: internal/ast/compiler")
		return
	}
	info := p.TypesInfo
	rewrites := func(body ast.Node) bool {
		found := false
		ast.Inspect(body, func(m ast.Node) bool {
			switch x := m.(type) {
			case *ast.CallExpr:
				if f := callee(info, x); f != nil && f.Name() == "NewRef" {
					found = true
				}
			case *ast.AssignStmt:
				for _, l := range x.Lhs {
					if sel, ok := ast.Unparen(l).(*ast.SelectorExpr); ok && (sel.Sel.Name == "ReferredType" || sel.Sel.Name == "ReferredPkg") {
						found = true
					}
				}
			}
			return true
		})
		return found
	}
	type passInfo struct {
		rewrites   bool
		entryPoint bool
		pos        token.Pos
	}
	passes := map[string]*passInfo{}
	get := func(fd *ast.FuncDecl) *passInfo {
		if fd.Recv == nil || len(fd.Recv.List) != 1 {
			return nil
		}
		name := namedName(info.TypeOf(fd.Recv.List[0].Type))
		if name == "" || name == "Visitor" {
			return nil
		}
		if passes[name] == nil {
			passes[name] = &passInfo{}
		}
		return passes[name]
	}
	for _, f := range p.Syntax {
		for _, d := range f.Decls {
			fd, ok := d.(*ast.FuncDecl)
			if !ok || fd.Body == nil {
				continue
			}
			pi := get(fd)
			if pi == nil {
				continue
			}
			ast.Inspect(fd.Body, func(m ast.Node) bool {
				switch x := m.(type) {
				case *ast.KeyValueExpr:
					if k, ok := x.Key.(*ast.Ident); ok && k.Name == "OnRef" {
						var body ast.Node
						switch v := ast.Unparen(x.Value).(type) {
						case *ast.FuncLit:
							body = v.Body
						default:
							if fo, ok := calleeOfValue(info, x.Value); ok {
								if cfd, _ := ctx.DeclOf(fo); cfd != nil {
									body = cfd.Body
								}
							}
						}
						if body != nil && rewrites(body) {
							pi.rewrites = true
							pi.pos = x.Pos()
						}
					}
				case *ast.AssignStmt:
					// a store: reading the entry point is not dealing with it
					for _, l := range x.Lhs {
						if sel, ok := ast.Unparen(l).(*ast.SelectorExpr); ok && (sel.Sel.Name == "EntryPoint" || sel.Sel.Name == "EntryPointType") {
							pi.entryPoint = true
						}
					}
				}
				return true
			})
		}
	}
	names := make([]string, 0, len(passes))
	for name, pi := range passes {
		if pi.rewrites {
			names = append(names, name)
		}
	}
	sort.Strings(names)
	for _, name := range names {
		r.Check(passes[name].entryPoint, "effects/entry-point-follows-reference-rewrites", name+" deals with the entry point", passes[name].pos, "a method of the pass stores into Schema.EntryPoint / EntryPointType",
			name+" rewrites what references designate — the Visitor also hands it the type of the schema's entry point — and never looks at the entry point: after `replace_reference main.Foo → main.Bar` the schema says EntryPoint = Foo and EntryPointType = ref(main.Bar)")
	}
	r.Count("passes whose OnRef callback rewrites references", len(names))
	r.Floor("passes whose OnRef callback rewrites references", 4)
	// trim_enum_values
	if named := ctx.LookupType("internal/ast/compiler", "TrimEnumValues"); named == nil {
		r.Undecided("anchor lost: compiler.TrimEnumValues")
	} else {
		keys := map[string]bool{}
		for _, fd := range methodsOf(ctx, named) {
			ast.Inspect(fd.Body, func(m ast.Node) bool {
				if cl, ok := m.(*ast.CompositeLit); ok && namedName(info.TypeOf(cl)) == "Visitor" {
					for _, el := range cl.Elts {
						if kv, ok := el.(*ast.KeyValueExpr); ok {
							if k, ok := kv.Key.(*ast.Ident); ok {
								keys[k.Name] = true
							}
						}
					}
				}
				return true
			})
		}
		r.Count("visitors of trim_enum_values", 1)
		r.Check(keys["OnEnum"] && keys["OnRef"] && keys["OnConstantRef"], "siblings/enum-default-follows-members", "TrimEnumValues visits the values that designate a member from elsewhere", named.Obj().Pos(), "its Visitor has OnEnum, OnRef and OnConstantRef",
			"trim_enum_values only visits enums: the default of a reference to the enum (`{$ref: Kind, default: \" z \"}`) and the value of a constant reference keep their spaces and designate no member any more — NewFoo() starts from the first member, a constant reference makes Go generation fail")
	}
	// retype_field
	if fn := ctx.LookupMethod("internal/ast/compiler", "RetypeField", "processObject"); fn == nil {
		r.Undecided("anchor lost: compiler.RetypeField.processObject")
	} else if fd, _ := ctx.DeclOf(fn); fd != nil {
		stops := false
		ast.Inspect(fd.Body, func(m ast.Node) bool {
			rs, ok := m.(*ast.RangeStmt)
			if !ok || !strings.HasSuffix(exprString(rs.X), ".Fields") {
				return true
			}
			ast.Inspect(rs.Body, func(k ast.Node) bool {
				if _, isLoop := k.(*ast.RangeStmt); isLoop && k != ast.Node(rs) {
					return false
				}
				if bs, ok := k.(*ast.BranchStmt); ok && bs.Tok == token.BREAK {
					stops = true
				}
				return true
			})
			return true
		})
		r.Count("field loops of retype_field", 1)
		r.Check(!stops, "siblings/field-transformations-act-on-every-match", "RetypeField.processObject retypes every matching field", fd.Pos(), "the loop over the fields does not stop at the first match",
			"retype_field stops at the first field its reference matches — references are compared ignoring letter case: with `Obj {Val, val}` and `retype_field main.Obj.val` the field Val is retyped and val, spelled exactly like the reference, is left alone; omit_fields and fields_set_* act on both")
	}
}

// calleeOfValue resolves a method value / function value expression (`pass.processRef`) to the function it names.
func calleeOfValue(info *types.Info, e ast.Expr) (*types.Func, bool) {
	switch x := ast.Unparen(e).(type) {
	case *ast.SelectorExpr:
		if f, ok := info.Uses[x.Sel].(*types.Func); ok {
			return f, true
		}
	case *ast.Ident:
		if f, ok := info.Uses[x].(*types.Func); ok {
			return f, true
		}
	}
	return nil, false
}

// c15SeventhRound — fourth hunt:
//   - schema_set_entry_point: what is stored into Schema.EntryPoint / EntryPointType comes from an object of the
//     schema (found like every other transformation finds its target), not from the configuration as it is — a name
//     that differs by case, or that designates nothing, must not become a reference to an object that does not exist;
//   - rename_object: objects are kept under their name — giving an object the name of another one makes the visitor
//     overwrite it. RenameObject.Process compares the names of the objects with the new name and leaves with an error;
//   - one entry of `passes` / `builders` / `options` holds one transformation: the dispatchers test the members of the
//     union one after the other and return at the first that is set. They first count the members that are set (a
//     function using reflection that errs beyond one), and the published schemas cap the entry at one property.
func c15SeventhRound(ctx *Ctx, r *Report) {
	n := 0
	cp := ctx.Pkg("internal/ast/compiler")
	if cp == nil {
		r.Undecided("anchor lost: internal/ast/compiler")
		return
	}
	info := cp.TypesInfo
	// (a)
	if fn := ctx.LookupMethod("internal/ast/compiler", "SchemaSetEntrypoint", "Process"); fn == nil {
		r.Undecided("anchor lost: compiler.SchemaSetEntrypoint.Process")
	} else if fd, _ := ctx.DeclOf(fn); fd != nil {
		recv := info.Defs[fd.Recv.List[0].Names[0]]
		stores := 0
		var fromConfig []string
		ast.Inspect(fd.Body, func(m ast.Node) bool {
			as, ok := m.(*ast.AssignStmt)
			if !ok || len(as.Lhs) != len(as.Rhs) {
				return true
			}
			for i, l := range as.Lhs {
				sel, ok := ast.Unparen(l).(*ast.SelectorExpr)
				if !ok || (sel.Sel.Name != "EntryPoint" && sel.Sel.Name != "EntryPointType") {
					continue
				}
				stores++
				usesConfig := false
				ast.Inspect(as.Rhs[i], func(k ast.Node) bool {
					if id, ok := k.(*ast.Ident); ok && objOf(info, id) == recv {
						usesConfig = true
					}
					return true
				})
				if usesConfig {
					fromConfig = append(fromConfig, exprString(l)+" = "+exprString(as.Rhs[i]))
				}
			}
			return true
		})
		if stores == 0 {
			r.Undecided("anchor changed: SchemaSetEntrypoint.Process stores no entry point")
		} else {
			n++
			r.Check(len(fromConfig) == 0, "effects/entry-point-designates-an-object", "compiler.SchemaSetEntrypoint.Process sets the entry point", fd.Pos(), "from an object of the schema, not from the configured name as it is",
				"schema_set_entry_point copies the configured name ("+strings.Join(fromConfig, "; ")+"): `entry_point: dash` next to the object Dash, or `entry_point: Nope`, gives EntryPointType = ref(main.dash) / ref(main.Nope) — the emitted JSON Schema starts with \"$ref\": \"#/definitions/dash\", which does not exist; every other transformation finds its target whatever the case and does nothing when there is none")
		}
	}
	// (b)
	if fn := ctx.LookupMethod("internal/ast/compiler", "RenameObject", "Process"); fn == nil {
		r.Undecided("anchor lost: compiler.RenameObject.Process")
	} else if fd, _ := ctx.DeclOf(fn); fd != nil {
		recv := info.Defs[fd.Recv.List[0].Names[0]]
		compares, fails := false, false
		isNewName := func(e ast.Expr) bool {
			sel, ok := ast.Unparen(e).(*ast.SelectorExpr)
			return ok && sel.Sel.Name == "To" && isIdentOf(info, sel.X, recv)
		}
		isObjectName := func(e ast.Expr) bool {
			sel, ok := ast.Unparen(e).(*ast.SelectorExpr)
			return ok && (sel.Sel.Name == "Name" || sel.Sel.Name == "ReferredType")
		}
		ast.Inspect(fd.Body, func(m ast.Node) bool {
			switch x := m.(type) {
			case *ast.BinaryExpr:
				if x.Op == token.EQL && ((isNewName(x.X) && isObjectName(x.Y)) || (isNewName(x.Y) && isObjectName(x.X))) {
					compares = true
				}
			case *ast.CallExpr:
				if f := callee(info, x); f != nil && (f.Name() == "EqualFold" || f.Name() == "HasObject" || f.Name() == "Has") {
					for _, a := range x.Args {
						if isNewName(a) {
							compares = true
						}
					}
				}
			case *ast.ReturnStmt:
				if len(x.Results) == 2 && !isNilIdent(info, x.Results[1]) {
					if c, ok := ast.Unparen(x.Results[1]).(*ast.CallExpr); ok {
						if f := callee(info, c); f != nil && f.Pkg() != nil && (f.Pkg().Path() == "fmt" || f.Pkg().Path() == "errors") {
							fails = true
						}
					}
				}
			}
			return true
		})
		n++
		r.Check(compares && fails, "effects/rename-target-free", "compiler.RenameObject.Process gives an object a new name", fd.Pos(), "after comparing that name with the names of the other objects, with an error exit",
			"rename_object never asks whether the new name is taken: `rename_object main.Bar → Foo` next to an object Foo gives Foo{b} and Holder{foo→Foo, bar→Foo} — the visitor stores the renamed object over the other one: three objects in, two out, and which one is lost depends on their order")
	}
	n += c20UnionSingleMember(ctx, r)
	r.Count("hunted clauses of the transformations (7th round)", n)
	r.Floor("hunted clauses of the transformations (7th round)", 5)
}

// c20UnionSingleMember: the three lists of a transformations / veneers file hold one transformation per entry. The
// dispatcher of each union starts with a call, under an error exit, to a function that counts the members that are set
// (reflection: IsNil) and errs beyond one; the published definition caps the entry at one property.
func c20UnionSingleMember(ctx *Ctx, r *Report) int {
	yp := ctx.Pkg("internal/yaml")
	if yp == nil {
		r.Undecided("anchor lost: internal/yaml")
		return 0
	}
	info := yp.TypesInfo
	counts := func(f *types.Func) bool {
		fd, _ := ctx.DeclOf(f)
		if fd == nil || fd.Body == nil {
			return false
		}
		isNil, beyondOne := false, false
		ast.Inspect(fd.Body, func(m ast.Node) bool {
			switch x := m.(type) {
			case *ast.CallExpr:
				if cf := callee(info, x); cf != nil && cf.Name() == "IsNil" {
					isNil = true
				}
			case *ast.BinaryExpr:
				if tv, ok := info.Types[x.Y]; ok && tv.Value != nil && (x.Op == token.GTR && tv.Value.ExactString() == "1" || x.Op == token.GEQ && tv.Value.ExactString() == "2") {
					beyondOne = true
				}
			}
			return true
		})
		return isNil && beyondOne
	}
	n := 0
	for _, u := range []struct{ typ, method, file, def string }{
		{"CompilerPass", "AsCompilerPass", "schemas/compiler_passes.json", "YamlCompilerPass"},
		{"BuilderRule", "AsRewriteRule", "schemas/veneers.json", "YamlBuilderRule"},
		{"OptionRule", "AsRewriteRule", "schemas/veneers.json", "YamlOptionRule"},
	} {
		fn := ctx.LookupMethod("internal/yaml", u.typ, u.method)
		fd, _ := ctx.DeclOf(fn)
		if fd == nil || fd.Body == nil || len(fd.Body.List) == 0 {
			r.Undecided("anchor lost: yaml.%s.%s", u.typ, u.method)
			continue
		}
		recv := info.Defs[fd.Recv.List[0].Names[0]]
		guarded := false
		if is, ok := fd.Body.List[0].(*ast.IfStmt); ok && endsInExit(is.Body) {
			if as, ok := is.Init.(*ast.AssignStmt); ok && len(as.Rhs) == 1 {
				if c, ok := ast.Unparen(as.Rhs[0]).(*ast.CallExpr); ok && counts(callee(info, c)) {
					for _, a := range c.Args {
						if isIdentOf(info, a, recv) {
							guarded = true
						}
					}
				}
			}
		}
		n++
		r.Check(guarded, "cfgschema/union-single-member", "yaml."+u.typ+"."+u.method+" takes one member of the union", fd.Pos(), "after a check that errs when several members are set",
			"yaml."+u.typ+"."+u.method+" returns at the first member of the union that is set: `- rename_object: {…}` and `omit: {…}` in one list entry apply omit only — the other transformation is dropped without a word, and which one survives follows the order of the tests in the Go source, not the file")
		data, err := os.ReadFile(filepath.Join(ctx.Repo, u.file))
		if err != nil {
			r.Undecided("cannot read %s: %v", u.file, err)
			continue
		}
		var doc map[string]any
		if err := json.Unmarshal(data, &doc); err != nil {
			r.Undecided("cannot parse %s: %v", u.file, err)
			continue
		}
		defs, _ := doc["$defs"].(map[string]any)
		def, _ := defs[u.def].(map[string]any)
		max, hasMax := def["maxProperties"].(float64)
		n++
		r.Check(hasMax && max == 1, "cfgschema/union-single-member", u.file+" "+u.def+" holds one transformation", token.NoPos, "maxProperties: 1",
			"the published definition "+u.def+" accepts an entry with several keys, which the loader refuses (or, before the repair, half applied): a file that validates in an editor does not load")
	}
	// the two unions of a pipeline file: one entry of `inputs`, one entry of `output.languages`
	if gp := ctx.Pkg("internal/codegen"); gp == nil {
		r.Undecided("anchor lost: internal/codegen")
	} else {
		ginfo := gp.TypesInfo
		checked := func(fd *ast.FuncDecl, unionType string) bool {
			found := false
			ast.Inspect(fd.Body, func(m ast.Node) bool {
				is, ok := m.(*ast.IfStmt)
				if !ok || !endsInExit(is.Body) {
					return true
				}
				as, ok := is.Init.(*ast.AssignStmt)
				if !ok || len(as.Rhs) != 1 {
					return true
				}
				c, ok := ast.Unparen(as.Rhs[0]).(*ast.CallExpr)
				if !ok {
					return true
				}
				f := callee(ginfo, c)
				if f == nil || f.Pkg() == nil || f.Pkg() != yp.Types || !counts(f) {
					return true
				}
				for _, a := range c.Args {
					if namedName(ginfo.TypeOf(a)) == unionType {
						found = true
					}
				}
				return true
			})
			return found
		}
		data, err := os.ReadFile(filepath.Join(ctx.Repo, "schemas/pipeline.json"))
		var defs map[string]any
		if err == nil {
			var doc map[string]any
			if json.Unmarshal(data, &doc) == nil {
				defs, _ = doc["$defs"].(map[string]any)
			}
		}
		for _, u := range []struct{ typ, method, union, def string }{
			{"Input", "loader", "Input", "CodegenInput"},
			{"Pipeline", "OutputLanguages", "OutputLanguage", "CodegenOutputLanguage"},
		} {
			fn := ctx.LookupMethod("internal/codegen", u.typ, u.method)
			fd, _ := ctx.DeclOf(fn)
			if fd == nil || fd.Body == nil {
				r.Undecided("anchor lost: codegen.%s.%s", u.typ, u.method)
				continue
			}
			n++
			r.Check(checked(fd, u.union), "cfgschema/union-single-member", "codegen."+u.typ+"."+u.method+" takes one member of "+u.union, fd.Pos(), "after a check that errs when several members are set",
				"codegen."+u.typ+"."+u.method+" takes the first member of "+u.union+" that is set: `languages: [{go: {…}, typescript: {}}]` generates Go only, `inputs: [{jsonschema: {…}, cue: {…}}]` reads the JSON Schema only — the other member is dropped without a word")
			def, _ := defs[u.def].(map[string]any)
			max, hasMax := def["maxProperties"].(float64)
			_, oneOf := def["oneOf"]
			n++
			r.Check((hasMax && max == 1) || oneOf, "cfgschema/union-single-member", "schemas/pipeline.json "+u.def+" holds one member", token.NoPos, "maxProperties: 1, or oneOf over the members",
				"the published definition "+u.def+" accepts an entry with several members, which the loader refuses")
		}
	}
	return n
}

// c15EighthRound — sixth hunt of C15:
//   - a pass that creates an object under a name its configuration gives (add_object, duplicate_object) refuses a name
//     that is taken: the visitor adds new objects with Schema.AddObject, which replaces;
//   - rename_object changes nothing when no object matches (the references to a package that is not among the schemas
//     keep their name);
//   - trim_enum_values also trims the members named by the default of a list or of a map.
func c15EighthRound(ctx *Ctx, r *Report) {
	n := 0
	// (a)
	creators := 0
	ctx.AllFuncDecls(func(p *packages.Package, fd *ast.FuncDecl, obj *types.Func) {
		if fd.Body == nil || fd.Recv == nil || !strings.HasSuffix(p.PkgPath, "/internal/ast/compiler") {
			return
		}
		info := p.TypesInfo
		registers, configured := false, false
		ast.Inspect(fd.Body, func(m ast.Node) bool {
			switch x := m.(type) {
			case *ast.CallExpr:
				if f := callee(info, x); f != nil && f.Name() == "RegisterNewObject" {
					registers = true
				}
			case *ast.SelectorExpr:
				if f, ok := info.Uses[x.Sel].(*types.Var); ok && f.IsField() && namedName(f.Type()) == "ObjectReference" {
					configured = true
				}
			}
			return true
		})
		if !registers || !configured {
			return
		}
		creators++
		guarded := false
		ast.Inspect(fd.Body, func(m ast.Node) bool {
			is, ok := m.(*ast.IfStmt)
			if !ok || !endsInExit(is.Body) {
				return true
			}
			ast.Inspect(is.Cond, func(q ast.Node) bool {
				if c, ok := q.(*ast.CallExpr); ok {
					if f := callee(info, c); f != nil && (f.Name() == "HasObject" || f.Name() == "LocateObject") {
						guarded = true
					}
				}
				return true
			})
			return true
		})
		n++
		r.Check(guarded, "effects/created-object-name-free", ctx.FuncName(obj)+" creates an object under a configured name", fd.Pos(), "a name that is taken is refused",
			ctx.FuncName(obj)+" registers a new object under the name its configuration gives without looking at the schema; the visitor adds it with Schema.AddObject, which replaces: `add_object main.Foo as string` (or `duplicate_object main.Src as main.Foo`) next to an existing Foo replaces the struct, its fields and comments, without a word")
	})
	r.Count("passes creating an object under a configured name", creators)
	r.Floor("passes creating an object under a configured name", 2)
	// (b)
	if fn := ctx.LookupMethod("internal/ast/compiler", "RenameObject", "Process"); fn == nil {
		r.Undecided("anchor lost: compiler.RenameObject.Process")
	} else if fd, p := ctx.DeclOf(fn); fd != nil {
		info := p.TypesInfo
		var visit token.Pos
		ast.Inspect(fd.Body, func(m ast.Node) bool {
			if c, ok := m.(*ast.CallExpr); ok {
				if f := callee(info, c); f != nil && f.Name() == "VisitSchemas" && !visit.IsValid() {
					visit = c.Pos()
				}
			}
			return true
		})
		untouched := false
		for _, st := range fd.Body.List {
			is, ok := st.(*ast.IfStmt)
			if !ok || !visit.IsValid() || is.Pos() > visit || len(is.Body.List) != 1 {
				continue
			}
			if rs, ok := is.Body.List[0].(*ast.ReturnStmt); ok && len(rs.Results) == 2 && exprString(rs.Results[0]) == "schemas" && isNilIdent(info, rs.Results[1]) {
				untouched = true
			}
		}
		n++
		r.Check(untouched, "effects/rename-without-target-changes-nothing", "compiler.RenameObject.Process finds no object to rename", fd.Pos(), "the schemas are returned as they are",
			"the references that match the configured name are rewritten whether or not an object does: with package common not among the schemas, `rename_object common.TimeZone → TZ` turns ref(common.TimeZone) into ref(common.TZ), a name that exists nowhere")
	}
	// (c)
	if fn := ctx.LookupMethod("internal/ast/compiler", "TrimEnumValues", "Process"); fn == nil {
		r.Undecided("anchor lost: compiler.TrimEnumValues.Process")
	} else if fd, _ := ctx.DeclOf(fn); fd != nil {
		handlers := map[string]bool{}
		ast.Inspect(fd.Body, func(m ast.Node) bool {
			kv, ok := m.(*ast.KeyValueExpr)
			if !ok {
				return true
			}
			k, ok := kv.Key.(*ast.Ident)
			if !ok || (k.Name != "OnArray" && k.Name != "OnMap") {
				return true
			}
			ast.Inspect(kv.Value, func(q ast.Node) bool {
				if as, ok := q.(*ast.AssignStmt); ok {
					for _, l := range as.Lhs {
						if strings.HasSuffix(exprString(l), ".Default") {
							handlers[k.Name] = true
						}
					}
				}
				return true
			})
			return true
		})
		n++
		r.Check(handlers["OnArray"] && handlers["OnMap"], "effects/trimmed-collection-defaults", "compiler.TrimEnumValues rewrites the values that designate a member", fd.Pos(), "the defaults of lists and maps of members included",
			"the default of a reference and the value of a constant reference follow the trimmed members, the items of a list default and the values of a map default do not: `kinds: []Kind default [\" z \"]` designates nothing once the member is \"z\"")
	}
	r.Count("hunted clauses of the transformation rules (8th round)", n)
	r.Floor("hunted clauses of the transformation rules (8th round)", 4)
}
